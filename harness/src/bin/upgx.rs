//! C19 — upgrading file-system accounts to the database loses nothing.
//!
//! Source trees are file-system data directories produced with real API
//! calls: 1-2 accounts per data dir built from short histories (folders
//! with flags, a deleted folder, a renamed folder, secrets of several
//! kinds, an attachment, preferences, a second trusted device, server
//! origins), never synced / synced to a real in-process server / synced
//! and then edited locally; the server's own directory of every synced
//! tree is a server-layout source tree.
//!
//! For every tree: `upgrade_accounts` dry run (source must be untouched,
//! no database created), then the real upgrade, then per account:
//! sync_status equal for all five log kinds, record streams equal
//! event-for-event with timestamps, decrypted AccountView equal, trusted
//! devices, preferences, server origins, attachments equal; and for
//! synced trees a sync between every upgraded / not upgraded pairing of
//! client and server succeeds without conflict and without change.
//!
//! The second half of C19 ("the same history executed directly on either
//! backend gives the same observable account") is decided by the hist
//! engine's lock-step differential (C01/C06 runs) and is not repeated.
use anyhow::{anyhow, Context, Result};
use serde::{Deserialize, Serialize};
use serde_json::{json, Map, Value};
use sos_account::{Account, LocalAccount};
use sos_backend::{BackendTarget, Preferences, ServerOrigins};
use sos_client_storage::{AccessOptions, NewFolderOptions};
use sos_core::{
    AccountId, ExternalFileName, Origin, Paths, RemoteOrigins, SecretId,
    VaultFlags, VaultId,
};
use sos_database_upgrader::{upgrade_accounts, UpgradeOptions};
use sos_preferences::{Preference, PreferenceManager};
use sos_server_storage::ServerAccountStorage;
use sos_sync::SyncStorage;
use sos_vault::secret::{FileContent, Secret, SecretRow};
use std::collections::{BTreeMap, BTreeSet};
use std::path::{Path, PathBuf};
use vkit::acct::{account_view, AccountView, Backend, Dev};
use vkit::pool::{self, PoolOpts};
use vkit::run::{push_sample, Args, Run, Tier};
use vkit::world::{
    all_logs, start_server, status_view, Device, ServerProc, SyncResult,
};
use vkit::{clock, fsutil, gen};

// ------------------------------------------------------------ histories

#[derive(Clone, Debug, Serialize, Deserialize, PartialEq, Eq)]
enum Op {
    Folder { flags: bool, desc: bool },
    /// folder with the non-default cipher and key derivation
    FolderCipher,
    Secret { f: usize, kind: String, variant: u8 },
    Rename { f: usize },
    Update { s: usize },
    DeleteSecret { s: usize },
    Archive { s: usize },
    Move { s: usize, to: usize },
    /// external file secret created from a real file on disc
    Attach { f: usize },
    /// a second external file owned by an existing secret (a file field
    /// created from a real file on disc)
    AttachField { s: usize },
    CustomField { s: usize },
    DeleteFolder { f: usize },
    Compact { f: usize },
    /// account preferences of every value type
    Prefs,
    /// trust a second (mock) device
    TrustDevice,
}

#[derive(Clone, Debug, Serialize, Deserialize)]
struct History {
    name: String,
    ops: Vec<Op>,
}

#[derive(Clone, Copy, Debug, Serialize, Deserialize, PartialEq, Eq)]
enum SyncState {
    /// never connected to a server
    Never,
    /// pushed to a server, nothing since
    Synced,
    /// pushed to a server, then edited locally
    SyncedThenEdited,
}

#[derive(Clone, Debug, Serialize, Deserialize)]
struct Tree {
    accounts: Vec<usize>,
    sync: SyncState,
    /// write global preferences into the data dir
    global_prefs: bool,
    /// keep_stale_files + backup_directory instead of the defaults
    keep_and_backup: bool,
}

const ARCHIVE_SLOT: usize = usize::MAX;

#[derive(Default)]
struct St {
    folders: Vec<(bool, Option<VaultId>)>,
    secrets: Vec<(bool, usize, Option<SecretId>, String)>,
    attachments: Vec<(usize, Vec<u8>)>,
}

fn histories(tier: Tier) -> Vec<History> {
    let base = |k: [&str; 3]| -> Vec<Op> {
        vec![
            Op::Folder { flags: true, desc: true },
            Op::Secret { f: 0, kind: k[0].into(), variant: 0 },
            Op::Secret { f: 1, kind: k[1].into(), variant: 1 },
            Op::Secret { f: 0, kind: k[2].into(), variant: 0 },
            Op::Rename { f: 1 },
            Op::DeleteSecret { s: 0 },
        ]
    };
    let mut v = vec![];
    let mut h0 = base(["note", "login", "list"]);
    h0.extend([
        Op::Folder { flags: false, desc: false },
        Op::Secret { f: 2, kind: "card".into(), variant: 0 },
        Op::DeleteFolder { f: 2 },
        Op::Prefs,
        Op::TrustDevice,
    ]);
    v.push(History { name: "h0-base+deleted-folder+prefs+device".into(), ops: h0 });
    let mut h1 = base(["bank", "contact", "totp"]);
    h1.push(Op::Attach { f: 0 });
    // the file secret owns two external files, a login owns one
    h1.push(Op::AttachField { s: 3 });
    h1.push(Op::AttachField { s: 1 });
    h1.push(Op::FolderCipher);
    h1.push(Op::Secret { f: 2, kind: "age".into(), variant: 0 });
    v.push(History { name: "h1-base+attachment".into(), ops: h1 });
    v.push(History { name: "h2-empty".into(), ops: vec![] });
    let mut h3 = base(["page", "identity", "password"]);
    h3.extend([
        Op::Archive { s: 2 },
        Op::Update { s: 1 },
        Op::CustomField { s: 1 },
        Op::Compact { f: 0 },
        Op::Rename { f: 0 },
        Op::Folder { flags: true, desc: false },
        Op::DeleteFolder { f: 1 },
    ]);
    v.push(History { name: "h3-archive+update+fields+compact+delete-flagged-folder".into(), ops: h3 });
    if tier == Tier::Thorough {
        let suffixes: Vec<(&str, Vec<Op>)> = vec![
            ("move-file-into-flagged-folder", vec![Op::Attach { f: 0 }, Op::Move { s: 3, to: 1 }]),
            ("delete-file-secret", vec![Op::Attach { f: 0 }, Op::DeleteSecret { s: 3 }]),
            ("delete-folder-with-file", vec![Op::Attach { f: 1 }, Op::DeleteFolder { f: 1 }]),
            ("all-kinds-a", ["pem", "signer", "age", "link", "file"].iter().map(|k| Op::Secret { f: 0, kind: k.to_string(), variant: 1 }).collect()),
            ("empty-values", vec![Op::Secret { f: 1, kind: "note".into(), variant: 2 }, Op::Secret { f: 0, kind: "login".into(), variant: 2 }]),
            ("large-value", vec![Op::Secret { f: 0, kind: "page".into(), variant: 3 }]),
            ("update-twice+compact", vec![Op::Update { s: 1 }, Op::Update { s: 1 }, Op::Compact { f: 1 }]),
            ("prefs+device+fields", vec![Op::Prefs, Op::TrustDevice, Op::CustomField { s: 2 }]),
            ("two-attachments", vec![Op::Attach { f: 0 }, Op::Attach { f: 1 }]),
            ("three-files-of-one-secret", vec![Op::Attach { f: 0 }, Op::AttachField { s: 3 }, Op::AttachField { s: 3 }]),
            ("move-secret-with-two-files", vec![Op::Attach { f: 0 }, Op::AttachField { s: 3 }, Op::Move { s: 3, to: 1 }]),
            ("archive-then-delete", vec![Op::Archive { s: 1 }, Op::DeleteSecret { s: 1 }]),
        ];
        let sets = [["note", "login", "list"], ["card", "bank", "contact"], ["totp", "pem", "page"]];
        for (i, (n, sfx)) in suffixes.into_iter().enumerate() {
            let mut ops = base(sets[i % sets.len()]);
            ops.extend(sfx);
            v.push(History { name: format!("t{}-base+{}", i, n), ops });
        }
        // base ++ every enabled suffix of length <= 2 over the alphabet
        let alpha = suffix_alphabet();
        let mut frontier: Vec<Vec<usize>> = vec![vec![]];
        let mut n = 0usize;
        for _ in 0..2 {
            let mut next = vec![];
            for p in &frontier {
                for a in 0..alpha.len() {
                    let mut q = p.clone();
                    q.push(a);
                    let mut ops = base(sets[n % sets.len()]);
                    ops.extend(q.iter().map(|i| alpha[*i].clone()));
                    if enabled(&ops) {
                        v.push(History { name: format!("e-base+{}", q.iter().map(|i| i.to_string()).collect::<Vec<_>>().join(".")), ops });
                        n += 1;
                        next.push(q);
                    }
                }
            }
            frontier = next;
        }
    }
    v
}

fn suffix_alphabet() -> Vec<Op> {
    vec![
        Op::Secret { f: 1, kind: "card".into(), variant: 1 },
        Op::Update { s: 1 },
        Op::Archive { s: 2 },
        Op::Move { s: 2, to: 1 },
        Op::DeleteFolder { f: 1 },
        Op::CustomField { s: 2 },
        Op::AttachField { s: 2 },
        Op::Compact { f: 0 },
        Op::Folder { flags: false, desc: true },
        Op::Rename { f: 0 },
        Op::DeleteSecret { s: 2 },
        Op::Prefs,
        Op::TrustDevice,
        Op::FolderCipher,
    ]
}

/// Is every op of the history enabled when it is reached?
fn enabled(ops: &[Op]) -> bool {
    let mut folders: Vec<bool> = vec![true];
    // (alive, folder slot)
    let mut secrets: Vec<(bool, usize)> = vec![];
    let mut prefs = false;
    let mut device = false;
    let mut with_file_field: Vec<usize> = vec![];
    for op in ops {
        let f_ok = |f: &usize| folders.get(*f).copied() == Some(true);
        let s_ok = |s: &usize| secrets.get(*s).map(|x| x.0) == Some(true);
        match op {
            Op::Folder { .. } | Op::FolderCipher => folders.push(true),
            Op::Secret { f, .. } | Op::Attach { f } => {
                if !f_ok(f) {
                    return false;
                }
                secrets.push((true, *f));
            }
            Op::Rename { f } | Op::Compact { f } => {
                if !f_ok(f) {
                    return false;
                }
            }
            Op::Update { s } => {
                // an update replaces the whole secret (and with it a file field)
                if !s_ok(s) || with_file_field.contains(s) {
                    return false;
                }
            }
            Op::CustomField { s } => {
                if !s_ok(s) {
                    return false;
                }
            }
            Op::AttachField { s } => {
                if !s_ok(s) {
                    return false;
                }
                with_file_field.push(*s);
            }
            Op::DeleteSecret { s } => {
                if !s_ok(s) {
                    return false;
                }
                secrets[*s].0 = false;
            }
            Op::Archive { s } => {
                if !s_ok(s) || secrets[*s].1 == ARCHIVE_SLOT {
                    return false;
                }
                secrets[*s].1 = ARCHIVE_SLOT;
            }
            Op::Move { s, to } => {
                if !s_ok(s) || !f_ok(to) || secrets[*s].1 == *to {
                    return false;
                }
                secrets[*s].1 = *to;
            }
            Op::DeleteFolder { f } => {
                if *f == 0 || !f_ok(f) {
                    return false;
                }
                folders[*f] = false;
                for s in secrets.iter_mut() {
                    if s.1 == *f {
                        s.0 = false;
                    }
                }
            }
            // once is enough (the second application changes nothing new)
            Op::Prefs => {
                if prefs {
                    return false;
                }
                prefs = true;
            }
            Op::TrustDevice => {
                if device {
                    return false;
                }
                device = true;
            }
        }
    }
    true
}

fn trees(tier: Tier, hs: &[History]) -> Vec<Tree> {
    let mut v = vec![];
    let n = hs.len();
    // every history, never synced
    for i in 0..n {
        v.push(Tree { accounts: vec![i], sync: SyncState::Never, global_prefs: i % 2 == 0, keep_and_backup: i % 2 == 1 });
    }
    // two accounts per data dir
    v.push(Tree { accounts: vec![0, 1], sync: SyncState::Never, global_prefs: true, keep_and_backup: false });
    v.push(Tree { accounts: vec![2, 3], sync: SyncState::Never, global_prefs: false, keep_and_backup: true });
    // synced
    let synced: Vec<usize> = match tier {
        Tier::Quick => vec![0, 1, 3],
        Tier::Thorough => (0..n).collect(),
    };
    for (k, i) in synced.iter().enumerate() {
        v.push(Tree { accounts: vec![*i], sync: SyncState::Synced, global_prefs: k % 2 == 1, keep_and_backup: k % 2 == 0 });
    }
    v.push(Tree { accounts: vec![0, 3], sync: SyncState::Synced, global_prefs: false, keep_and_backup: false });
    let ahead: Vec<usize> = match tier {
        Tier::Quick => vec![0],
        // the enumerated histories: every third one also edited after the sync
        Tier::Thorough => (0..n).filter(|i| *i < 14 || i % 3 == 0).collect(),
    };
    for i in ahead {
        v.push(Tree { accounts: vec![i], sync: SyncState::SyncedThenEdited, global_prefs: false, keep_and_backup: false });
    }
    if tier == Tier::Thorough {
        v.push(Tree { accounts: vec![1, 2], sync: SyncState::Synced, global_prefs: true, keep_and_backup: true });
        v.push(Tree { accounts: vec![3, 1], sync: SyncState::SyncedThenEdited, global_prefs: true, keep_and_backup: false });
    }
    v
}

fn attachment_bytes(marker: &str, slot: usize) -> Vec<u8> {
    let mut b = format!("attachment {} slot {} ", marker, slot).into_bytes();
    b.extend((0..=255u8).rev());
    b.extend(format!(" end-of-attachment-{}", slot).as_bytes());
    b
}

fn pref_values(marker: &str) -> Vec<(String, Preference)> {
    vec![
        ("verif.bool".into(), Preference::Bool(true)),
        ("verif.number".into(), Preference::Number(1.5)),
        ("verif.integer".into(), Preference::Number(42.0)),
        ("verif.string".into(), Preference::String(format!("prefs of {} é✓", marker))),
        ("verif.list".into(), Preference::StringList(vec!["a".into(), format!("b-{}", marker), "".into()])),
        ("verif.json".into(), Preference::Json(json!({"nested": {"k": [1, 2, 3], "s": marker}}))),
    ]
}

async fn apply(dev: &mut Dev, st: &mut St, op: &Op, marker: &str, scratch: &Path) -> Result<()> {
    let fid = |st: &St, f: usize| -> Result<VaultId> { st.folders[f].1.ok_or_else(|| anyhow!("folder slot {} has no id", f)) };
    let archive = dev.account.archive_folder().await.map(|s| *s.id());
    let sfolder = |st: &St, f: usize| -> Result<VaultId> {
        if f == ARCHIVE_SLOT {
            archive.ok_or_else(|| anyhow!("no archive folder"))
        } else {
            fid(st, f)
        }
    };
    let acc = &mut dev.account;
    match op {
        Op::Folder { flags, desc } => {
            let n = st.folders.len();
            let r = acc.create_folder(NewFolderOptions::new(format!("user-folder-{}", n))).await?;
            let id = *r.folder.id();
            if *flags {
                acc.update_folder_flags(&id, VaultFlags::LOCAL | VaultFlags::NO_SYNC).await?;
            }
            if *desc {
                acc.set_folder_description(&id, format!("description of folder {} ({}) é✓", n, marker)).await?;
            }
            st.folders.push((true, Some(id)));
        }
        Op::FolderCipher => {
            let n = st.folders.len();
            let mut o = NewFolderOptions::new(format!("xchacha-folder-{}", n));
            o.cipher = Some(sos_core::crypto::Cipher::XChaCha20Poly1305);
            o.kdf = Some(sos_core::crypto::KeyDerivation::BalloonHash);
            let r = acc.create_folder(o).await?;
            st.folders.push((true, Some(*r.folder.id())));
        }
        Op::Secret { f, kind, variant } => {
            let slot = st.secrets.len();
            let (meta, secret) = gen::secret(kind, *variant, &format!("{}s{}", marker, slot));
            let r = acc.create_secret(meta, secret, AccessOptions { folder: Some(fid(st, *f)?), ..Default::default() }).await?;
            st.secrets.push((true, *f, Some(r.id), kind.clone()));
        }
        Op::Rename { f } => {
            acc.rename_folder(&fid(st, *f)?, format!("renamed-folder-{}-{}", f, marker)).await?;
        }
        Op::Update { s } => {
            let (_, f, id, kind) = st.secrets[*s].clone();
            let (meta, secret) = gen::secret(&kind, 1, &format!("{}s{}u", marker, s));
            acc.update_secret(&id.unwrap(), meta, Some(secret), AccessOptions { folder: Some(sfolder(st, f)?), ..Default::default() }).await?;
        }
        Op::DeleteSecret { s } => {
            let (_, f, id, _) = st.secrets[*s].clone();
            acc.delete_secret(&id.unwrap(), AccessOptions { folder: Some(sfolder(st, f)?), ..Default::default() }).await?;
            st.secrets[*s].0 = false;
        }
        Op::Archive { s } => {
            let (_, f, id, _) = st.secrets[*s].clone();
            let r = acc.archive(&fid(st, f)?, &id.unwrap(), Default::default()).await?;
            st.secrets[*s].1 = ARCHIVE_SLOT;
            st.secrets[*s].2 = Some(r.id);
        }
        Op::Move { s, to } => {
            let (_, f, id, _) = st.secrets[*s].clone();
            let r = acc.move_secret(&id.unwrap(), &sfolder(st, f)?, &fid(st, *to)?, Default::default()).await?;
            st.secrets[*s].1 = *to;
            st.secrets[*s].2 = Some(r.id);
        }
        Op::Attach { f } => {
            let slot = st.secrets.len();
            let bytes = attachment_bytes(marker, slot);
            let path = scratch.join(format!("att-{}-{}.txt", marker, slot));
            std::fs::write(&path, &bytes)?;
            let secret: Secret = path.clone().try_into()?;
            let meta = sos_vault::secret::SecretMeta::new(format!("external-file-{}-{}", slot, marker), secret.kind());
            let r = acc.create_secret(meta, secret, AccessOptions { folder: Some(fid(st, *f)?), ..Default::default() }).await?;
            st.secrets.push((true, *f, Some(r.id), "file-ext".into()));
            st.attachments.push((slot, bytes));
        }
        Op::AttachField { s } => {
            let (_, f, id, _) = st.secrets[*s].clone();
            let folder = sfolder(st, f)?;
            let n = st.attachments.len();
            let bytes = attachment_bytes(marker, 100 + n);
            let path = scratch.join(format!("att-field-{}-{}.txt", marker, n));
            std::fs::write(&path, &bytes)?;
            let secret: Secret = path.clone().try_into()?;
            let meta = sos_vault::secret::SecretMeta::new(format!("file-field-{}-{}", n, marker), secret.kind());
            let (mut row, _) = acc.read_secret(&id.unwrap(), Some(&folder)).await?;
            row.secret_mut().add_field(SecretRow::new(SecretId::new_v4(), meta, secret));
            acc.update_secret(&id.unwrap(), row.meta().clone(), Some(row.secret().clone()), AccessOptions { folder: Some(folder), ..Default::default() }).await?;
            st.attachments.push((*s, bytes));
        }
        Op::CustomField { s } => {
            let (_, f, id, _) = st.secrets[*s].clone();
            let folder = sfolder(st, f)?;
            let (mut row, _) = acc.read_secret(&id.unwrap(), Some(&folder)).await?;
            let (m1, s1) = gen::secret("note", 1, &format!("{}field{}", marker, s));
            let (m2, s2) = gen::secret("file", 0, &format!("{}field{}", marker, s));
            row.secret_mut().add_field(SecretRow::new(SecretId::new_v4(), m1, s1));
            row.secret_mut().add_field(SecretRow::new(SecretId::new_v4(), m2, s2));
            row.secret_mut().user_data_mut().set_comment(Some(format!("comment on secret {} ({}) ü", s, marker)));
            acc.update_secret(&id.unwrap(), row.meta().clone(), Some(row.secret().clone()), AccessOptions { folder: Some(folder), ..Default::default() }).await?;
        }
        Op::DeleteFolder { f } => {
            acc.delete_folder(&fid(st, *f)?).await?;
            st.folders[*f].0 = false;
            for s in st.secrets.iter_mut() {
                if s.1 == *f {
                    s.0 = false;
                }
            }
        }
        Op::Compact { f } => {
            acc.compact_folder(&fid(st, *f)?).await?;
        }
        Op::Prefs => {
            let prefs = Preferences::new(dev.target.clone());
            prefs.new_account(&dev.account_id).await?;
            let p = prefs.account_preferences(&dev.account_id).await.ok_or_else(|| anyhow!("no account preferences"))?;
            let mut p = p.lock().await;
            for (k, v) in pref_values(marker) {
                p.insert(k, v).await?;
            }
        }
        Op::TrustDevice => {
            let device = sos_test_utils::mock::device()?;
            acc.patch_devices_unchecked(&[sos_core::events::DeviceEvent::Trust(device)]).await?;
        }
    }
    Ok(())
}

/// Local edits made after the sync of a SyncedThenEdited tree.
async fn apply_local_edits(dev: &mut Dev, marker: &str) -> Result<usize> {
    let default = dev.account.default_folder().await.ok_or_else(|| anyhow!("no default folder"))?;
    let (meta, secret) = gen::secret("link", 1, &format!("{}-after-sync", marker));
    let r = dev.account.create_secret(meta, secret, AccessOptions { folder: Some(*default.id()), ..Default::default() }).await?;
    let (meta, secret) = gen::secret("link", 0, &format!("{}-after-sync-u", marker));
    dev.account.update_secret(&r.id, meta, Some(secret), AccessOptions { folder: Some(*default.id()), ..Default::default() }).await?;
    dev.account.create_folder(NewFolderOptions::new("folder-after-sync".to_string())).await?;
    Ok(3)
}

// --------------------------------------------------------- observations

fn norm_tags(v: &mut Value) {
    match v {
        Value::Object(m) => {
            for (k, x) in m.iter_mut() {
                if k == "tags" {
                    if let Value::Array(a) = x {
                        a.sort_by_key(|t| t.to_string());
                    }
                } else {
                    norm_tags(x);
                }
            }
        }
        Value::Array(a) => a.iter_mut().for_each(norm_tags),
        _ => {}
    }
}

fn norm_view(v: &mut AccountView) {
    for f in v.folders.iter_mut() {
        for s in f.secrets.iter_mut() {
            norm_tags(&mut s.1);
            norm_tags(&mut s.2);
        }
    }
}

fn records_view(recs: &[sos_core::events::EventRecord]) -> Vec<Value> {
    recs.iter()
        .map(|r| json!([r.commit().to_string(), r.time().to_rfc3339().unwrap_or_else(|_| format!("{:?}", r.time())), fsutil::sha256_hex(r.event_bytes())]))
        .collect()
}

fn norm_msg(s: &str) -> String {
    let mut out = String::new();
    for tok in s.split(|c: char| !(c.is_ascii_alphanumeric() || c == '/' || c == '.')) {
        if tok.is_empty() {
            continue;
        }
        let t = tok.to_lowercase();
        let piece = if t.len() >= 8 && t.chars().all(|c| c.is_ascii_hexdigit() || c == 'x') {
            "ID".to_string()
        } else if t.chars().all(|c| c.is_ascii_digit()) {
            "N".to_string()
        } else if t.contains("/dev/shm") || t.contains("/tmp") || t.contains("verif-") {
            "PATH".to_string()
        } else if t.len() > 30 {
            "LONG".to_string()
        } else {
            t
        };
        if !out.is_empty() {
            out.push('_');
        }
        out.push_str(&piece);
        if out.len() > 70 {
            break;
        }
    }
    out
}

/// (folder, owning secret, file name) of every external file of a row.
fn external_files(folder: &VaultId, row: &SecretRow) -> Vec<(VaultId, SecretId, ExternalFileName)> {
    let mut out = vec![];
    let mut visit = |s: &Secret| {
        if let Secret::File { content: FileContent::External { checksum, .. }, .. } = s {
            out.push((*folder, *row.id(), ExternalFileName::from(*checksum)));
        }
    };
    visit(row.secret());
    for f in row.secret().user_data().fields() {
        visit(f.secret());
    }
    out
}

/// Everything C19 names, observed through the public API of one account.
async fn observe_client(dev: &mut Dev, decrypt: bool) -> Result<Value> {
    let status = dev.account.sync_status().await?;
    let folders: Vec<VaultId> = status.folders.keys().copied().collect();
    let logs = all_logs(&dev.account, &folders).await?;
    let mut logs_v = Map::new();
    for (name, recs) in &logs {
        logs_v.insert(name.clone(), json!(records_view(recs)));
    }
    let mut view = account_view(&mut dev.account, true).await?;
    norm_view(&mut view);
    let mut headers: Vec<Value> = dev.account.list_folders().await?.iter().map(|s| serde_json::to_value(s).unwrap_or(Value::Null)).collect();
    headers.sort_by_key(|h| h["id"].to_string());
    let mut devices: Vec<Value> = dev.account.trusted_devices().await?.iter().map(|d| serde_json::to_value(d).unwrap_or(Value::Null)).collect();
    devices.sort_by_key(|d| d.to_string());
    // account preferences
    let prefs = Preferences::new(dev.target.clone());
    prefs.new_account(&dev.account_id).await?;
    let mut prefs_v = BTreeMap::new();
    if let Some(p) = prefs.account_preferences(&dev.account_id).await {
        let p = p.lock().await;
        for (k, v) in p.iter() {
            prefs_v.insert(k.clone(), serde_json::to_value(v)?);
        }
    }
    // server origins
    let origins = ServerOrigins::new(dev.target.clone(), &dev.account_id);
    let mut origins_v: Vec<String> = origins.list_servers().await?.iter().map(|o| format!("{}|{}", o.name(), o.url())).collect();
    origins_v.sort();
    // external files: the listing of the storage and the raw blobs
    let paths = dev.target.paths();
    let mut files_v = BTreeMap::new();
    for f in dev.target.list_files().await? {
        let p = paths.into_file_path(&f);
        let d = std::fs::read(&p).map(|b| fsutil::sha256_hex(&b)).unwrap_or_else(|e| format!("<unreadable {}>", e.kind()));
        files_v.insert(f.to_string(), d);
    }
    // files referenced by secrets, optionally decrypted
    let mut referenced = BTreeMap::new();
    for s in dev.account.list_folders().await? {
        for id in dev.account.list_secret_ids(s.id()).await? {
            let (row, _) = dev.account.read_secret(&id, Some(s.id())).await?;
            for (v, sid, name) in external_files(s.id(), &row) {
                let key = format!("{}/{}/{}", v, sid, name);
                let val = if decrypt {
                    // age's speed-dependent work-factor bound: retried under load
                    let mut r = dev.account.download_file(&v, &sid, &name).await;
                    for _ in 0..10 {
                        match &r {
                            Err(e) if e.to_string().to_lowercase().contains("work parameter") => {
                                tokio::time::sleep(std::time::Duration::from_secs(2)).await;
                                r = dev.account.download_file(&v, &sid, &name).await;
                            }
                            _ => break,
                        }
                    }
                    match r {
                        Ok(b) => fsutil::sha256_hex(&b),
                        Err(e) => format!("<unreadable: {}>", norm_msg(&e.to_string())),
                    }
                } else {
                    "<not decrypted>".to_string()
                };
                referenced.insert(key, val);
            }
        }
    }
    Ok(json!({
        "status": status_view(&status),
        "logs": logs_v,
        "view": view,
        "folder_headers": headers,
        "devices": devices,
        "prefs": prefs_v,
        "origins": origins_v,
        "files": files_v,
        "referenced_files": referenced,
    }))
}

async fn observe_global_prefs(dir: &Path, backend: Backend) -> Result<Value> {
    let target = vkit::acct::target_for(dir, backend).await?;
    let mut prefs = Preferences::new(target.clone());
    prefs.load_global_preferences().await?;
    let g = prefs.global_preferences();
    let g = g.lock().await;
    let mut m = BTreeMap::new();
    for (k, v) in g.iter() {
        m.insert(k.clone(), serde_json::to_value(v)?);
    }
    drop(g);
    vkit::acct::close_target(&target).await;
    Ok(json!(m))
}

async fn observe_server(server: &ServerProc, id: &AccountId) -> Result<Value> {
    let sa = server.account(id).await.ok_or_else(|| anyhow!("account {} is not on the server", id))?;
    let sa = sa.read().await;
    let status = sa.sync_status().await?;
    let folders: Vec<VaultId> = status.folders.keys().copied().collect();
    let logs = all_logs(&*sa, &folders).await?;
    let mut logs_v = Map::new();
    for (name, recs) in &logs {
        logs_v.insert(name.clone(), json!(records_view(recs)));
    }
    let mut vaults = BTreeMap::new();
    let project = |v: &sos_vault::Vault| -> Value {
        let mut entries: Vec<String> = v
            .iter()
            .map(|(id, c)| {
                let sos_core::VaultCommit(h, sos_core::VaultEntry(m, s)) = c;
                format!("{}|{}|{}|{}", id, h, fsutil::sha256_hex(&serde_json::to_vec(m).unwrap_or_default()), fsutil::sha256_hex(&serde_json::to_vec(s).unwrap_or_default()))
            })
            .collect();
        entries.sort();
        json!({
            "id": v.id().to_string(), "name": v.name(), "flags": v.flags().bits(),
            "salt": v.salt(), "seed": v.seed().map(|s| hex::encode(s.as_ref())),
            "meta": v.header().meta().map(|m| fsutil::sha256_hex(&serde_json::to_vec(m).unwrap_or_default())),
            "entries": entries,
        })
    };
    for f in &folders {
        let v = match sa.read_vault(f).await {
            Ok(v) => project(&v),
            Err(e) => json!(format!("<unreadable: {}>", norm_msg(&e.to_string()))),
        };
        vaults.insert(f.to_string(), v);
    }
    // the login vault is covered by the identity log (read_login_vault is test-only API)
    let login = Value::Null;
    let mut keys: Vec<String> = sa.list_device_keys().iter().map(|k| hex::encode(k.as_ref())).collect();
    keys.sort();
    Ok(json!({"status": status_view(&status), "logs": logs_v, "vaults": vaults, "login_vault": login, "device_keys": keys}))
}

// --------------------------------------------------------------- oracle

struct Fails(Vec<Value>);
impl Fails {
    fn push(&mut self, sig: String, what: String) {
        if !self.0.iter().any(|f| f["sig"] == sig.as_str()) {
            self.0.push(json!({"sig": sig, "what": what}));
        }
    }
}

fn short(v: &Value) -> String {
    let s = v.to_string();
    if s.len() > 160 {
        format!("{}...({} chars)", s.chars().take(160).collect::<String>(), s.len())
    } else {
        s
    }
}

fn json_diff_path(a: &Value, b: &Value, at: &str) -> String {
    match (a, b) {
        (Value::Object(x), Value::Object(y)) => {
            let keys: BTreeSet<&String> = x.keys().chain(y.keys()).collect();
            for k in keys {
                match (x.get(k), y.get(k)) {
                    (Some(p), Some(q)) if p == q => {}
                    (Some(p), Some(q)) => return json_diff_path(p, q, &format!("{}/{}", at, k)),
                    (Some(p), None) => return format!("{}/{}: {} became absent", at, k, short(p)),
                    (None, Some(q)) => return format!("{}/{}: absent became {}", at, k, short(q)),
                    _ => {}
                }
            }
            format!("{}: equal", at)
        }
        (Value::Array(x), Value::Array(y)) => {
            if x.len() != y.len() {
                return format!("{}: array of {} became array of {}", at, x.len(), y.len());
            }
            for (i, (p, q)) in x.iter().zip(y.iter()).enumerate() {
                if p != q {
                    return json_diff_path(p, q, &format!("{}/{}", at, i));
                }
            }
            format!("{}: equal", at)
        }
        _ => format!("{}: {} became {}", at, short(a), short(b)),
    }
}

fn log_kind(name: &str) -> &'static str {
    if name.starts_with("folder:") {
        "folder"
    } else if name == "identity" {
        "identity"
    } else if name == "account" {
        "account"
    } else if name == "device" {
        "device"
    } else {
        "files"
    }
}

/// status + record streams, common to client and server layouts.
fn compare_logs(before: &Value, after: &Value, layout: &str, fails: &mut Fails, counters: &mut Counters) {
    for k in ["identity", "account", "device", "files"] {
        counters.logs += 1;
        if before["status"][k] != after["status"][k] {
            fails.push(format!("upgrade:status_differs:{}_log:{}", k, layout), format!("sync_status of the {} log: {} before the upgrade, {} after", k, before["status"][k], after["status"][k]));
        }
    }
    let fa = before["status"]["folders"].as_object().cloned().unwrap_or_default();
    let fb = after["status"]["folders"].as_object().cloned().unwrap_or_default();
    let keys: BTreeSet<&String> = fa.keys().chain(fb.keys()).collect();
    for k in keys {
        counters.logs += 1;
        if fa.get(k) != fb.get(k) {
            fails.push(format!("upgrade:status_differs:folder_log:{}", layout), format!("sync_status of a folder log: {} before the upgrade, {} after", fa.get(k).map(short).unwrap_or("absent".into()), fb.get(k).map(short).unwrap_or("absent".into())));
        }
    }
    let la = before["logs"].as_object().cloned().unwrap_or_default();
    let lb = after["logs"].as_object().cloned().unwrap_or_default();
    let keys: BTreeSet<&String> = la.keys().chain(lb.keys()).collect();
    for k in keys {
        let kind = log_kind(k);
        let (Some(a), Some(b)) = (la.get(k).and_then(|x| x.as_array()), lb.get(k).and_then(|x| x.as_array())) else {
            fails.push(format!("upgrade:records_differ:{}:log_missing:{}", kind, layout), format!("the {} log exists only {} the upgrade", kind, if la.contains_key(k) { "before" } else { "after" }));
            continue;
        };
        counters.records += a.len() as u64;
        if a.len() != b.len() {
            fails.push(format!("upgrade:records_differ:{}:length:{}", kind, layout), format!("the {} log had {} records before the upgrade and has {} after", kind, a.len(), b.len()));
            continue;
        }
        for (i, (x, y)) in a.iter().zip(b.iter()).enumerate() {
            if x != y {
                let what = if x[0] != y[0] {
                    "commit"
                } else if x[1] != y[1] {
                    "timestamp"
                } else {
                    "event_bytes"
                };
                fails.push(format!("upgrade:records_differ:{}:{}:{}", kind, what, layout), format!("record {} of {} of the {} log: {} before the upgrade, {} after", i, a.len(), kind, x, y));
                break;
            }
        }
    }
}

fn compare_client(before: &Value, after: &Value, fails: &mut Fails, counters: &mut Counters) {
    compare_logs(before, after, "client", fails, counters);
    // decrypted contents
    let va: AccountView = serde_json::from_value(before["view"].clone()).unwrap_or(AccountView { folders: vec![] });
    let vb: AccountView = serde_json::from_value(after["view"].clone()).unwrap_or(AccountView { folders: vec![] });
    let ia: BTreeSet<&String> = va.folders.iter().map(|f| &f.id).collect();
    let ib: BTreeSet<&String> = vb.folders.iter().map(|f| &f.id).collect();
    if ia != ib {
        fails.push("upgrade:view_differs:folder_set".into(), format!("{} folders before the upgrade, {} after", ia.len(), ib.len()));
    }
    for fa in &va.folders {
        let Some(fb) = vb.folder(&fa.id) else { continue };
        counters.folders += 1;
        if fa.name != fb.name {
            fails.push("upgrade:view_differs:folder_name".into(), format!("{:?} became {:?}", fa.name, fb.name));
        }
        if fa.flags != fb.flags {
            fails.push("upgrade:view_differs:folder_flags".into(), format!("flags {:#x} became {:#x} (folder {:?})", fa.flags, fb.flags, fa.name));
        }
        if fa.description != fb.description {
            fails.push("upgrade:view_differs:folder_description".into(), format!("{:?} became {:?}", fa.description, fb.description));
        }
        let sa: BTreeMap<&String, (&Value, &Value)> = fa.secrets.iter().map(|(i, m, s)| (i, (m, s))).collect();
        let sb: BTreeMap<&String, (&Value, &Value)> = fb.secrets.iter().map(|(i, m, s)| (i, (m, s))).collect();
        if sa.keys().collect::<Vec<_>>() != sb.keys().collect::<Vec<_>>() {
            fails.push("upgrade:view_differs:secret_set".into(), format!("folder {:?}: {} secrets became {}", fa.name, sa.len(), sb.len()));
        }
        for (id, (ma, xa)) in &sa {
            let Some((mb, xb)) = sb.get(id) else { continue };
            counters.secrets += 1;
            if ma != mb {
                fails.push("upgrade:view_differs:secret_meta".into(), format!("meta of a {} secret differs at {}", ma["kind"], json_diff_path(ma, mb, "")));
            }
            if xa != xb {
                fails.push("upgrade:view_differs:secret_value".into(), format!("decrypted value of a {} secret differs at {}", ma["kind"], json_diff_path(xa, xb, "")));
            }
        }
        let oa: Vec<&String> = fa.secrets.iter().map(|s| &s.0).collect();
        let ob: Vec<&String> = fb.secrets.iter().map(|s| &s.0).collect();
        if oa != ob && sa.keys().collect::<Vec<_>>() == sb.keys().collect::<Vec<_>>() {
            counters.listing_order_changed += 1;
        }
    }
    if before["folder_headers"] != after["folder_headers"] {
        fails.push("upgrade:view_differs:folder_header".into(), format!("folder summaries (version, cipher, kdf, flags) differ at {}", json_diff_path(&before["folder_headers"], &after["folder_headers"], "")));
    }
    if before["devices"] != after["devices"] {
        fails.push("upgrade:trusted_devices_differ:client".into(), format!("trusted devices differ at {}", json_diff_path(&before["devices"], &after["devices"], "")));
    }
    if before["prefs"] != after["prefs"] {
        fails.push("upgrade:preferences_differ:account".into(), format!("account preferences differ at {}", json_diff_path(&before["prefs"], &after["prefs"], "")));
    }
    if before["origins"] != after["origins"] {
        fails.push("upgrade:server_origins_differ".into(), format!("server origins {} became {}", before["origins"], after["origins"]));
    }
    // attachments: same set, same encrypted bytes, referenced by the same secrets
    let fa = before["files"].as_object().cloned().unwrap_or_default();
    let fb = after["files"].as_object().cloned().unwrap_or_default();
    counters.attachments += fa.len() as u64;
    if fa.keys().collect::<Vec<_>>() != fb.keys().collect::<Vec<_>>() {
        fails.push("upgrade:attachment_set_differs".into(), format!("external files listed before the upgrade: {:?}, after: {:?}", fa.keys().collect::<Vec<_>>(), fb.keys().collect::<Vec<_>>()));
    } else if fa != fb {
        fails.push("upgrade:attachment_blob_differs".into(), format!("encrypted blobs differ at {}", json_diff_path(&before["files"], &after["files"], "")));
    }
    let ra = before["referenced_files"].as_object().cloned().unwrap_or_default();
    let rb = after["referenced_files"].as_object().cloned().unwrap_or_default();
    if ra.keys().collect::<Vec<_>>() != rb.keys().collect::<Vec<_>>() {
        fails.push("upgrade:attachment_set_differs".into(), format!("external files referenced by secrets before the upgrade: {:?}, after: {:?}", ra.keys().collect::<Vec<_>>(), rb.keys().collect::<Vec<_>>()));
    }
}

#[derive(Default, Serialize, Deserialize)]
struct Counters {
    accounts: u64,
    logs: u64,
    records: u64,
    folders: u64,
    secrets: u64,
    attachments: u64,
    attachments_decrypted: u64,
    listing_order_changed: u64,
    ops: u64,
    syncs: u64,
    dry_runs: u64,
    upgrades: u64,
    client_trees: u64,
    server_trees: u64,
    post_upgrade_syncs: u64,
}

fn source_digest(dir: &Path) -> BTreeMap<String, String> {
    // the logs/ directory is not part of the source tree
    fsutil::tree_digest(dir).into_iter().filter(|(k, _)| k != "logs" && !k.starts_with("logs/")).collect()
}

fn db_files(dir: &Path) -> Vec<String> {
    fsutil::walk_files(dir)
        .into_iter()
        .filter(|p| {
            let n = p.file_name().map(|n| n.to_string_lossy().to_string()).unwrap_or_default();
            n.ends_with(".db") || n.ends_with(".db-wal") || n.ends_with(".db-shm") || n.ends_with(".db-journal")
        })
        .map(|p| p.strip_prefix(dir).unwrap_or(&p).to_string_lossy().to_string())
        .collect()
}

/// Dry run then real upgrade of one data directory. Returns false when
/// the real upgrade failed.
async fn dry_then_real(dir: &Path, server: bool, keep_and_backup: bool, expect_accounts: &BTreeSet<String>, layout: &str, fails: &mut Fails, counters: &mut Counters) -> Result<bool> {
    let paths = if server { Paths::new_server(dir) } else { Paths::new_client(dir) };
    let d0 = source_digest(dir);
    let db0 = db_files(dir);
    counters.dry_runs += 1;
    let dry = upgrade_accounts(dir.to_path_buf(), UpgradeOptions { paths: paths.clone(), dry_run: true, ..Default::default() }).await;
    let d1 = source_digest(dir);
    let db1 = db_files(dir);
    match &dry {
        Err(e) => fails.push(format!("upgrade:dry_run_failed:{}:{}", norm_msg(&e.to_string()), layout), format!("the dry run of a valid {} tree failed: {}", layout, e)),
        Ok(r) => {
            let got: BTreeSet<String> = r.accounts.iter().map(|a| a.account_id().to_string()).collect();
            if &got != expect_accounts {
                fails.push(format!("upgrade:dry_run_accounts_differ:{}", layout), format!("the dry run reports accounts {:?}, the tree holds {:?}", got, expect_accounts));
            }
        }
    }
    if d0 != d1 {
        let changed: Vec<&String> = d0.keys().chain(d1.keys()).filter(|k| d0.get(*k) != d1.get(*k)).collect::<BTreeSet<_>>().into_iter().collect();
        fails.push(format!("upgrade:dry_run_modified_source:{}", layout), format!("the dry run changed the source tree: {:?}", changed.iter().take(6).collect::<Vec<_>>()));
    }
    if db0 != db1 {
        fails.push(format!("upgrade:dry_run_created_database:{}", layout), format!("database files after the dry run: {:?}", db1));
    }
    counters.upgrades += 1;
    let backup_dir = dir.parent().unwrap().join(format!("backups-{}", dir.file_name().unwrap().to_string_lossy()));
    let options = UpgradeOptions {
        paths: paths.clone(),
        dry_run: false,
        keep_stale_files: keep_and_backup,
        backup_directory: if keep_and_backup { Some(backup_dir.clone()) } else { None },
        ..Default::default()
    };
    let real = upgrade_accounts(dir.to_path_buf(), options).await;
    match real {
        Err(e) => {
            fails.push(format!("upgrade:failed:{}:{}", norm_msg(&e.to_string()), layout), format!("upgrading a valid {} tree failed: {}", layout, e));
            Ok(false)
        }
        Ok(r) => {
            let got: BTreeSet<String> = r.accounts.iter().map(|a| a.account_id().to_string()).collect();
            if &got != expect_accounts {
                fails.push(format!("upgrade:accounts_differ:{}", layout), format!("the upgrade reports accounts {:?}, the tree held {:?}", got, expect_accounts));
            }
            if !paths.database_file().exists() {
                fails.push(format!("upgrade:no_database_file:{}", layout), "the upgrade succeeded but there is no database file".into());
                return Ok(false);
            }
            if keep_and_backup {
                // the old files must still be what they were
                let d2 = source_digest(dir);
                let lost: Vec<&String> = d1.keys().filter(|k| d2.get(*k) != d1.get(*k)).collect();
                if !lost.is_empty() {
                    fails.push(format!("upgrade:keep_stale_files_modified_source:{}", layout), format!("with keep_stale_files the upgrade changed or removed {:?}", lost.iter().take(6).collect::<Vec<_>>()));
                }
                for id in expect_accounts {
                    if !backup_dir.join(format!("{}.zip", id)).exists() {
                        fails.push(format!("upgrade:backup_missing:{}", layout), format!("backup_directory was given but there is no backup archive for {}", id));
                    }
                }
            }
            Ok(true)
        }
    }
}

struct Acct {
    id: AccountId,
    before: Value,
    plain_attachments: Vec<String>,
}

/// One sync of an opened device; (result, client status after).
async fn sync_once(dir: &Path, backend: Backend, id: AccountId, idx: usize, origin: &Origin) -> Result<(SyncResult, Value)> {
    let dev = Dev::open(dir, backend, id, vkit::acct::password()).await?;
    let device = Device::connect(dev, idx, origin).await?;
    let r = device.sync().await;
    let st = status_view(&device.status().await?);
    device.close().await;
    Ok((r, st))
}

async fn run_tree(hs: &[History], tree: &Tree, wd: &Path, marker: &str, tier: Tier) -> Value {
    let mut fails = Fails(vec![]);
    let mut c = Counters::default();
    let res: Result<Value> = async {
        let _ = std::fs::remove_dir_all(wd);
        std::fs::create_dir_all(wd)?;
        let scratch = wd.join("scratch");
        std::fs::create_dir_all(&scratch)?;
        let client_dir = wd.join("client");
        let server_dir = wd.join("server");
        clock::install();
        // ---- build
        let synced = tree.sync != SyncState::Never;
        let server = if synced { Some(start_server(&server_dir, false, None, None).await?) } else { None };
        let mut accts: Vec<Acct> = vec![];
        for (k, hi) in tree.accounts.iter().enumerate() {
            clock::set_device(k);
            let h = &hs[*hi];
            let m = format!("{}a{}", marker, k);
            let mut dev = Dev::create(&client_dir, Backend::Fs, &format!("upgx-{}-{}", k, h.name), true).await?;
            let mut st = St::default();
            let default = dev.account.default_folder().await.ok_or_else(|| anyhow!("no default folder"))?;
            st.folders.push((true, Some(*default.id())));
            for op in &h.ops {
                apply(&mut dev, &mut st, op, &m, &scratch).await.with_context(|| format!("apply {:?}", op))?;
                c.ops += 1;
            }
            let id = dev.account_id;
            let plain: Vec<String> = st.attachments.iter().filter(|(s, _)| st.secrets[*s].0).map(|(_, b)| fsutil::sha256_hex(b)).collect();
            if let Some(server) = &server {
                let mut origins = ServerOrigins::new(dev.target.clone(), &id);
                origins.add_server(server.origin.clone()).await?;
                origins.add_server(Origin::new("second server".to_string(), url::Url::parse("https://sync.example.com:5053/")?)).await?;
                let device = Device::connect(dev, k, &server.origin).await?;
                match device.sync().await {
                    SyncResult::Ok => {}
                    other => return Err(anyhow!("initial sync failed: {:?}", other)),
                }
                c.syncs += 1;
                device.close().await;
                if tree.sync == SyncState::SyncedThenEdited {
                    let mut dev = Dev::open(&client_dir, Backend::Fs, id, vkit::acct::password()).await?;
                    c.ops += apply_local_edits(&mut dev, &m).await? as u64;
                    dev.close().await;
                }
            } else {
                dev.close().await;
            }
            accts.push(Acct { id, before: Value::Null, plain_attachments: plain });
        }
        if tree.global_prefs {
            let target = vkit::acct::target_for(&client_dir, Backend::Fs).await?;
            let mut prefs = Preferences::new(target);
            prefs.load_global_preferences().await?;
            let g = prefs.global_preferences();
            let mut g = g.lock().await;
            for (k, v) in pref_values(&format!("{}global", marker)) {
                g.insert(k, v).await?;
            }
        }
        // server state before anything is upgraded
        let mut server_before: Vec<Value> = vec![];
        if let Some(server) = server {
            for a in &accts {
                server_before.push(observe_server(&server, &a.id).await?);
            }
            server.stop().await;
        }
        // ---- observe the file-system accounts
        for a in accts.iter_mut() {
            let mut dev = Dev::open(&client_dir, Backend::Fs, a.id, vkit::acct::password()).await?;
            a.before = observe_client(&mut dev, false).await?;
            dev.close().await;
            if a.before["files"].as_object().map(|m| m.len()).unwrap_or(0) != a.plain_attachments.len() {
                return Err(anyhow!("source account lists {} external files, {} expected", a.before["files"].as_object().map(|m| m.len()).unwrap_or(0), a.plain_attachments.len()));
            }
        }
        let global_before = observe_global_prefs(&client_dir, Backend::Fs).await?;
        let client_fs_copy = wd.join("client-fs-copy");
        let server_up = wd.join("server-up");
        if synced {
            fsutil::copy_dir(&client_dir, &client_fs_copy)?;
            fsutil::copy_dir(&server_dir, &server_up)?;
        }
        let ids: BTreeSet<String> = accts.iter().map(|a| a.id.to_string()).collect();

        // ---- client tree: dry run, real upgrade
        c.client_trees += 1;
        let upgraded = dry_then_real(&client_dir, false, tree.keep_and_backup, &ids, "client", &mut fails, &mut c).await?;
        let mut client_ok = upgraded;
        // self-check of the oracle (never set by ./check): tamper with the
        // upgraded database and watch the comparison fail
        if let (true, Ok(sql)) = (upgraded, std::env::var("UPGX_SABOTAGE_SQL")) {
            let conn = async_sqlite::rusqlite::Connection::open(Paths::new_client(&client_dir).database_file())?;
            let n = conn.execute_batch(&sql).map(|_| conn.changes());
            eprintln!("upgx: sabotage {:?} -> {:?}", sql, n);
        }
        if upgraded {
            for a in &accts {
                c.accounts += 1;
                let mut dev = match Dev::open(&client_dir, Backend::Db, a.id, vkit::acct::password()).await {
                    Ok(d) => d,
                    Err(e) => {
                        fails.push(format!("upgrade:open_after_upgrade_failed:{}", norm_msg(&e.to_string())), format!("the upgraded account does not sign in on the database backend: {}", e));
                        client_ok = false;
                        continue;
                    }
                };
                match observe_client(&mut dev, true).await {
                    Err(e) => {
                        fails.push(format!("upgrade:observe_after_upgrade_failed:{}", norm_msg(&e.to_string())), format!("the upgraded account cannot be read: {:#}", e));
                        client_ok = false;
                    }
                    Ok(after) => {
                        if let Ok(p) = std::env::var("UPGX_DUMP") {
                            let _ = std::fs::write(format!("{}-{}.json", p, a.id), serde_json::to_vec_pretty(&json!({"before": a.before, "after": after})).unwrap());
                        }
                        compare_client(&a.before, &after, &mut fails, &mut c);
                        // decrypted attachments == the plain bytes that were put in
                        let mut got: Vec<String> = after["referenced_files"].as_object().map(|m| m.values().map(|v| v.as_str().unwrap_or("").to_string()).collect()).unwrap_or_default();
                        got.sort();
                        let mut want = a.plain_attachments.clone();
                        want.sort();
                        c.attachments_decrypted += got.len() as u64;
                        if got != want {
                            let unreadable = got.iter().any(|g| g.starts_with("<unreadable"));
                            fails.push(format!("upgrade:attachment_{}", if unreadable { "unreadable" } else { "plain_differs" }), format!("attachments decrypt to {:?} after the upgrade, the plain files had sha256 {:?}", got, want));
                        }
                    }
                }
                dev.close().await;
            }
            match observe_global_prefs(&client_dir, Backend::Db).await {
                Ok(g) => {
                    if g != global_before {
                        fails.push("upgrade:preferences_differ:global".into(), format!("global preferences differ at {}", json_diff_path(&global_before, &g, "")));
                    }
                }
                Err(e) => fails.push("upgrade:preferences_differ:global_unreadable".into(), format!("global preferences cannot be read after the upgrade: {}", e)),
            }
        }

        // ---- synced trees: the upgraded client against the server that
        // holds the pre-upgrade state
        if synced && client_ok {
            let server = start_server(&server_dir, false, None, None).await?;
            for (k, a) in accts.iter().enumerate() {
                clock::set_device(k);
                c.post_upgrade_syncs += 1;
                let srv_before = status_view(&server.sync_status(&a.id).await?);
                match sync_once(&client_dir, Backend::Db, a.id, k, &server.origin).await {
                    Err(e) => fails.push(format!("upgrade:sync_after_upgrade_error:{}:db_client_fs_server", norm_msg(&e.to_string())), format!("cannot connect the upgraded device: {:#}", e)),
                    Ok((SyncResult::Conflict(e), _)) => fails.push("upgrade:sync_after_upgrade_conflict:db_client_fs_server".into(), format!("the upgraded device conflicts with the server that holds the pre-upgrade state: {}", e)),
                    Ok((SyncResult::Error(e), _)) => fails.push(format!("upgrade:sync_after_upgrade_error:{}:db_client_fs_server", norm_msg(&e)), format!("sync of the upgraded device failed: {}", e)),
                    Ok((SyncResult::Ok, st)) => {
                        let srv_after = status_view(&server.sync_status(&a.id).await?);
                        if st != a.before["status"] {
                            fails.push("upgrade:sync_after_upgrade_changed_state:client:db_client_fs_server".into(), format!("the sync changed the upgraded device: {}", json_diff_path(&a.before["status"], &st, "")));
                        }
                        if tree.sync == SyncState::Synced && srv_after != srv_before {
                            fails.push("upgrade:sync_after_upgrade_changed_state:server:db_client_fs_server".into(), format!("the sync changed the server although nothing was edited: {}", json_diff_path(&srv_before, &srv_after, "")));
                        }
                        if tree.sync == SyncState::SyncedThenEdited {
                            // the local edits must have arrived: every log the device syncs is equal now
                            let after_srv = observe_server(&server, &a.id).await?;
                            for k in ["identity", "account", "device", "files"] {
                                if after_srv["status"][k] != st[k] {
                                    fails.push(format!("upgrade:sync_after_upgrade_not_converged:{}_log", k), format!("after pushing the local edits the {} log differs: device {} server {}", k, st[k], after_srv["status"][k]));
                                }
                            }
                        }
                    }
                }
            }
            server.stop().await;
        }

        // ---- server tree
        if synced && tree.sync == SyncState::Synced {
            c.server_trees += 1;
            let upgraded = dry_then_real(&server_up, true, tree.keep_and_backup, &ids, "server", &mut fails, &mut c).await?;
            if upgraded {
                match start_server(&server_up, true, None, None).await {
                    Err(e) => fails.push(format!("upgrade:server_start_after_upgrade_failed:{}", norm_msg(&e.to_string())), format!("the server does not start on the upgraded tree: {:#}", e)),
                    Ok(server) => {
                        for (k, a) in accts.iter().enumerate() {
                            clock::set_device(k);
                            c.accounts += 1;
                            match observe_server(&server, &a.id).await {
                                Err(e) => fails.push(format!("upgrade:observe_after_upgrade_failed:server:{}", norm_msg(&e.to_string())), format!("the upgraded server account cannot be read: {:#}", e)),
                                Ok(after) => {
                                    let before = &server_before[k];
                                    compare_logs(before, &after, "server", &mut fails, &mut c);
                                    if before["vaults"] != after["vaults"] {
                                        fails.push("upgrade:server_vaults_differ".into(), format!("folder vaults served by the server differ at {}", json_diff_path(&before["vaults"], &after["vaults"], "")));
                                    }
                                    if before["login_vault"] != after["login_vault"] {
                                        fails.push("upgrade:server_login_vault_differs".into(), format!("the login vault differs at {}", json_diff_path(&before["login_vault"], &after["login_vault"], "")));
                                    }
                                    if before["device_keys"] != after["device_keys"] {
                                        fails.push("upgrade:trusted_devices_differ:server".into(), format!("device keys {} became {}", before["device_keys"], after["device_keys"]));
                                    }
                                    // both kinds of client against the upgraded server
                                    let mut pairings = vec![("fs_client_db_server", client_fs_copy.clone(), Backend::Fs)];
                                    if client_ok {
                                        pairings.push(("db_client_db_server", client_dir.clone(), Backend::Db));
                                    }
                                    for (name, dir, backend) in pairings {
                                        c.post_upgrade_syncs += 1;
                                        let srv_before = status_view(&server.sync_status(&a.id).await?);
                                        match sync_once(&dir, backend, a.id, k, &server.origin).await {
                                            Err(e) => fails.push(format!("upgrade:sync_after_upgrade_error:{}:{}", norm_msg(&e.to_string()), name), format!("cannot connect a device to the upgraded server: {:#}", e)),
                                            Ok((SyncResult::Conflict(e), _)) => fails.push(format!("upgrade:sync_after_upgrade_conflict:{}", name), format!("a device conflicts with the upgraded server: {}", e)),
                                            Ok((SyncResult::Error(e), _)) => fails.push(format!("upgrade:sync_after_upgrade_error:{}:{}", norm_msg(&e), name), format!("sync against the upgraded server failed: {}", e)),
                                            Ok((SyncResult::Ok, st)) => {
                                                let srv_after = status_view(&server.sync_status(&a.id).await?);
                                                if st != a.before["status"] {
                                                    fails.push(format!("upgrade:sync_after_upgrade_changed_state:client:{}", name), format!("the sync changed the device: {}", json_diff_path(&a.before["status"], &st, "")));
                                                }
                                                if srv_after != srv_before {
                                                    fails.push(format!("upgrade:sync_after_upgrade_changed_state:server:{}", name), format!("the sync changed the upgraded server: {}", json_diff_path(&srv_before, &srv_after, "")));
                                                }
                                            }
                                        }
                                    }
                                }
                            }
                        }
                        server.stop().await;
                    }
                }
            }
        }
        let _ = tier;
        Ok(json!({"complete": true}))
    }
    .await;
    let mut v = match res {
        Ok(v) => v,
        Err(e) => json!({"error": format!("{:#}", e)}),
    };
    v["fails"] = json!(fails.0);
    v["counters"] = serde_json::to_value(&c).unwrap();
    v
}

// ------------------------------------------------------------------ main

fn rt() -> tokio::runtime::Runtime {
    tokio::runtime::Builder::new_multi_thread().worker_threads(3).enable_all().build().unwrap()
}

fn describe(hs: &[History], t: &Tree) -> Value {
    json!({
        "accounts": t.accounts.iter().map(|i| json!({"history": hs[*i].name, "ops": hs[*i].ops})).collect::<Vec<_>>(),
        "sync_state": t.sync,
        "global_prefs": t.global_prefs,
        "options": if t.keep_and_backup { "keep_stale_files + backup_directory" } else { "defaults (delete stale files)" },
    })
}

fn main() {
    let args = Args::parse();
    let tier = args.tier;
    let hs = histories(tier);
    let ts = trees(tier, &hs);
    let marker = format!("m{}", args.seed);

    if pool::worker_stage().is_some() {
        let wd = fsutil::WorkDir::new("upgx-w");
        let rt = rt();
        pool::worker_loop(|idx| rt.block_on(run_tree(&hs, &ts[idx], &wd.path().join("t"), &marker, tier)));
    }

    if let Some(path) = &args.replay {
        let v: Value = serde_json::from_slice(&std::fs::read(path).expect("read replay")).expect("json");
        let want = v["signature"].as_str().unwrap_or("").to_string();
        let tree: Tree = serde_json::from_value(v["witness"]["tree"].clone()).expect("tree");
        let hist: Vec<History> = serde_json::from_value(v["witness"]["histories"].clone()).expect("histories");
        let rt = rt();
        let mut obs = vec![];
        for round in 0..2 {
            let wd = fsutil::WorkDir::new(&format!("upgx-r{}", round));
            let r = rt.block_on(run_tree(&hist, &tree, &wd.path().join("t"), &marker, tier));
            let mut sigs: Vec<String> = r["fails"].as_array().map(|a| a.iter().map(|f| f["sig"].as_str().unwrap_or("").to_string()).collect()).unwrap_or_default();
            sigs.sort();
            println!("run {}: error={} fails={:?}", round, r["error"], sigs);
            obs.push(sigs);
        }
        if obs[0] != obs[1] {
            eprintln!("MACHINERY-ERROR replay is not deterministic");
            std::process::exit(2);
        }
        if obs[0].contains(&want) {
            println!("VIOLATION property=C19 replay={}", path.display());
            std::process::exit(1);
        }
        println!("OK replay: signature {} not observed", want);
        std::process::exit(0);
    }

    let mut run = Run::new("C19", "model_checking", &args);
    let mut opts = PoolOpts::default();
    opts.item_timeout = std::time::Duration::from_secs(tier.pick(120, 600));
    let res = pool::run_stage("trees", ts.len(), &opts);
    let mut total = Counters::default();
    let mut samples = vec![];
    let mut complete = 0u64;
    for (i, r) in res.into_iter().enumerate() {
        match r {
            pool::ItemResult::Crashed(w) => run.machinery(format!("tree {}: {}", describe(&hs, &ts[i]), w)),
            pool::ItemResult::Done(v) => {
                if let Some(e) = v.get("error").and_then(|e| e.as_str()) {
                    run.machinery(format!("tree {} ({:?} {:?}): {}", i, ts[i].accounts, ts[i].sync, e));
                    continue;
                }
                complete += 1;
                if let Ok(c) = serde_json::from_value::<Counters>(v["counters"].clone()) {
                    total.accounts += c.accounts;
                    total.logs += c.logs;
                    total.records += c.records;
                    total.folders += c.folders;
                    total.secrets += c.secrets;
                    total.attachments += c.attachments;
                    total.attachments_decrypted += c.attachments_decrypted;
                    total.listing_order_changed += c.listing_order_changed;
                    total.ops += c.ops;
                    total.syncs += c.syncs;
                    total.dry_runs += c.dry_runs;
                    total.upgrades += c.upgrades;
                    total.client_trees += c.client_trees;
                    total.server_trees += c.server_trees;
                    total.post_upgrade_syncs += c.post_upgrade_syncs;
                }
                let used: Vec<History> = hs.clone();
                for f in v["fails"].as_array().cloned().unwrap_or_default() {
                    run.fail(f["sig"].as_str().unwrap(), f["what"].as_str().unwrap(), json!({"engine": "upgx", "tree": ts[i], "histories": used, "described": describe(&hs, &ts[i])}));
                }
                if i % 3 == 0 {
                    push_sample(&mut samples, json!({"source_tree": describe(&hs, &ts[i]), "failed_clauses": v["fails"].as_array().map(|a| a.iter().map(|f| f["sig"].clone()).collect::<Vec<_>>())}), 5);
                }
            }
        }
    }
    let source_trees = total.client_trees + total.server_trees;
    if source_trees < 6 {
        run.machinery(format!("only {} source trees", source_trees));
    }
    if run.failures.is_empty() && (total.attachments_decrypted == 0 || total.post_upgrade_syncs == 0 || total.records == 0) {
        run.machinery("vacuous: no attachment decrypted, no post-upgrade sync or no record compared");
    }
    run.assume("second half of C19 (the same history executed directly on either backend gives the same observable account) is decided by the hist engine's lock-step differential over fs and sqlite (C01/C06/C12 runs) and is not repeated here");
    run.assume("the logs/ directory is not part of the source tree for the dry-run comparison");
    run.assume("secret listing order inside a folder is reported (listing_order_changed), not required");
    let mut cov = Map::new();
    cov.insert("states".into(), json!(source_trees));
    cov.insert("transitions".into(), json!(total.ops + total.syncs + total.dry_runs + total.upgrades + total.post_upgrade_syncs));
    cov.insert("traces_validated_against_impl".into(), json!(total.upgrades));
    cov.insert("samples".into(), json!(samples));
    cov.insert("source_trees".into(), json!({"client_layout": total.client_trees, "server_layout": total.server_trees}));
    cov.insert("tree_items_completed".into(), json!(complete));
    cov.insert("histories".into(), json!(hs.iter().map(|h| h.name.clone()).collect::<Vec<_>>()));
    cov.insert("counters".into(), serde_json::to_value(&total).unwrap());
    cov.insert("evaluations".into(), json!(total.upgrades));
    cov.insert("distinct_nontrivial".into(), json!(source_trees));
    cov.insert("exhaustive".into(), json!(true));
    cov.insert(
        "rule".into(),
        json!("histories: 4 fixed (quick) + 10 named + base ++ every enabled suffix of length <= 2 over 14 operations (thorough). source trees = every history never synced + two 2-account data dirs + a subset (quick) / every (thorough) history synced to a real server + one 2-account synced dir + synced-then-edited-locally trees; every synced (not edited) tree also contributes its server directory as a server-layout tree. Each tree: dry run (source digest unchanged, no db file) then real upgrade (alternating default options and keep_stale_files+backup_directory); oracle per account: sync_status, record streams (commit, timestamp, bytes), decrypted view, trusted devices, account + global preferences, server origins, blob set and bytes, decrypted attachments; syncs: upgraded client x old server, old client x upgraded server, upgraded client x upgraded server"),
    );
    std::process::exit(run.finish(cov));
}

#[allow(dead_code)]
fn unused(_: PathBuf, _: &LocalAccount, _: &BackendTarget) {}
