//! C13 — a crash at any point leaves an account that opens and is
//! consistent (K3: fault enumeration on the real write path).
//!
//! Stage 1 (per operation): prepare a pre-state with real API calls, run
//! the crash driver under strace, let py/crashimg.py materialise one
//! image per file-system effect and per torn write prefix (self-validated:
//! full replay == real after-state).
//! Stage 2 (per image): open through the normal path and judge.
use anyhow::{anyhow, Result};
use serde::{Deserialize, Serialize};
use serde_json::{json, Map, Value};
use sos_account::Account;
use sos_client_storage::{AccessOptions, NewFolderOptions};
use sos_core::{AccountId, VaultId};
use sos_sync::StorageEventLogs;
use std::collections::BTreeMap;
use std::path::{Path, PathBuf};
use vkit::acct::{folder_key_sorted, vault_view_cached, Backend, Dev, KeyCache};
use vkit::pool::{self, PoolOpts};
use vkit::run::{push_sample, Args, Run, Tier};
use vkit::world::all_logs;
use vkit::{clock, fsutil, gen};

const OPS: [&str; 14] = [
    "create_secret",
    "update_secret",
    "delete_secret",
    "move_secret",
    "rename_folder",
    "set_flags",
    "set_description",
    "create_folder",
    "delete_folder",
    "compact_folder",
    "change_folder_password",
    "sync_pull",
    "sync_merge",
    "force_merge",
];

#[derive(Clone, Serialize, Deserialize)]
struct CaseInfo {
    op: String,
    #[serde(default)]
    sqlite: bool,
    account_id: String,
    ids: BTreeMap<String, String>,
    before: BTreeMap<String, Vec<String>>,
    after: BTreeMap<String, Vec<String>>,
    images: Vec<Value>,
    effects: Vec<String>,
    error: Option<String>,
}

async fn logs_of(dir: &Path, account_id: AccountId, backend: Backend) -> Result<BTreeMap<String, Vec<String>>> {
    let dev = Dev::open(dir, backend, account_id, vkit::acct::password()).await?;
    let folders: Vec<VaultId> = dev.account.list_folders().await?.iter().map(|s| *s.id()).collect();
    let mut out = BTreeMap::new();
    for (n, recs) in all_logs(&dev.account, &folders).await? {
        out.insert(n, recs.iter().map(|r| r.commit().to_string()).collect());
    }
    dev.close().await;
    Ok(out)
}

async fn stage1(op: &str, sqlite: bool, shared: &Path, stride: usize) -> CaseInfo {
    let backend = if sqlite { Backend::Db } else { Backend::Fs };
    let mut info = CaseInfo { op: op.to_string(), sqlite, account_id: String::new(), ids: BTreeMap::new(), before: BTreeMap::new(), after: BTreeMap::new(), images: vec![], effects: vec![], error: None };
    let r: Result<()> = async {
        let base = shared.join(format!("case-{}-{}", op, backend.name()));
        let pre = base.join("pre");
        clock::install();
        if op.starts_with("sync_") {
            if sqlite {
                return Err(anyhow!("SKIP: sync operations are driven on the file-system backend only"));
            }
            // world: server + two devices on a common prefix; device 0 adds
            // an event and pushes it; for sync_merge device 1 also has an
            // offline event (the interrupted sync then rewinds and replays)
            let t = vkit::world::make_template(&base.join("tpl"), Backend::Fs, false, 2).await?;
            let account_id: AccountId = t.account_id.parse().unwrap();
            let tdir = Path::new(&t.dir);
            let server = vkit::world::start_server(&tdir.join("server"), false, None, None).await?;
            let d0 = Dev::open(&tdir.join("d0"), Backend::Fs, account_id, vkit::acct::password()).await?;
            let dev0 = vkit::world::Device::connect(d0, 0, &server.origin).await?;
            {
                clock::set_device(0);
                let mut a = dev0.account.lock().await;
                for k in 0..2 {
                    let (m, s) = gen::secret("note", 0, &format!("remote{}", k));
                    a.create_secret(m, s, Default::default()).await?;
                }
            }
            if dev0.sync().await != vkit::world::SyncResult::Ok {
                return Err(anyhow!("prepare: device 0 sync failed"));
            }
            dev0.close().await;
            server.stop().await;
            if op == "sync_merge" {
                clock::set_device(1);
                clock::configure(1, 7_200_000_000_000, 1_000_001);
                let mut d1 = Dev::open(&tdir.join("d1"), Backend::Fs, account_id, vkit::acct::password()).await?;
                for k in 0..2 {
                    let (m, s) = gen::secret("login", 0, &format!("local{}", k));
                    d1.account.create_secret(m, s, Default::default()).await?;
                }
                d1.close().await;
            }
            fsutil::copy_dir(&tdir.join("d1"), &pre)?;
            let mut ids = BTreeMap::new();
            ids.insert("default".to_string(), t.default_folder.clone());
            ids.insert("f1".to_string(), t.f1.clone());
            ids.insert("s0".to_string(), t.s0.clone());
            ids.insert("server_dir".to_string(), tdir.join("server").to_string_lossy().to_string());
            info.account_id = account_id.to_string();
            info.ids = ids.clone();
            info.before = logs_of(&pre, account_id, backend).await?;
            let pristine = base.join("pristine");
            fsutil::copy_dir(&pre, &pristine)?;
            let live = base.join("live");
            fsutil::copy_dir(&pristine, &live)?;
            let ids_file = base.join("ids.json");
            std::fs::write(&ids_file, serde_json::to_vec(&ids)?)?;
            let drv = std::env::current_exe()?.with_file_name("crashdrv");
            let imgs = base.join("images");
            let trace = base.join("trace.log");
            let st = std::process::Command::new("strace")
                .args(["-f", "-y", "-xx", "-s", "16777216", "-o"])
                .arg(&trace)
                .args(["-e", "trace=openat,creat,write,pwrite64,writev,pwritev,lseek,ftruncate,truncate,rename,renameat,renameat2,unlink,unlinkat,mkdir,mkdirat,rmdir,access,close,dup,dup2,dup3,fcntl,copy_file_range,sendfile"])
                .arg(&drv).arg(&live).arg("fs").arg(account_id.to_string()).arg(op).arg(&ids_file)
                .env_remove("VKIT_WORKER")
                .stdout(std::process::Stdio::null())
                .status()?;
            if !st.success() {
                return Err(anyhow!("driver under strace exited with {:?}", st));
            }
            let st = std::process::Command::new("python3")
                .arg("/verif/py/crashimg.py").arg(&trace).arg(&pristine).arg(&imgs).arg(&live)
                .args(["--stride", &stride.to_string()])
                .status()?;
            if !st.success() {
                return Err(anyhow!("crashimg.py failed ({:?}): replay of the syscall log does not reproduce the real after-state", st.code()));
            }
            let man: Value = serde_json::from_slice(&std::fs::read(imgs.join("manifest.json"))?)?;
            info.images = man["images"].as_array().cloned().unwrap_or_default();
            info.effects = man["effects"].as_array().map(|a| a.iter().map(|x| x.as_str().unwrap_or("").to_string()).collect()).unwrap_or_default();
            let _ = std::fs::remove_file(&trace);
            info.after = logs_of(&live, account_id, backend).await?;
            return Ok(());
        }
        let mut dev = Dev::create(&pre, backend, "crash-account", true).await?;
        let default = dev.account.default_folder().await.unwrap();
        let f1 = dev.account.create_folder(NewFolderOptions::new("folder-one".into())).await?.folder;
        let mut ids = BTreeMap::new();
        for (k, (kind, f)) in [("s0", ("note", *default.id())), ("s2", ("login", *default.id())), ("s1", ("note", *f1.id()))] {
            let (m, s) = gen::secret(kind, 0, k);
            let id = dev.account.create_secret(m, s, AccessOptions { folder: Some(f), ..Default::default() }).await?.id;
            ids.insert(k.to_string(), id.to_string());
        }
        ids.insert("default".into(), default.id().to_string());
        ids.insert("f1".into(), f1.id().to_string());
        if let Some(a) = dev.account.archive_folder().await {
            ids.insert("archive".into(), a.id().to_string());
        }
        let account_id = dev.account_id;
        dev.close().await;
        if op == "force_merge" {
            // forced overwrite of the default folder with the log of another
            // device (a copy of the account) on which two of its secrets were
            // deleted and one updated: the new vault is shorter than the old
            use sos_core::events::EventLog as _;
            use sos_sync::StorageEventLogs;
            let other = base.join("other-device");
            fsutil::copy_dir(&pre, &other)?;
            let mut d2 = Dev::open(&other, backend, account_id, vkit::acct::password()).await?;
            let in_default = || AccessOptions { folder: Some(*default.id()), ..Default::default() };
            let s0: sos_core::SecretId = ids["s0"].parse().unwrap();
            let s2: sos_core::SecretId = ids["s2"].parse().unwrap();
            let (m, s) = gen::secret("note", 1, "force-merged");
            d2.account.update_secret(&s0, m, Some(s), in_default()).await?;
            d2.account.delete_secret(&s2, in_default()).await?;
            d2.account.delete_secret(&s0, in_default()).await?;
            let diff = {
                let log = d2.account.folder_log(default.id()).await?;
                let log = log.read().await;
                log.diff_unchecked().await?
            };
            d2.close().await;
            let mut recs = vec![];
            for r in diff.patch.iter() {
                recs.push(hex::encode(sos_core::encode(r).await?));
            }
            let file = base.join("diff.json");
            std::fs::write(&file, serde_json::to_vec(&json!({"records": recs, "checkpoint": hex::encode(sos_core::encode(&diff.checkpoint).await?)}))?)?;
            ids.insert("diff_file".into(), file.to_string_lossy().to_string());
        }
        info.account_id = account_id.to_string();
        info.ids = ids.clone();
        info.before = logs_of(&pre, account_id, backend).await?;
        // logs_of signs in on `pre`: take the pristine copy afterwards so
        // that pre == what the driver starts from
        let pristine = base.join("pristine");
        fsutil::copy_dir(&pre, &pristine)?;
        let live = base.join("live");
        fsutil::copy_dir(&pristine, &live)?;
        let ids_file = base.join("ids.json");
        std::fs::write(&ids_file, serde_json::to_vec(&ids)?)?;
        let drv = std::env::current_exe()?.with_file_name("crashdrv");
        let imgs = base.join("images");
        if sqlite {
            // SQLite: the unit of atomicity the repository controls is the
            // transaction; SQLite's own recovery is trusted. The driver
            // exits without closing, every WAL prefix (each frame boundary
            // and one byte either side) is a crash image.
            let st = std::process::Command::new(&drv)
                .arg(&live).arg("sqlite").arg(account_id.to_string()).arg(op).arg(&ids_file)
                .env_remove("VKIT_WORKER")
                .stdout(std::process::Stdio::null())
                .status()?;
            if !st.success() {
                return Err(anyhow!("driver exited with {:?}", st));
            }
            let db_rel = Path::new("accounts.db");
            let find = |root: &Path| -> Option<PathBuf> {
                fsutil::walk_files(root).into_iter().find(|p| p.file_name().map(|n| n == db_rel.as_os_str()).unwrap_or(false))
            };
            let live_db = find(&live).ok_or_else(|| anyhow!("no database file"))?;
            let rel = live_db.strip_prefix(&live)?.to_path_buf();
            let wal_path = PathBuf::from(format!("{}-wal", live_db.display()));
            let wal = std::fs::read(&wal_path).unwrap_or_default();
            let dbb = std::fs::read(&live_db)?;
            let pristine_db = std::fs::read(pristine.join(&rel))?;
            if dbb != pristine_db {
                return Err(anyhow!("the database file changed during the operation (a checkpoint ran): WAL prefixes are not the whole story"));
            }
            let ps = {
                let v = u16::from_be_bytes([dbb[16], dbb[17]]) as usize;
                if v == 1 { 65536 } else { v }
            };
            let frame = 24 + ps;
            let mut cuts: Vec<usize> = vec![0];
            let mut off = 32;
            let mut k = 0;
            while off <= wal.len() {
                for c in [off.saturating_sub(1), off, off + 1] {
                    if c <= wal.len() {
                        cuts.push(c);
                    }
                }
                off += frame;
                k += 1;
            }
            cuts.push(wal.len());
            cuts.sort();
            cuts.dedup();
            std::fs::create_dir_all(&imgs)?;
            let mut images = vec![];
            for (i, c) in cuts.iter().enumerate() {
                let d = imgs.join(format!("img-{:03}", i));
                fsutil::copy_dir(&pristine, &d)?;
                let wp = PathBuf::from(format!("{}-wal", d.join(&rel).display()));
                std::fs::write(&wp, &wal[..*c])?;
                let _ = std::fs::remove_file(PathBuf::from(format!("{}-shm", d.join(&rel).display())));
                let frames = if *c >= 32 { (*c - 32) / frame } else { 0 };
                let torn = *c >= 32 && (*c - 32) % frame != 0;
                images.push(json!({"dir": d.to_string_lossy(), "effect_index": if *c == 0 { 0 } else { i }, "effect": format!("wal({} frames of {})", frames, k.max(1) - 1), "torn_bytes": if torn { Some((*c - 32) % frame) } else { None }}));
            }
            info.images = images;
            info.effects = vec![format!("{} WAL frames", (wal.len().saturating_sub(32)) / frame)];
            // the after state: let SQLite recover the full WAL
        } else {
        let trace = base.join("trace.log");
        let st = std::process::Command::new("strace")
            .args(["-f", "-y", "-xx", "-s", "16777216", "-o"])
            .arg(&trace)
            .args(["-e", "trace=openat,creat,write,pwrite64,writev,pwritev,lseek,ftruncate,truncate,rename,renameat,renameat2,unlink,unlinkat,mkdir,mkdirat,rmdir,access,close,dup,dup2,dup3,fcntl,copy_file_range,sendfile"])
            .arg(&drv)
            .arg(&live)
            .arg("fs")
            .arg(account_id.to_string())
            .arg(op)
            .arg(&ids_file)
            .env_remove("VKIT_WORKER")
            .stdout(std::process::Stdio::null())
            .status()?;
        if !st.success() {
            return Err(anyhow!("driver under strace exited with {:?}", st));
        }
        let py = PathBuf::from("/verif/py/crashimg.py");
        let st = std::process::Command::new("python3")
            .arg(&py)
            .arg(&trace)
            .arg(&pristine)
            .arg(&imgs)
            .arg(&live)
            .args(["--stride", &stride.to_string()])
            .status()?;
        if !st.success() {
            return Err(anyhow!("crashimg.py failed ({:?}): replay of the syscall log does not reproduce the real after-state", st.code()));
        }
        let man: Value = serde_json::from_slice(&std::fs::read(imgs.join("manifest.json"))?)?;
        info.images = man["images"].as_array().cloned().unwrap_or_default();
        info.effects = man["effects"].as_array().map(|a| a.iter().map(|x| x.as_str().unwrap_or("").to_string()).collect()).unwrap_or_default();
        let _ = std::fs::remove_file(&trace);
        }
        info.after = logs_of(&live, account_id, backend).await?;
        Ok(())
    }
    .await;
    if let Err(e) = r {
        info.error = Some(e.to_string());
    }
    info
}

/// Replace identifiers in an effect label by role names.
fn normalise(label: &str, case: &CaseInfo) -> String {
    let mut s = label.to_string();
    for (k, v) in &case.ids {
        s = s.replace(v, k);
    }
    s = s.replace(&case.account_id, "ACCOUNT");
    // any remaining uuid (a new folder / new file)
    let re_uuid = |t: &str| -> String {
        let mut out = String::new();
        let b: Vec<char> = t.chars().collect();
        let mut i = 0;
        while i < b.len() {
            if i + 36 <= b.len() {
                let cand: String = b[i..i + 36].iter().collect();
                if cand.chars().enumerate().all(|(j, c)| if [8, 13, 18, 23].contains(&j) { c == '-' } else { c.is_ascii_hexdigit() }) {
                    out.push_str("NEW");
                    i += 36;
                    continue;
                }
            }
            out.push(b[i]);
            i += 1;
        }
        out
    };
    let s = re_uuid(&s);
    // a 64-digit hex run (e.g. the commit root in a snapshot file name)
    let s = {
        let b: Vec<char> = s.chars().collect();
        let mut out = String::new();
        let mut i = 0;
        while i < b.len() {
            if i + 64 <= b.len() && b[i..i + 64].iter().all(|c| c.is_ascii_hexdigit()) {
                out.push_str("HASH");
                i += 64;
                continue;
            }
            out.push(b[i]);
            i += 1;
        }
        out
    };
    // drop byte counts
    let mut out = String::new();
    let mut skip = false;
    for part in s.split(',') {
        if part.trim_end_matches(')').trim().ends_with("bytes") || part.trim().chars().all(|c| c.is_ascii_digit() || c == ')') {
            skip = true;
            continue;
        }
        if !out.is_empty() {
            out.push(',');
        }
        out.push_str(part);
    }
    if skip && !out.ends_with(')') {
        out.push(')');
    }
    out
}

async fn judge(case: &CaseInfo, img: &Value) -> Vec<(String, String)> {
    let mut fails = vec![];
    let dir = PathBuf::from(img["dir"].as_str().unwrap());
    let label = normalise(img["effect"].as_str().unwrap_or(""), case);
    let torn = !img["torn_bytes"].is_null();
    let point = if case.sqlite {
        // WAL prefixes: the position is not part of the signature
        if torn { "sqlite:torn_wal_frame".to_string() } else { "sqlite:wal_prefix".to_string() }
    } else if img["effect_index"].as_u64() == Some(0) {
        "before_first_effect".to_string()
    } else if torn {
        format!("torn:{}", label)
    } else {
        format!("after:{}", label)
    };
    let account_id: AccountId = case.account_id.parse().unwrap();
    clock::install();
    let backend = if case.sqlite { Backend::Db } else { Backend::Fs };
    let mut dev = match Dev::open(&dir, backend, account_id, vkit::acct::password()).await {
        Ok(d) => d,
        Err(e) => {
            let msg: String = e.to_string().chars().filter(|c| !c.is_ascii_digit()).take(60).collect();
            fails.push((format!("{}:does_not_open:{}", case.op, point), format!("the account cannot be opened from the crash image ({})", msg)));
            return fails;
        }
    };
    let folders: Vec<VaultId> = match dev.account.list_folders().await {
        Ok(f) => f.iter().map(|s| *s.id()).collect(),
        Err(_) => vec![],
    };
    match all_logs(&dev.account, &folders).await {
        Ok(logs) => {
            for (n, recs) in logs {
                let got: Vec<String> = recs.iter().map(|r| r.commit().to_string()).collect();
                let b = case.before.get(&n);
                let a = case.after.get(&n);
                let ok = Some(&got) == b || Some(&got) == a;
                if !ok {
                    let kind = n.split(':').next().unwrap_or("");
                    let shape = match (b, a) {
                        (Some(b), _) if got.len() < b.len() => "shorter_than_before",
                        (_, Some(a)) if got.len() > a.len() => "longer_than_after",
                        _ => "neither_before_nor_after",
                    };
                    fails.push((format!("{}:log_{}:{}:{}", case.op, shape, kind, point), format!("event log {} equals neither its state before nor after the interrupted operation", kind)));
                }
            }
        }
        Err(e) => {
            let msg: String = e.to_string().chars().filter(|c| !c.is_ascii_digit()).take(60).collect();
            fails.push((format!("{}:logs_unreadable:{}", case.op, point), format!("event logs cannot be read after opening the crash image ({})", msg)));
        }
    }
    // C02 relation on every folder served after the normal open path
    for id in &folders {
        let r: Result<Option<String>> = async {
            use sos_login::DelegatedAccess;
            let key = dev.account.find_folder_password(id).await?.ok_or_else(|| anyhow!("no key"))?;
            let log = dev.account.folder_log(id).await?;
            let log = log.read().await;
            let reduced = sos_reducers::FolderReducer::new().reduce(&*log).await?.build(true).await?;
            let mut kc = KeyCache::default();
            let rv = vault_view_cached(&reduced, &key, &mut kc).await?;
            let folder = dev.account.folder(id).await?;
            let served = {
                let ap = folder.access_point();
                let ap = ap.lock().await;
                use sos_vault::SecretAccess;
                ap.vault().clone()
            };
            let sv = vault_view_cached(&served, &key, &mut kc).await?;
            let (r, s) = (folder_key_sorted(&rv), folder_key_sorted(&sv));
            if r != s {
                let what = if r["secrets"] != s["secrets"] {
                    let rl = r["secrets"].as_array().unwrap().len();
                    let sl = s["secrets"].as_array().unwrap().len();
                    if sl > rl { "served_has_secret_the_log_lacks" } else if sl < rl { "served_lacks_secret_of_the_log" } else { "secret_content" }
                } else if r["name"] != s["name"] { "name" } else if r["flags"] != s["flags"] { "flags" } else { "description" };
                return Ok(Some(what.to_string()));
            }
            Ok(None)
        }
        .await;
        match r {
            Ok(Some(what)) => fails.push((format!("{}:served_folder_differs_from_log({}):{}", case.op, what, point), "the folder served after the normal open path differs from the replay of its log".to_string())),
            Ok(None) => {}
            Err(e) => {
                let msg: String = e.to_string().chars().filter(|c| !c.is_ascii_digit()).take(50).collect();
                fails.push((format!("{}:folder_unreadable:{}", case.op, point), format!("a folder cannot be replayed / read after opening the crash image ({})", msg)));
            }
        }
    }
    let _ = dev.account.sign_out().await;
    fails
}

fn rt() -> tokio::runtime::Runtime {
    tokio::runtime::Builder::new_multi_thread().worker_threads(2).enable_all().build().unwrap()
}

fn main() {
    let args = Args::parse();
    let stride = match args.tier {
        Tier::Quick => 24,
        Tier::Thorough => 1,
    };
    if let Some(stage) = pool::worker_stage() {
        let shared = PathBuf::from(std::env::var("VKIT_SHARED").unwrap());
        let rt = rt();
        match stage.as_str() {
            "cases" => pool::worker_loop(|idx| {
                let info = rt.block_on(stage1(OPS[idx % OPS.len()], idx >= OPS.len(), &shared, stride));
                serde_json::to_value(&info).unwrap()
            }),
            "images" => {
                let cases: Vec<CaseInfo> = serde_json::from_slice(&std::fs::read(shared.join("cases.json")).unwrap()).unwrap();
                let index: Vec<(usize, usize)> = serde_json::from_slice(&std::fs::read(shared.join("index.json")).unwrap()).unwrap();
                pool::worker_loop(|idx| {
                    let (c, i) = index[idx];
                    let f = rt.block_on(judge(&cases[c], &cases[c].images[i]));
                    let _ = std::fs::remove_dir_all(cases[c].images[i]["dir"].as_str().unwrap());
                    json!({"fails": f})
                })
            }
            _ => std::process::exit(2),
        }
    }
    let mut run = Run::new("C13", "fault_enumeration", &args);
    let wd = fsutil::WorkDir::new("crashx");
    let shared = wd.path().to_path_buf();
    let mut opts = PoolOpts::default();
    opts.env.push(("VKIT_SHARED".into(), shared.to_string_lossy().to_string()));
    opts.item_timeout = std::time::Duration::from_secs(300);
    let res = pool::run_stage("cases", OPS.len() * 2, &opts);
    let mut cases: Vec<CaseInfo> = vec![];
    for (i, r) in res.into_iter().enumerate() {
        match r {
            pool::ItemResult::Done(v) => {
                let c: CaseInfo = serde_json::from_value(v).unwrap();
                if let Some(e) = &c.error {
                    if !e.starts_with("SKIP") {
                        run.machinery(format!("case {} ({}): {}", OPS[i % OPS.len()], if i >= OPS.len() { "sqlite" } else { "fs" }, e));
                    }
                }
                cases.push(c);
            }
            pool::ItemResult::Crashed(w) => run.machinery(format!("case {}: {}", OPS[i % OPS.len()], w)),
        }
    }
    let mut index: Vec<(usize, usize)> = vec![];
    for (c, case) in cases.iter().enumerate() {
        for i in 0..case.images.len() {
            index.push((c, i));
        }
    }
    std::fs::write(shared.join("cases.json"), serde_json::to_vec(&cases).unwrap()).unwrap();
    std::fs::write(shared.join("index.json"), serde_json::to_vec(&index).unwrap()).unwrap();
    let res = pool::run_stage("images", index.len(), &opts);
    let mut samples = vec![];
    let mut images_ok = 0u64;
    let mut per_op: BTreeMap<String, (u64, u64)> = BTreeMap::new();
    for (k, r) in res.into_iter().enumerate() {
        let (c, i) = index[k];
        let case = &cases[c];
        let e = per_op.entry(format!("{}{}", case.op, if case.sqlite { ":sqlite" } else { "" })).or_default();
        e.0 += 1;
        match r {
            pool::ItemResult::Done(v) => {
                let fs = v["fails"].as_array().cloned().unwrap_or_default();
                if fs.is_empty() {
                    images_ok += 1;
                } else {
                    e.1 += 1;
                }
                for f in fs {
                    run.fail(f[0].as_str().unwrap(), f[1].as_str().unwrap(), json!({"engine":"crashx","op": case.op, "image": case.images[i], "effects_of_the_operation": case.effects.iter().map(|l| normalise(l, case)).collect::<Vec<_>>()}));
                }
                if k % 211 == 0 {
                    push_sample(&mut samples, json!({"op": case.op, "image": {"after_effect": case.images[i]["effect_index"], "effect": normalise(case.images[i]["effect"].as_str().unwrap_or(""), case), "torn_bytes": case.images[i]["torn_bytes"]}}), 6);
                }
            }
            pool::ItemResult::Crashed(w) => {
                run.fail(&format!("{}:judge_crashed", case.op), "opening a crash image crashed or hung the process", json!({"engine":"crashx","op": case.op, "image": case.images[i], "why": w}));
            }
        }
    }
    if index.len() < 10 {
        run.machinery("vacuous: fewer than 10 crash images");
    }
    run.assume("crash model = process death: completed syscalls persist in order, a write may be cut at any byte; power-loss reordering is out of scope (the code never fsyncs)");
    run.assume("SQLite backend: SQLite's own recovery is trusted; every WAL prefix (frame boundaries and one byte either side) between the start and the end of the operation is a crash image; the database file itself must not change during the operation (checked)");
    let mut cov = Map::new();
    cov.insert("evaluations".into(), json!(index.len()));
    cov.insert("distinct_nontrivial".into(), json!(index.len().saturating_sub(cases.len())));
    cov.insert("rule".into(), json!(format!("per operation in {:?}: one image after every file-system effect between the markers and one per torn prefix of every write (stride {} plus record-boundary offsets); every image is opened with LocalAccount::new_unauthenticated + sign_in and judged: opens; every log equals its before or after state; served folder == replay of its log. distinct = images other than the untouched pre-state", OPS, stride)));
    cov.insert("samples".into(), json!(samples));
    cov.insert("images_without_any_failure".into(), json!(images_ok));
    cov.insert("images_per_operation_(total,with_failures)".into(), json!(per_op));
    cov.insert("effects_per_operation".into(), json!(cases.iter().map(|c| (c.op.clone(), c.effects.len())).collect::<BTreeMap<_, _>>()));
    cov.insert("exhaustive".into(), json!(stride == 1));
    std::process::exit(run.finish(cov));
}
