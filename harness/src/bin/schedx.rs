//! C09 — concurrent syncs from several devices are safe in every
//! interleaving (K2: stateless, CHESS-style schedule exploration of the
//! real client auto-merge code against a real in-process server).
//!
//! Threads  = one `execute_sync` call per device (tokio tasks).
//! Points   = every protocol request (exists, status, sync, scan, diff,
//!            patch, ...): a gate inside the harness's SyncClient wrapper.
//!            A released request runs to its response, and the device runs
//!            on to its next request, before anything else is released.
//! Search   = deviation-bounded DFS over choice vectors (default: keep
//!            running the same device; a switch away from a device that
//!            could continue is a preemption), unbounded for 2 devices in
//!            thorough.
use anyhow::{anyhow, Result};
use async_trait::async_trait;
use serde::{Deserialize, Serialize};
use serde_json::{json, Map, Value};
use sos_account::{Account, LocalAccount};
use sos_client_storage::AccessOptions;
use sos_core::{events::EventRecord, AccountId, Origin, SecretId, VaultId};
use sos_protocol::{
    network_client::{HttpClient, HttpClientOptions},
    transfer::{FileTransferQueueRequest, FileTransferQueueSender},
    AsConflict, DiffRequest, DiffResponse, PatchRequest, PatchResponse,
    ScanRequest, ScanResponse, SyncClient, SyncOptions,
};
use sos_remote_sync::{AutoMerge, RemoteSyncHandler};
use sos_sync::{
    CreateSet, SyncDirection, SyncPacket, SyncStatus, SyncStorage, UpdateSet,
};
use std::collections::{BTreeMap, HashMap, HashSet};
use std::path::Path;
use std::sync::Arc;
use tokio::sync::{mpsc, oneshot, Mutex};
use vkit::acct::{Backend, Dev};
use vkit::pool::{self, PoolOpts};
use vkit::run::{push_sample, Args, Run, Tier};
use vkit::world::{
    all_logs, make_template, start_server, status_view, ServerProc, Template,
};
use vkit::{clock, fsutil, gen};

enum GateMsg {
    AtGate {
        dev: usize,
        kind: &'static str,
        go: oneshot::Sender<()>,
    },
    Finished {
        dev: usize,
        result: String,
    },
}

#[derive(Clone)]
struct GatedClient {
    inner: HttpClient,
    dev: usize,
    gate: mpsc::UnboundedSender<GateMsg>,
}

impl GatedClient {
    async fn wait(&self, kind: &'static str) {
        let (tx, rx) = oneshot::channel();
        let _ = self.gate.send(GateMsg::AtGate {
            dev: self.dev,
            kind,
            go: tx,
        });
        let _ = rx.await;
    }
}

#[async_trait]
impl SyncClient for GatedClient {
    type Error = sos_protocol::Error;
    fn origin(&self) -> &Origin {
        self.inner.origin()
    }
    async fn account_exists(&self) -> Result<bool, Self::Error> {
        self.wait("exists").await;
        self.inner.account_exists().await
    }
    async fn create_account(&self, a: CreateSet) -> Result<(), Self::Error> {
        self.wait("create").await;
        self.inner.create_account(a).await
    }
    async fn update_account(&self, a: UpdateSet) -> Result<(), Self::Error> {
        self.wait("update").await;
        self.inner.update_account(a).await
    }
    async fn fetch_account(&self) -> Result<CreateSet, Self::Error> {
        self.wait("fetch").await;
        self.inner.fetch_account().await
    }
    async fn delete_account(&self) -> Result<(), Self::Error> {
        self.wait("delete").await;
        self.inner.delete_account().await
    }
    async fn sync_status(&self) -> Result<SyncStatus, Self::Error> {
        self.wait("status").await;
        self.inner.sync_status().await
    }
    async fn sync(&self, p: SyncPacket) -> Result<SyncPacket, Self::Error> {
        self.wait("sync").await;
        self.inner.sync(p).await
    }
    async fn scan(&self, r: ScanRequest) -> Result<ScanResponse, Self::Error> {
        self.wait("scan").await;
        self.inner.scan(r).await
    }
    async fn diff(&self, r: DiffRequest) -> Result<DiffResponse, Self::Error> {
        self.wait("diff").await;
        self.inner.diff(r).await
    }
    async fn patch(
        &self,
        r: PatchRequest,
    ) -> Result<PatchResponse, Self::Error> {
        self.wait("patch").await;
        self.inner.patch(r).await
    }
}

struct GBridge {
    account_id: AccountId,
    account: Arc<Mutex<LocalAccount>>,
    client: GatedClient,
    queue: FileTransferQueueSender,
}

#[async_trait]
impl RemoteSyncHandler for GBridge {
    type Client = GatedClient;
    type Account = LocalAccount;
    type Error = sos_net::Error;
    fn direction(&self) -> SyncDirection {
        SyncDirection::Push
    }
    fn client(&self) -> &Self::Client {
        &self.client
    }
    fn origin(&self) -> &Origin {
        self.client.origin()
    }
    fn account_id(&self) -> &AccountId {
        &self.account_id
    }
    fn account(&self) -> Arc<Mutex<Self::Account>> {
        self.account.clone()
    }
    fn file_transfer_queue(&self) -> &FileTransferQueueSender {
        &self.queue
    }
    async fn execute_sync_file_transfers(&self) -> Result<(), Self::Error> {
        Ok(())
    }
}

#[async_trait]
impl AutoMerge for GBridge {}

#[derive(Clone, Debug, Serialize, Deserialize, PartialEq, Eq)]
enum Pre {
    NoDivergence,
    OneAhead,
    SoftEqual,
    SoftUnequal,
    SameSecret,
    RenameBoth,
    Three,
    /// device 0 rewrote the default folder's history (update + compaction)
    /// while device 1 appended to the old history: no common ancestor
    HardCompact,
    /// device 0 changed the default folder's password (log rewritten)
    /// while device 1 appended to the old history
    HardPassword,
    /// three devices with different sync points: device 1 pushed s1,
    /// device 2 pulled it and pushed s2, device 0 (oldest clock) created
    /// d1 offline, device 1 created x1 offline; devices 0 and 1 then sync
    /// concurrently: they are in soft conflicts with different ancestors
    Staggered,
}

fn prehistories(tier: Tier) -> Vec<Pre> {
    if let Ok(only) = std::env::var("SCHEDX_ONLY") {
        let all = vec![Pre::NoDivergence, Pre::OneAhead, Pre::SoftEqual, Pre::SoftUnequal, Pre::SameSecret, Pre::RenameBoth, Pre::Three, Pre::HardCompact, Pre::HardPassword, Pre::Staggered];
        return all.into_iter().filter(|p| format!("{:?}", p) == only).collect();
    }
    match tier {
        Tier::Quick => vec![Pre::OneAhead, Pre::SoftEqual, Pre::SoftUnequal, Pre::SameSecret, Pre::Three, Pre::HardCompact, Pre::Staggered],
        Tier::Thorough => vec![Pre::NoDivergence, Pre::OneAhead, Pre::SoftEqual, Pre::SoftUnequal, Pre::SameSecret, Pre::RenameBoth, Pre::Three, Pre::HardCompact, Pre::HardPassword, Pre::Staggered],
    }
}

fn ndev(p: &Pre) -> usize {
    if *p == Pre::Three || *p == Pre::Staggered {
        3
    } else {
        2
    }
}

/// The devices whose sync calls run concurrently.
fn concurrent(p: &Pre) -> Vec<usize> {
    if *p == Pre::Staggered {
        vec![0, 1]
    } else {
        (0..ndev(p)).collect()
    }
}

#[derive(Clone, Debug, Serialize, Deserialize)]
struct Item {
    pre: Pre,
    prefix: Vec<usize>,
}

async fn offline_edits(pre: &Pre, devs: &[Arc<Mutex<LocalAccount>>], t: &Template) -> Result<()> {
    let default: VaultId = t.default_folder.parse().unwrap();
    let s0: SecretId = t.s0.parse().unwrap();
    let in_default = || AccessOptions { folder: Some(default), ..Default::default() };
    let create = |d: usize, k: usize| gen::secret("note", 0, &format!("c09-d{}k{}", d, k));
    for (d, acc) in devs.iter().enumerate() {
        clock::set_device(d);
        let mut a = acc.lock().await;
        match pre {
            Pre::NoDivergence => {}
            Pre::OneAhead => {
                if d == 0 {
                    let (m, s) = create(d, 0);
                    a.create_secret(m, s, in_default()).await?;
                }
            }
            Pre::SoftEqual | Pre::Three => {
                let (m, s) = create(d, 0);
                a.create_secret(m, s, in_default()).await?;
            }
            Pre::SoftUnequal => {
                let (m, s) = create(d, 0);
                a.create_secret(m, s, in_default()).await?;
                if d == 0 {
                    let (m, s) = create(d, 1);
                    a.create_secret(m, s, in_default()).await?;
                }
            }
            Pre::SameSecret => {
                let (m, s) = gen::secret("note", 1, &format!("s0-by-d{}", d));
                a.update_secret(&s0, m, Some(s), in_default()).await?;
            }
            Pre::RenameBoth => {
                a.rename_folder(&default, format!("renamed-by-d{}", d)).await?;
            }
            Pre::HardCompact => {
                if d == 0 {
                    let (m, s) = gen::secret("note", 1, "s0-before-compaction");
                    a.update_secret(&s0, m, Some(s), in_default()).await?;
                    a.compact_folder(&default).await?;
                } else {
                    let (m, s) = create(d, 0);
                    a.create_secret(m, s, in_default()).await?;
                }
            }
            Pre::Staggered => {}
            Pre::HardPassword => {
                if d == 0 {
                    a.change_folder_password(&default, sos_core::crypto::AccessKey::Password(secrecy::SecretString::new("c09-new-folder-password-xyz".to_string().into()))).await?;
                } else {
                    let (m, s) = create(d, 0);
                    a.create_secret(m, s, in_default()).await?;
                }
            }
        }
    }
    Ok(())
}

async fn server_log_hashes(server: &ServerProc, id: &AccountId) -> Result<BTreeMap<String, Vec<[u8; 32]>>> {
    let sa = server.account(id).await.ok_or_else(|| anyhow!("no account"))?;
    let sa = sa.read().await;
    let st = sa.sync_status().await?;
    let folders: Vec<VaultId> = st.folders.keys().copied().collect();
    let mut out = BTreeMap::new();
    for (n, recs) in all_logs(&*sa, &folders).await? {
        out.insert(n, recs.iter().map(|r: &EventRecord| r.commit().0).collect());
    }
    Ok(out)
}

fn multiset_le(a: &[[u8; 32]], b: &[[u8; 32]]) -> bool {
    let mut m: HashMap<[u8; 32], i64> = HashMap::new();
    for h in b {
        *m.entry(*h).or_default() += 1;
    }
    for h in a {
        let e = m.entry(*h).or_default();
        *e -= 1;
        if *e < 0 {
            return false;
        }
    }
    true
}

const HORIZON: usize = 64;

async fn recv_msg(
    grx: &mut mpsc::UnboundedReceiver<GateMsg>,
) -> std::result::Result<Option<GateMsg>, tokio::time::error::Elapsed> {
    tokio::time::timeout(std::time::Duration::from_secs(240), grx.recv()).await
}

/// One complete sync call of the sequential part of a pre-history.
async fn seq_sync(b: Arc<GBridge>, grx: &mut mpsc::UnboundedReceiver<GateMsg>) -> std::result::Result<(), String> {
    let fut = async move { b.execute_sync(&SyncOptions::default()).await.map(|_| ()).map_err(|e| e.to_string()) };
    run_ungated(grx, fut).await
}

/// Run a future whose requests pass the gates, releasing every gate at once.
async fn run_ungated<T>(grx: &mut mpsc::UnboundedReceiver<GateMsg>, fut: impl std::future::Future<Output = T>) -> T {
    tokio::pin!(fut);
    loop {
        tokio::select! {
            biased;
            m = grx.recv() => {
                if let Some(GateMsg::AtGate { go, .. }) = m {
                    let _ = go.send(());
                }
            }
            r = &mut fut => return r,
        }
    }
}

async fn execute(t: &Template, it: &Item, work: &Path) -> Value {
    let mut fails: Vec<Value> = vec![];
    let n = ndev(&it.pre);
    let prek = format!("{:?}", it.pre);
    let rewrites = matches!(it.pre, Pre::HardCompact | Pre::HardPassword);
    let res: Result<Value> = async {
        let _ = std::fs::remove_dir_all(work);
        fsutil::copy_dir(Path::new(&t.dir), work)?;
        clock::install();
        for d in 0..clock::MAX_DEV {
            clock::configure(d, 3_600_000_000_000 + (d as i64) * 10_000_000_000, 1_000_001);
            clock::set_tick(d, 20_000);
        }
        let server = start_server(&work.join("server"), false, None, None).await?;
        let account_id: AccountId = t.account_id.parse().unwrap();
        let (gtx, mut grx) = mpsc::unbounded_channel::<GateMsg>();
        let mut accounts = vec![];
        let mut bridges = vec![];
        for d in 0..n {
            clock::set_device(d);
            let dev = Dev::open(&work.join(format!("d{}", d)), Backend::Fs, account_id, vkit::acct::password()).await?;
            let signer = dev.account.device_signer().await?;
            let options = HttpClientOptions {
                account_id,
                origin: server.origin.clone(),
                device_signer: signer.into(),
                connection_id: format!("device_{}", d + 1),
                network_config: Default::default(),
            };
            let account = Arc::new(Mutex::new(dev.account));
            let (queue, _) = tokio::sync::broadcast::channel::<FileTransferQueueRequest>(8);
            let bridge = Arc::new(GBridge {
                account_id,
                account: account.clone(),
                client: GatedClient { inner: HttpClient::new(options)?, dev: d, gate: gtx.clone() },
                queue,
            });
            accounts.push(account);
            bridges.push(bridge);
        }
        offline_edits(&it.pre, &accounts, t).await?;
        if it.pre == Pre::Staggered {
            let default: VaultId = t.default_folder.parse().unwrap();
            let in_default = || AccessOptions { folder: Some(default), ..Default::default() };
            let create = |d: usize, k: usize| gen::secret("note", 0, &format!("c09-stag-d{}k{}", d, k));
            // sequential part of the pre-history: gates are released at once
            let edit = |acc: Arc<Mutex<LocalAccount>>, d: usize, k: usize| async move {
                clock::set_device(d);
                let (m, s) = create(d, k);
                let mut a = acc.lock().await;
                a.create_secret(m, s, in_default()).await.map(|_| ()).map_err(|e| anyhow!("{}", e))
            };
            edit(accounts[1].clone(), 1, 0).await?;
            seq_sync(bridges[1].clone(), &mut grx).await.map_err(|e| anyhow!("pre-history sync d1: {}", e))?;
            seq_sync(bridges[2].clone(), &mut grx).await.map_err(|e| anyhow!("pre-history sync d2: {}", e))?;
            edit(accounts[2].clone(), 2, 0).await?;
            seq_sync(bridges[2].clone(), &mut grx).await.map_err(|e| anyhow!("pre-history sync d2: {}", e))?;
            clock::set_device(0);
            edit(accounts[0].clone(), 0, 0).await?;
            edit(accounts[1].clone(), 1, 1).await?;
        }
        let conc = concurrent(&it.pre);
        let n = conc.len();
        // spawn the concurrent sync calls
        for (d, b) in bridges.iter().enumerate() {
            if !conc.contains(&d) {
                continue;
            }
            let b = b.clone();
            let tx = gtx.clone();
            tokio::spawn(async move {
                let r = b.execute_sync(&SyncOptions::default()).await;
                let result = match r {
                    Ok(_) => "Ok".to_string(),
                    Err(e) => {
                        if e.is_conflict() {
                            format!("Conflict({})", e)
                        } else {
                            format!("Error({})", e)
                        }
                    }
                };
                let _ = tx.send(GateMsg::Finished { dev: d, result });
            });
        }
        let mut at_gate: BTreeMap<usize, (&'static str, oneshot::Sender<()>)> = BTreeMap::new();
        let mut finished: BTreeMap<usize, String> = BTreeMap::new();
        let mut requests = vec![0usize; n];
        // wait until every device is at its first gate

        while at_gate.len() + finished.len() < n {
            match recv_msg(&mut grx).await {
                Ok(Some(GateMsg::AtGate { dev, kind, go })) => {
                    at_gate.insert(dev, (kind, go));
                }
                Ok(Some(GateMsg::Finished { dev, result })) => {
                    finished.insert(dev, result);
                }
                _ => return Err(anyhow!("devices did not reach their first request")),
            }
        }
        let mut points: Vec<Value> = vec![];
        let mut schedule: Vec<String> = vec![];
        let mut running: Option<usize> = None;
        let mut preemptions = 0usize;
        let mut ack: HashMap<String, Vec<[u8; 32]>> = HashMap::new();
        let mut step = 0usize;
        loop {
            if at_gate.is_empty() {
                break;
            }
            // canonical order: running device first if enabled
            let mut enabled: Vec<usize> = at_gate.keys().copied().collect();
            if let Some(r) = running {
                if let Some(pos) = enabled.iter().position(|x| *x == r) {
                    enabled.remove(pos);
                    enabled.insert(0, r);
                }
            }
            let choice = if step < it.prefix.len() { it.prefix[step] } else { 0 };
            if choice >= enabled.len() {
                return Err(anyhow!("replayed prefix diverged: choice {} of {} enabled at step {}", choice, enabled.len(), step));
            }
            let running_enabled = running.map(|r| enabled[0] == r).unwrap_or(false);
            if running_enabled && choice != 0 {
                preemptions += 1;
            }
            points.push(json!({"enabled": enabled.len(), "running_enabled": running_enabled, "preemptions_before": preemptions - if running_enabled && choice != 0 { 1 } else { 0 }}));
            let dev = enabled[choice];
            let (kind, go) = at_gate.remove(&dev).unwrap();
            schedule.push(format!("d{}:{}", dev, kind));
            requests[dev] += 1;
            if requests[dev] > HORIZON {
                fails.push(json!({"sig": format!("sync_does_not_terminate:{}", prek), "what": format!("a sync call issued more than {} requests", HORIZON)}));
                break;
            }
            let before = server_log_hashes(&server, &account_id).await?;
            let _ = go.send(());
            running = Some(dev);
            // wait for this device's next gate or its end
            match recv_msg(&mut grx).await {
                Ok(Some(GateMsg::AtGate { dev: d2, kind, go })) => {
                    at_gate.insert(d2, (kind, go));
                }
                Ok(Some(GateMsg::Finished { dev: d2, result })) => {
                    finished.insert(d2, result);
                }
                _ => {
                    fails.push(json!({"sig": format!("request_hangs:{}:{}", kind, prek), "what": format!("device {} did not come back from its {} request within 240 s (deadlock or hang)", dev, kind)}));
                    break;
                }
            }
            let after = server_log_hashes(&server, &account_id).await?;
            for (name, b) in &before {
                let a = after.get(name).cloned().unwrap_or_default();
                let lk = name.split(':').next().unwrap();
                // whole patches only: nothing that was there disappears
                // (a folder log that a device rewrote on purpose - compaction,
                // password change - is replaced as a whole by a write request)
                let rewrite_ok = rewrites && lk == "folder" && matches!(kind, "sync" | "patch" | "update");
                if !multiset_le(b, &a) && !rewrite_ok {
                    fails.push(json!({"sig": format!("server_log_lost_events:{}:{}:{}", kind, lk, prek), "what": format!("after a {} request the server's {} log no longer contains events it held before", kind, lk)}));
                }
                // a request that is not a write never changes a log
                if a != *b && !matches!(kind, "sync" | "patch" | "update" | "create") {
                    fails.push(json!({"sig": format!("read_request_changed_log:{}:{}:{}", kind, lk, prek), "what": format!("a {} request changed the server's {} log", kind, lk)}));
                }
                let e = ack.entry(name.clone()).or_default();
                for h in &a {
                    if !e.contains(h) {
                        e.push(*h);
                    }
                }
            }
            step += 1;
        }
        let outcomes: Vec<String> = (0..n).map(|d| finished.get(&d).map(|s| s.split('(').next().unwrap().to_string()).unwrap_or("Unfinished".into())).collect();
        for d in 0..n {
            if !finished.contains_key(&d) && fails.is_empty() {
                fails.push(json!({"sig": format!("sync_never_finished:{}", prek), "what": "a sync call neither finished nor waits at a request (deadlock)"}));
            }
        }
        // the server's logs are faithful: re-open the storage and compare
        let live = server_log_hashes(&server, &account_id).await?;
        // one further sequential round per device (ungated clients)
        let mut seq_results = vec![];
        let mut converged = false;
        if fails.is_empty() {
            // drain gates: run the remaining rounds with auto-release
            let auto = tokio::spawn(async move {
                while let Some(m) = grx.recv().await {
                    if let GateMsg::AtGate { go, .. } = m {
                        let _ = go.send(());
                    }
                }
            });
            for _round in 0..3 {
                for (d, b) in bridges.iter().enumerate() {
                    clock::set_device(d);
                    let r = b.execute_sync(&SyncOptions::default()).await;
                    seq_results.push(match r { Ok(_) => "Ok".to_string(), Err(e) => if e.is_conflict() { "Conflict".into() } else { "Error".into() } });
                }
                let ss = status_view(&server.sync_status(&account_id).await?);
                let mut all = true;
                for a in &accounts {
                    let a = a.lock().await;
                    if status_view(&a.sync_status().await?) != ss {
                        all = false;
                    }
                }
                if all {
                    converged = true;
                    break;
                }
            }
            auto.abort();
            let last_ok = seq_results.iter().rev().take(n).all(|r| r == "Ok");
            if !converged && last_ok {
                fails.push(json!({"sig": format!("no_convergence_after_sequential_rounds:{}", prek), "what": "after the concurrent syncs, three further sequential rounds of successful syncs do not bring the replicas to the server's status"}));
            }
            // no acknowledged event dropped
            let fin = server_log_hashes(&server, &account_id).await?;
            for (name, hs) in &ack {
                let f = fin.get(name).cloned().unwrap_or_default();
                let fset: HashSet<[u8; 32]> = f.iter().copied().collect();
                let lk = name.split(':').next().unwrap();
                if rewrites && lk == "folder" {
                    continue;
                }
                if hs.iter().any(|h| !fset.contains(h)) {
                    fails.push(json!({"sig": format!("acknowledged_event_dropped:{}:{}", lk, prek), "what": format!("an event the server once held in its {} log is absent at the end", lk)}));
                }
            }
        }
        for a in accounts {
            let mut a = a.lock().await;
            let _ = a.sign_out().await;
        }
        let _ = live;
        let final_live = server_log_hashes(&server, &account_id).await?;
        server.stop().await;
        // the server's logs are faithful: a server restarted on the same
        // storage serves exactly the logs the live server held
        if fails.is_empty() {
            let server2 = start_server(&work.join("server"), false, None, None).await?;
            let re = server_log_hashes(&server2, &account_id).await?;
            server2.stop().await;
            if re != final_live {
                let which: Vec<String> = final_live.iter().filter(|(k, v)| re.get(*k) != Some(v)).map(|(k, _)| k.split(':').next().unwrap().to_string()).collect();
                fails.push(json!({"sig": format!("server_log_differs_after_restart:{}:{}", which.first().cloned().unwrap_or_default(), prek), "what": "after the concurrent syncs a server restarted on the same storage holds different logs than the live server did"}));
            }
        }
        Ok(json!({"points": points, "schedule": schedule, "outcomes": outcomes, "preemptions": preemptions, "sequential": seq_results, "converged": converged}))
    }
    .await;
    let mut v = match res {
        Ok(v) => v,
        Err(e) => json!({"error": e.to_string()}),
    };
    v["fails"] = json!(fails);
    v
}

fn rt() -> tokio::runtime::Runtime {
    tokio::runtime::Builder::new_multi_thread().worker_threads(3).enable_all().build().unwrap()
}

fn main() {
    let args = Args::parse();
    let bound: usize = std::env::var("SCHEDX_BOUND").ok().and_then(|s| s.parse().ok()).unwrap_or(match args.tier {
        Tier::Quick => 2,
        Tier::Thorough => 4,
    });
    if pool::worker_stage().is_some() {
        let input = std::env::var("VKIT_INPUT").unwrap();
        let items: Vec<Item> = serde_json::from_slice(&std::fs::read(&input).unwrap()).unwrap();
        let wd = fsutil::WorkDir::new("schedx-w");
        let rt = rt();
        let mut tpl: HashMap<usize, std::result::Result<Template, String>> = HashMap::new();
        pool::worker_loop(|idx| {
            let it = &items[idx];
            let n = ndev(&it.pre);
            let t = tpl.entry(n).or_insert_with(|| rt.block_on(make_template(&wd.path().join(format!("tpl{}", n)), Backend::Fs, false, n)).map_err(|e| e.to_string()));
            match t {
                Ok(t) => rt.block_on(execute(t, it, &wd.path().join("w"))),
                Err(e) => json!({"error": format!("template: {}", e), "fails": []}),
            }
        });
    }
    if let Some(path) = &args.replay {
        let v: Value = serde_json::from_slice(&std::fs::read(path).expect("read")).unwrap();
        let it: Item = serde_json::from_value(v["witness"]["item"].clone()).expect("item");
        let want = v["signature"].as_str().unwrap_or("").to_string();
        let rt = rt();
        let mut obs = vec![];
        for round in 0..2 {
            let wd = fsutil::WorkDir::new(&format!("schedx-r{}", round));
            let t = rt.block_on(make_template(&wd.path().join("tpl"), Backend::Fs, false, ndev(&it.pre))).expect("template");
            let r = rt.block_on(execute(&t, &it, &wd.path().join("w")));
            println!("run {}: schedule={} outcomes={} error={}", round, r["schedule"], r["outcomes"], r.get("error").cloned().unwrap_or(Value::Null));
            let mut sigs: Vec<String> = r["fails"].as_array().unwrap().iter().map(|f| f["sig"].as_str().unwrap().to_string()).collect();
            sigs.sort();
            obs.push((sigs, r["schedule"].clone()));
        }
        if obs[0] != obs[1] {
            eprintln!("MACHINERY-ERROR replay is not deterministic");
            std::process::exit(2);
        }
        if obs[0].0.contains(&want) {
            println!("VIOLATION property=C09 replay={}", path.display());
            std::process::exit(1);
        }
        std::process::exit(0);
    }
    let mut run = Run::new("C09", "model_checking", &args);
    let wd = fsutil::WorkDir::new("schedx");
    let mut frontier: Vec<Item> = prehistories(args.tier).into_iter().map(|p| Item { pre: p, prefix: vec![] }).collect();
    let mut executions = 0u64;
    let mut steps = 0u64;
    let mut outcomes: BTreeMap<String, u64> = BTreeMap::new();
    let mut per_pre: BTreeMap<String, u64> = BTreeMap::new();
    let mut samples = vec![];
    let mut first_schedules: HashMap<String, Value> = HashMap::new();
    let mut round = 0;
    while !frontier.is_empty() {
        let input = wd.path().join(format!("items-{}.json", round));
        std::fs::write(&input, serde_json::to_vec(&frontier).unwrap()).unwrap();
        let mut opts = PoolOpts::default();
        opts.env.push(("VKIT_INPUT".into(), input.to_string_lossy().to_string()));
        opts.item_timeout = std::time::Duration::from_secs(400);
        let res = pool::run_stage("exec", frontier.len(), &opts);
        let mut next = vec![];
        for (i, r) in res.into_iter().enumerate() {
            let it = &frontier[i];
            match r {
                pool::ItemResult::Crashed(w) => run.fail(&format!("execution_crashed_or_hung:{:?}", it.pre), "an execution crashed or hung", json!({"engine":"schedx","item": it, "why": w})),
                pool::ItemResult::Done(v) => {
                    if let Some(e) = v.get("error").and_then(|e| e.as_str()) {
                        if e.contains("diverged") {
                            run.machinery(format!("{:?}: {}", it, e));
                        } else {
                            run.machinery(format!("{:?}: {}", it, e));
                        }
                        continue;
                    }
                    executions += 1;
                    *per_pre.entry(format!("{:?}", it.pre)).or_default() += 1;
                    let pts = v["points"].as_array().cloned().unwrap_or_default();
                    steps += pts.len() as u64;
                    let kinds: Vec<String> = (0..ndev(&it.pre)).map(|d| v["schedule"].as_array().unwrap().iter().filter_map(|s| s.as_str()).filter(|s| s.starts_with(&format!("d{}:", d))).map(|s| s.split(':').nth(1).unwrap().chars().next().unwrap().to_string()).collect::<String>()).collect();
                    let oc = format!("{:?}:{}:{}:requests={}", it.pre, v["outcomes"], if v["converged"].as_bool() == Some(true) { "converged" } else { "not_converged" }, kinds.join("|"));
                    *outcomes.entry(oc).or_default() += 1;
                    for f in v["fails"].as_array().unwrap() {
                        run.fail(f["sig"].as_str().unwrap(), f["what"].as_str().unwrap(), json!({"engine":"schedx","item": it, "schedule": v["schedule"], "outcomes": v["outcomes"]}));
                    }
                    if it.prefix.is_empty() {
                        first_schedules.insert(format!("{:?}", it.pre), v["schedule"].clone());
                    }
                    if executions % 41 == 1 {
                        push_sample(&mut samples, json!({"pre": it.pre, "choices": it.prefix, "schedule": v["schedule"], "outcomes": v["outcomes"]}), 6);
                    }
                    // children: alternatives at every point at or after the prefix
                    for k in it.prefix.len()..pts.len() {
                        let p = &pts[k];
                        let enabled = p["enabled"].as_u64().unwrap() as usize;
                        let running_enabled = p["running_enabled"].as_bool().unwrap();
                        let before = p["preemptions_before"].as_u64().unwrap() as usize;
                        for alt in 1..enabled {
                            let cost = before + if running_enabled { 1 } else { 0 };
                            // three devices: one preemption less than the
                            // two-device bound (the space grows much faster)
                            let b = if ndev(&it.pre) > 2 && args.tier == Tier::Quick { bound.saturating_sub(1) } else { bound };
                            if cost > b {
                                continue;
                            }
                            let mut pre: Vec<usize> = it.prefix.clone();
                            while pre.len() < k {
                                pre.push(0);
                            }
                            pre.push(alt);
                            next.push(Item { pre: it.pre.clone(), prefix: pre });
                        }
                    }
                }
            }
        }
        frontier = next;
        round += 1;
        if round > 40 {
            run.machinery("exploration did not terminate in 40 rounds");
            break;
        }
    }
    if outcomes.len() < 2 {
        run.machinery("vacuous: fewer than 2 distinct execution outcomes");
    }
    run.assume("scheduling points = protocol requests; a released request and the client-side work up to the device's next request run to completion before the next release (sound because devices share no state except the server, and the server handles one request at a time in this harness)");
    run.assume("interleavings inside the server's handlers (lock acquisitions within one request) are not explored at this commit");
    let mut cov = Map::new();
    cov.insert("states".into(), json!(outcomes.len()));
    cov.insert("transitions".into(), json!(steps));
    cov.insert("traces_validated_against_impl".into(), json!(executions));
    cov.insert("samples".into(), json!(samples));
    cov.insert("schedules".into(), json!(executions));
    cov.insert("schedules_per_prehistory".into(), json!(per_pre));
    cov.insert("distinct_outcomes".into(), json!(outcomes));
    cov.insert("preemption_bound".into(), json!(bound));
    cov.insert("default_schedules".into(), json!(first_schedules));
    cov.insert("exhaustive".into(), json!(true));
    std::process::exit(run.finish(cov));
}
