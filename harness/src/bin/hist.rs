//! K1 — bounded-exhaustive history explorer over a real `LocalAccount`
//! (file-system and SQLite backends), serving C01, C02, C12, C16, C20.
//!
//! Explicit-state breadth-first search. A state is a persisted account
//! (snapshot directory) plus the reference model; a transition copies the
//! parent snapshot, signs in on the copy with a fresh account object,
//! applies one operation to implementation and model and evaluates every
//! oracle; the successor is persisted again. States are merged on the
//! canonical form of the model plus per-folder log length and row order.
use anyhow::{anyhow, Result};
use futures::StreamExt;
use serde::{Deserialize, Serialize};
use serde_json::{json, Map, Value};
use sos_account::Account;
use sos_backend::BackendTarget;
use sos_client_storage::{AccessOptions, NewFolderOptions};
use sos_core::{
    commit::CommitHash,
    crypto::{AccessKey, Cipher, KeyDerivation},
    decode,
    events::{EventLog, WriteEvent},
    SecretId, VaultFlags, VaultId,
};
use sos_database::entity::FolderEntity;
use sos_integrity::{account_integrity, FolderIntegrityEvent};
use sos_reducers::FolderReducer;
use sos_search::SearchIndex;
use sos_sync::StorageEventLogs;
use sos_vault::{SecretAccess, Vault};
use std::collections::{BTreeMap, HashMap, HashSet};
use std::path::{Path, PathBuf};
use vkit::acct::{
    account_view, folder_key_sorted, vault_view_cached, AccountView, Backend,
    reference_reduce, Dev, KeyCache, PASSWORD, PASSWORD2,
};
use vkit::pool::{self, PoolOpts};
use vkit::run::{push_sample, Args, Run, Tier};
use vkit::{clock, fsutil, gen};

// ---------------------------------------------------------------- model

#[derive(Clone, Debug, Serialize, Deserialize, PartialEq)]
struct MFolder {
    id: String,
    name: String,
    flags: u64,
    description: String,
    alive: bool,
    role: String, // default | archive | user
}

#[derive(Clone, Debug, Serialize, Deserialize, PartialEq)]
struct MSecret {
    id: String,
    folder: usize,
    kind: String,
    variant: u8,
    /// label variant (meta can change without the value)
    meta_variant: u8,
    alive: bool,
    meta: Value,
    value: Value,
}

#[derive(Clone, Debug, Serialize, Deserialize, PartialEq)]
struct Model {
    folders: Vec<MFolder>,
    secrets: Vec<MSecret>,
    password: u8,
    cipher: u8,
    /// number of maintenance ops applied (bounds C12 words)
    maint: u8,
    /// number of ordinary ops applied
    edits: u8,
    /// per folder: compacted since last edit (log must be 1 + live)
    compacted: Vec<bool>,
}

impl Model {
    fn live_in(&self, f: usize) -> Vec<&MSecret> {
        self.secrets
            .iter()
            .filter(|s| s.alive && s.folder == f)
            .collect()
    }
    fn canon(&self, budgeted: bool) -> String {
        let f: Vec<String> = self
            .folders
            .iter()
            .map(|f| {
                format!(
                    "{}:{}:{}:{}:{}",
                    f.role, f.alive as u8, f.name, f.flags, f.description
                )
            })
            .collect();
        let s: Vec<String> = self
            .secrets
            .iter()
            .map(|s| {
                format!(
                    "{}:{}:{}:{}:{}",
                    s.alive as u8, s.folder, s.kind, s.variant, s.meta_variant
                )
            })
            .collect();
        format!(
            "F[{}] S[{}] pw{} c{} m{} K{:?}{}",
            f.join(","),
            s.join(","),
            self.password % 2,
            self.cipher % 3,
            (self.maint > 0) as u8,
            self.compacted,
            if budgeted {
                // remaining per-path budgets are part of the state
                format!(" B{}/{}", self.edits, self.maint)
            } else {
                String::new()
            }
        )
    }
    fn expected_view(&self) -> Vec<Value> {
        let mut out = vec![];
        for (i, f) in self.folders.iter().enumerate() {
            if !f.alive {
                continue;
            }
            let mut secrets: Vec<(String, Value, Value)> = self
                .live_in(i)
                .iter()
                .map(|s| (s.id.clone(), s.meta.clone(), s.value.clone()))
                .collect();
            secrets.sort_by(|a, b| a.0.cmp(&b.0));
            out.push(json!({"id": f.id, "name": f.name, "flags": f.flags, "description": f.description, "secrets": secrets}));
        }
        out.sort_by(|a, b| {
            a["id"].as_str().unwrap().cmp(b["id"].as_str().unwrap())
        });
        out
    }
}

#[derive(Clone, Debug, Serialize, Deserialize, PartialEq, Eq, Hash)]
enum Op {
    Create { f: usize, kind: String, variant: u8 },
    Update { s: usize, with_value: bool },
    Move { s: usize, to: usize },
    Delete { s: usize },
    Archive { s: usize },
    Unarchive { s: usize },
    CreateFolder,
    RenameFolder { f: usize },
    SetFlags { f: usize },
    SetDescription { f: usize },
    DeleteFolder { f: usize },
    CompactFolder { f: usize },
    CompactAccount,
    ChangeFolderPassword { f: usize },
    ChangeAccountPassword,
    ChangeCipher,
}

impl Op {
    fn kind(&self) -> &'static str {
        match self {
            Op::Create { .. } => "create_secret",
            Op::Update { with_value: true, .. } => "update_secret",
            Op::Update { .. } => "update_meta",
            Op::Move { .. } => "move_secret",
            Op::Delete { .. } => "delete_secret",
            Op::Archive { .. } => "archive",
            Op::Unarchive { .. } => "unarchive",
            Op::CreateFolder => "create_folder",
            Op::RenameFolder { .. } => "rename_folder",
            Op::SetFlags { .. } => "set_flags",
            Op::SetDescription { .. } => "set_description",
            Op::DeleteFolder { .. } => "delete_folder",
            Op::CompactFolder { .. } => "compact_folder",
            Op::CompactAccount => "compact_account",
            Op::ChangeFolderPassword { .. } => "change_folder_password",
            Op::ChangeAccountPassword => "change_account_password",
            Op::ChangeCipher => "change_cipher",
        }
    }
    fn is_maint(&self) -> bool {
        matches!(
            self,
            Op::CompactFolder { .. }
                | Op::CompactAccount
                | Op::ChangeFolderPassword { .. }
                | Op::ChangeAccountPassword
                | Op::ChangeCipher
        )
    }
}

#[derive(Clone, Debug, Serialize, Deserialize)]
struct Profile {
    prop: String,
    depth: usize,
    kinds: Vec<String>,
    max_slots: usize,
    maint_words: usize,
    prefix_depth: usize,
    extra_variants: bool,
    relogin_same_object: bool,
    rich_initial: bool,
    /// true: a path is executed in ONE signed-in session from the initial
    /// snapshot (no state merging); false: every transition starts from
    /// the persisted parent state with a fresh sign-in (states merged)
    #[serde(default)]
    session: bool,
    #[serde(default)]
    small_alphabet: bool,
}

fn profile(prop: &str, tier: Tier) -> Profile {
    let q = tier == Tier::Quick;
    match prop {
        "C12" => Profile {
            prop: prop.into(),
            depth: 3,
            kinds: vec!["note".into()],
            max_slots: 3,
            maint_words: 2,
            prefix_depth: if q { 1 } else { 2 },
            extra_variants: false,
            relogin_same_object: false,
            rich_initial: true,
            session: true,
            small_alphabet: q,
        },
        _ => Profile {
            prop: prop.into(),
            depth: if q { 2 } else { 3 },
            kinds: if q {
                vec!["note".into(), "login".into()]
            } else {
                vec!["note".into(), "login".into(), "file".into()]
            },
            max_slots: 3,
            maint_words: 0,
            prefix_depth: 0,
            extra_variants: true,
            relogin_same_object: !q,
            rich_initial: true,
            session: true,
            small_alphabet: false,
        },
    }
}

fn enabled(m: &Model, p: &Profile) -> Vec<Op> {
    let ops = enabled_full(m, p);
    if p.maint_words > 0 && p.small_alphabet {
        // quick C12: a small alphabet so that depth 3 (any interleaving
        // of one edit and two maintenance operations) stays affordable
        ops.into_iter()
            .filter(|o| match o {
                Op::Create { f, .. } => *f == 0,
                Op::Delete { s } => *s == 0,
                Op::SetFlags { f } | Op::DeleteFolder { f } => *f == 2,
                Op::CompactFolder { f } => *f == 2,
                Op::ChangeFolderPassword { f } => *f == 3,
                Op::CompactAccount
                | Op::ChangeAccountPassword
                | Op::ChangeCipher => true,
                _ => false,
            })
            .collect()
    } else {
        ops
    }
}

fn enabled_full(m: &Model, p: &Profile) -> Vec<Op> {
    let mut ops = vec![];
    // kind sweep (C01 family): every secret kind is created once at depth 1
    // and then only that secret is operated on (update value, update meta,
    // move, archive, delete), so that all 15 kinds x {create, update, move}
    // x reload are covered without multiplying the whole alphabet
    if p.maint_words == 0 {
        if let Some((si, _)) = m.secrets.iter().enumerate().find(|(_, s)| s.alive && !p.kinds.contains(&s.kind)) {
            let s = &m.secrets[si];
            ops.push(Op::Update { s: si, with_value: true });
            ops.push(Op::Update { s: si, with_value: false });
            ops.push(Op::Delete { s: si });
            if m.folders[s.folder].role != "archive" {
                ops.push(Op::Archive { s: si });
                ops.push(Op::Move { s: si, to: if s.folder == 0 { 2 } else { 0 } });
            }
            return ops;
        }
        if m.edits == 0 {
            for k in gen::KINDS {
                if !p.kinds.iter().any(|x| x == k) {
                    ops.push(Op::Create { f: 0, kind: k.to_string(), variant: 1 });
                }
            }
        }
    }
    // C12: edits and maintenance operations interleave freely, each kind
    // bounded per path (a key change followed by a folder delete followed
    // by another key change is a path of the search)
    let maint_phase = p.maint_words > 0;
    let edits_allowed = if p.maint_words > 0 {
        (m.edits as usize) < p.prefix_depth
    } else {
        true
    };
    let n_slots = m.secrets.len();
    let user_folders: Vec<usize> = m
        .folders
        .iter()
        .enumerate()
        .filter(|(_, f)| f.alive && f.role != "archive")
        .map(|(i, _)| i)
        .collect();
    if edits_allowed {
        if n_slots < p.max_slots {
            for &f in &user_folders {
                for k in &p.kinds {
                    ops.push(Op::Create {
                        f,
                        kind: k.clone(),
                        variant: 0,
                    });
                }
            }
            if p.extra_variants {
                // empty and large values (note kind, default folder)
                ops.push(Op::Create {
                    f: 0,
                    kind: "note".into(),
                    variant: 2,
                });
                ops.push(Op::Create {
                    f: 0,
                    kind: "note".into(),
                    variant: 3,
                });
            }
        }
        for (i, s) in m.secrets.iter().enumerate() {
            if !s.alive {
                continue;
            }
            let in_archive = m.folders[s.folder].role == "archive";
            ops.push(Op::Update {
                s: i,
                with_value: true,
            });
            if p.maint_words == 0 {
                ops.push(Op::Update {
                    s: i,
                    with_value: false,
                });
            }
            ops.push(Op::Delete { s: i });
            if p.maint_words > 0 {
                // C12 alphabet: no archive / move
                continue;
            }
            if in_archive {
                ops.push(Op::Unarchive { s: i });
            } else {
                ops.push(Op::Archive { s: i });
                for &f in &user_folders {
                    if f != s.folder {
                        ops.push(Op::Move { s: i, to: f });
                    }
                }
            }
        }
        let n_user = m
            .folders
            .iter()
            .filter(|f| f.alive && f.role == "user")
            .count();
        let total_user =
            m.folders.iter().filter(|f| f.role == "user").count();
        if n_user < 1 && total_user < 3 {
            ops.push(Op::CreateFolder);
        }
        for (i, f) in m.folders.iter().enumerate() {
            if !f.alive || f.role == "archive" {
                continue;
            }
            ops.push(Op::RenameFolder { f: i });
            ops.push(Op::SetDescription { f: i });
            if f.role == "user" {
                ops.push(Op::SetFlags { f: i });
                ops.push(Op::DeleteFolder { f: i });
            }
        }
    }
    if maint_phase && (m.maint as usize) < p.maint_words {
        for (i, f) in m.folders.iter().enumerate() {
            if f.alive && f.role != "archive" {
                if i <= 2 {
                    ops.push(Op::CompactFolder { f: i });
                }
                if f.role == "user" || !p.prop.is_empty() && m.folders.len() <= 3 {
                    ops.push(Op::ChangeFolderPassword { f: i });
                }
            }
        }
        ops.push(Op::CompactAccount);
        ops.push(Op::ChangeAccountPassword);
        ops.push(Op::ChangeCipher);
    }
    ops
}

// ------------------------------------------------------- implementation

/// Target of the n-th change_cipher of a path. The first target is the
/// configuration new accounts start with (AES-GCM-256 + Argon2id): at that
/// point only the user folder of the initial state (XChaCha20-Poly1305)
/// differs, i.e. the account is in a mixed state in which the identity
/// folder needs no conversion but a user folder does.
fn cipher_target(n: u8) -> (Cipher, KeyDerivation) {
    match n % 3 {
        1 => (Cipher::AesGcm256, KeyDerivation::Argon2Id),
        2 => (Cipher::XChaCha20Poly1305, KeyDerivation::BalloonHash),
        _ => (Cipher::AesGcm256, KeyDerivation::BalloonHash),
    }
}

fn vid(s: &str) -> VaultId {
    s.parse().unwrap()
}
fn sid(s: &str) -> SecretId {
    s.parse().unwrap()
}

fn pw(idx: u8) -> secrecy::SecretString {
    let s = if idx % 2 == 0 { PASSWORD } else { PASSWORD2 };
    secrecy::SecretString::new(s.to_string().into())
}

fn folder_pw(n: u8) -> AccessKey {
    AccessKey::Password(secrecy::SecretString::new(
        format!("folder-password-number-{}-long-enough", n).into(),
    ))
}

/// Apply `op` to implementation and model.
async fn apply(dev: &mut Dev, m: &mut Model, op: &Op) -> Result<()> {
    let acc = &mut dev.account;
    match op {
        Op::Create { f, kind, variant } => {
            let slot = m.secrets.len();
            let marker = format!("s{}", slot);
            let (meta, secret) = gen::secret(kind, *variant, &marker);
            let mv = gen::meta_view(&meta);
            let sv = gen::secret_view(&secret);
            let fid = vid(&m.folders[*f].id);
            let r = acc
                .create_secret(
                    meta,
                    secret,
                    AccessOptions {
                        folder: Some(fid),
                        ..Default::default()
                    },
                )
                .await?;
            m.secrets.push(MSecret {
                id: r.id.to_string(),
                folder: *f,
                kind: kind.clone(),
                variant: *variant,
                meta_variant: *variant,
                alive: true,
                meta: mv,
                value: sv,
            });
        }
        Op::Update { s, with_value } => {
            let ms = m.secrets[*s].clone();
            let marker = format!("s{}", s);
            let nv = if *with_value {
                (ms.variant + 1) % 2
            } else {
                ms.variant
            };
            let mvar = (ms.meta_variant + 1) % 2;
            let (meta, _) = gen::secret(&ms.kind, mvar, &marker);
            let (_, secret) = gen::secret(&ms.kind, nv, &marker);
            let fid = vid(&m.folders[ms.folder].id);
            let mv = gen::meta_view(&meta);
            let sv = gen::secret_view(&secret);
            acc.update_secret(
                &sid(&ms.id),
                meta,
                if *with_value { Some(secret) } else { None },
                AccessOptions {
                    folder: Some(fid),
                    ..Default::default()
                },
            )
            .await?;
            let e = &mut m.secrets[*s];
            e.meta = mv;
            e.meta_variant = mvar;
            if *with_value {
                e.value = sv;
                e.variant = nv;
            }
        }
        Op::Move { s, to } => {
            let ms = m.secrets[*s].clone();
            let from = vid(&m.folders[ms.folder].id);
            let tof = vid(&m.folders[*to].id);
            let r = acc
                .move_secret(
                    &sid(&ms.id),
                    &from,
                    &tof,
                    Default::default(),
                )
                .await?;
            let e = &mut m.secrets[*s];
            e.id = r.id.to_string();
            e.folder = *to;
        }
        Op::Delete { s } => {
            let ms = m.secrets[*s].clone();
            let fid = vid(&m.folders[ms.folder].id);
            acc.delete_secret(
                &sid(&ms.id),
                AccessOptions {
                    folder: Some(fid),
                    ..Default::default()
                },
            )
            .await?;
            m.secrets[*s].alive = false;
        }
        Op::Archive { s } => {
            let ms = m.secrets[*s].clone();
            let from = vid(&m.folders[ms.folder].id);
            let r = acc
                .archive(&from, &sid(&ms.id), Default::default())
                .await?;
            let ai = m
                .folders
                .iter()
                .position(|f| f.role == "archive")
                .ok_or_else(|| anyhow!("no archive"))?;
            let e = &mut m.secrets[*s];
            e.id = r.id.to_string();
            e.folder = ai;
        }
        Op::Unarchive { s } => {
            let ms = m.secrets[*s].clone();
            let row = acc
                .read_secret(
                    &sid(&ms.id),
                    Some(&vid(&m.folders[ms.folder].id)),
                )
                .await?
                .0;
            let kind = *row.meta().kind();
            let (r, _) = acc
                .unarchive(&sid(&ms.id), &kind, Default::default())
                .await?;
            let e = &mut m.secrets[*s];
            e.id = r.id.to_string();
            e.folder = 0;
        }
        Op::CreateFolder => {
            let n = m.folders.len();
            let name = format!("folder-{}", n);
            let r = acc
                .create_folder(NewFolderOptions::new(name.clone()))
                .await?;
            m.folders.push(MFolder {
                id: r.folder.id().to_string(),
                name,
                flags: r.folder.flags().bits(),
                description: String::new(),
                alive: true,
                role: "user".into(),
            });
            m.compacted.push(false);
        }
        Op::RenameFolder { f } => {
            let name = if m.folders[*f].name.ends_with("-renamed") {
                format!("{}-again", m.folders[*f].name)
            } else {
                format!("{}-renamed", m.folders[*f].name)
            };
            // keep the name alphabet finite
            let name = if name.len() > 40 {
                format!("f{}-renamed", f)
            } else {
                name
            };
            acc.rename_folder(&vid(&m.folders[*f].id), name.clone())
                .await?;
            m.folders[*f].name = name;
        }
        Op::SetFlags { f } => {
            let cur = VaultFlags::from_bits_truncate(m.folders[*f].flags);
            let mut new = cur.clone();
            new.toggle(VaultFlags::NO_SYNC);
            new.insert(VaultFlags::LOCAL);
            acc.update_folder_flags(&vid(&m.folders[*f].id), new.clone())
                .await?;
            m.folders[*f].flags = new.bits();
        }
        Op::SetDescription { f } => {
            let d = if m.folders[*f].description.is_empty() {
                format!("description of folder {}", f)
            } else {
                String::new()
            };
            acc.set_folder_description(&vid(&m.folders[*f].id), &d)
                .await?;
            m.folders[*f].description = d;
        }
        Op::DeleteFolder { f } => {
            acc.delete_folder(&vid(&m.folders[*f].id)).await?;
            m.folders[*f].alive = false;
            for s in m.secrets.iter_mut() {
                if s.folder == *f {
                    s.alive = false;
                }
            }
        }
        Op::CompactFolder { f } => {
            acc.compact_folder(&vid(&m.folders[*f].id)).await?;
            m.compacted[*f] = true;
        }
        Op::CompactAccount => {
            acc.compact_account().await?;
            for (i, f) in m.folders.iter().enumerate() {
                if f.alive {
                    m.compacted[i] = true;
                }
            }
        }
        Op::ChangeFolderPassword { f } => {
            acc.change_folder_password(
                &vid(&m.folders[*f].id),
                folder_pw(m.maint + 1),
            )
            .await?;
            m.compacted[*f] = true;
        }
        Op::ChangeAccountPassword => {
            let np = m.password + 1;
            acc.change_account_password(pw(np)).await?;
            m.password = np;
            dev.password = pw(np);
        }
        Op::ChangeCipher => {
            let nc = m.cipher + 1;
            let (cipher, kdf) = cipher_target(nc);
            let key: AccessKey = dev.password.clone().into();
            // only folders that are not yet on the target are converted
            let before: HashMap<String, (Cipher, KeyDerivation)> = acc
                .list_folders()
                .await?
                .iter()
                .map(|s| (s.id().to_string(), (s.cipher().clone(), s.kdf().clone())))
                .collect();
            acc.change_cipher(&key, &cipher, Some(kdf.clone())).await?;
            m.cipher = nc;
            for (i, f) in m.folders.iter().enumerate() {
                if f.alive && before.get(&f.id) != Some(&(cipher.clone(), kdf.clone())) {
                    m.compacted[i] = true;
                }
            }
        }
    }
    if op.is_maint() {
        m.maint += 1;
    } else {
        m.edits += 1;
        // an edit after compaction grows the log again
        let touched: Vec<usize> = match op {
            Op::Create { f, .. } => vec![*f],
            Op::CreateFolder => vec![],
            Op::RenameFolder { f }
            | Op::SetFlags { f }
            | Op::SetDescription { f }
            | Op::DeleteFolder { f } => vec![*f],
            _ => (0..m.folders.len()).collect(),
        };
        for t in touched {
            m.compacted[t] = false;
        }
    }
    Ok(())
}

// -------------------------------------------------------------- oracles

#[derive(Default)]
struct Fails(Vec<(String, String, String, Value)>);
impl Fails {
    fn push(&mut self, prop: &str, sig: String, what: String, detail: Value) {
        self.0.push((prop.to_string(), sig, what, detail));
    }
}

fn view_to_sorted(view: &AccountView) -> Vec<Value> {
    let mut v: Vec<Value> =
        view.folders.iter().map(folder_key_sorted).collect();
    v.sort_by(|a, b| {
        a["id"].as_str().unwrap().cmp(b["id"].as_str().unwrap())
    });
    v
}

/// Explain the first difference between expected and observed views.
fn diff_views(want: &[Value], got: &[Value]) -> String {
    let wid: Vec<&str> =
        want.iter().map(|f| f["id"].as_str().unwrap()).collect();
    let gid: Vec<&str> =
        got.iter().map(|f| f["id"].as_str().unwrap()).collect();
    if wid != gid {
        return "folder_set".into();
    }
    for (w, g) in want.iter().zip(got.iter()) {
        for k in ["name", "flags", "description"] {
            if w[k] != g[k] {
                return format!("folder_{}", k);
            }
        }
        let ws = w["secrets"].as_array().unwrap();
        let gs = g["secrets"].as_array().unwrap();
        let wi: Vec<&Value> = ws.iter().map(|s| &s[0]).collect();
        let gi: Vec<&Value> = gs.iter().map(|s| &s[0]).collect();
        if wi != gi {
            return if gs.len() > ws.len() {
                "secret_ids(extra)".into()
            } else if gs.len() < ws.len() {
                "secret_ids(missing)".into()
            } else {
                "secret_ids".into()
            };
        }
        for (a, b) in ws.iter().zip(gs.iter()) {
            if a[1] != b[1] {
                return "secret_meta".into();
            }
            if a[2] != b[2] {
                return "secret_value".into();
            }
        }
    }
    "unknown".into()
}

async fn check_view(
    dev: &mut Dev,
    m: &Model,
    stage: &str,
    op: &Op,
    fails: &mut Fails,
) -> Option<AccountView> {
    match account_view(&mut dev.account, true).await {
        Ok(v) => {
            let got = view_to_sorted(&v);
            let want = m.expected_view();
            if got != want {
                let d = diff_views(&want, &got);
                fails.push(
                    if op.is_maint() { "C12" } else { "C01" },
                    format!("{}:{}:{}:{}", op.kind(), stage, d, dev.backend.name()),
                    format!("account view {} differs from the model ({})", stage, d),
                    json!({"stage": stage}),
                );
            }
            // a secret id lives in exactly one folder
            let mut seen: HashMap<&String, usize> = HashMap::new();
            for f in &v.folders {
                for s in &f.secrets {
                    *seen.entry(&s.0).or_default() += 1;
                }
            }
            if seen.values().any(|c| *c > 1) {
                fails.push(
                    "C01",
                    format!("{}:{}:id_in_two_folders:{}", op.kind(), stage, dev.backend.name()),
                    "a secret id is listed in more than one folder".into(),
                    json!({}),
                );
            }
            Some(v)
        }
        Err(e) => {
            fails.push(
                if op.is_maint() { "C12" } else { "C01" },
                format!("{}:{}:view_error:{}", op.kind(), stage, dev.backend.name()),
                format!("reading the account {} failed: {}", stage, e),
                json!({}),
            );
            None
        }
    }
}

async fn mirror_vault(dev: &Dev, id: &VaultId) -> Result<Vault> {
    match &dev.target {
        BackendTarget::FileSystem(paths) => {
            let p = paths.with_account_id(&dev.account_id).vault_path(id);
            let b = std::fs::read(&p)?;
            Ok(decode(&b).await?)
        }
        BackendTarget::Database(_, client) => {
            Ok(FolderEntity::compute_folder_vault(client, id).await?)
        }
    }
}

/// C02: replay(log) == served == mirror; replay until every commit.
async fn check_c02(
    dev: &mut Dev,
    m: &Model,
    op: &Op,
    fails: &mut Fails,
    counters: &mut Counters,
) {
    let b = dev.backend.name();
    for (fi, mf) in m.folders.iter().enumerate() {
        if !mf.alive {
            continue;
        }
        let id = vid(&mf.id);
        let key = match dev.folder_key(&id).await {
            Ok(k) => k,
            Err(e) => {
                fails.push("C02", format!("{}:no_folder_key:{}", op.kind(), b), format!("{}", e), json!({}));
                continue;
            }
        };
        let res: Result<()> = async {
            let log = dev.account.folder_log(&id).await?;
            let log = log.read().await;
            // (1) reduce(log)
            let reduced =
                FolderReducer::new().reduce(&*log).await?.build(true).await?;
            let mut kc = KeyCache::default();
            let reduced_v = vault_view_cached(&reduced, &key, &mut kc).await?;
            // (2) served
            let folder = dev.account.folder(&id).await?;
            let served = {
                let ap = folder.access_point();
                let ap = ap.lock().await;
                ap.vault().clone()
            };
            let served_v = vault_view_cached(&served, &key, &mut kc).await?;
            // (3) mirror
            let mirror = mirror_vault(dev, &id).await?;
            let mirror_v = vault_view_cached(&mirror, &key, &mut kc).await?;
            let want = m
                .expected_view()
                .into_iter()
                .find(|f| f["id"] == json!(mf.id))
                .unwrap();
            let r = folder_key_sorted(&reduced_v);
            let s = folder_key_sorted(&served_v);
            let mi = folder_key_sorted(&mirror_v);
            counters.c02_folder_checks += 1;
            if r != s {
                let d = diff_views(&[s.clone()], &[r.clone()]);
                fails.push("C02", format!("{}:replay_differs_from_served:{}:{}", op.kind(), d, b), "replaying the persisted log gives a different folder than the account serves".into(), json!({"folder": fi}));
            }
            if mi != s {
                let d = diff_views(&[s.clone()], &[mi.clone()]);
                fails.push("C02", format!("{}:mirror_differs_from_served:{}:{}", op.kind(), d, b), "the persisted vault mirror differs from the folder the account serves".into(), json!({"folder": fi}));
            }
            if r != want {
                let d = diff_views(&[want.clone()], &[r.clone()]);
                fails.push("C02", format!("{}:replay_differs_from_model:{}:{}", op.kind(), d, b), "replaying the persisted log gives a folder that differs from the model".into(), json!({"folder": fi}));
            }
            // (4) until every commit
            let mut recs = vec![];
            {
                let s = log.event_stream(false).await;
                futures::pin_mut!(s);
                while let Some(x) = s.next().await {
                    recs.push(x?);
                }
            }
            let events: Vec<WriteEvent> =
                recs.iter().map(|(_, e)| e.clone()).collect();
            let mut seen_hash: HashSet<[u8; 32]> = HashSet::new();
            for k in 0..recs.len() {
                let c = *recs[k].0.commit();
                if !seen_hash.insert(c.0) {
                    continue; // only the first index of a repeated hash
                }
                let want_v = reference_reduce(&events[..=k]).await?;
                let want_v = vault_view_cached(&want_v, &key, &mut kc).await;
                let got = FolderReducer::new_until_commit(CommitHash(c.0))
                    .reduce(&*log)
                    .await?
                    .build(true)
                    .await?;
                let got_v = vault_view_cached(&got, &key, &mut kc).await;
                counters.c02_commit_checks += 1;
                match (want_v, got_v) {
                    (Ok(w), Ok(g)) => {
                        let (w, g) =
                            (folder_key_sorted(&w), folder_key_sorted(&g));
                        if w != g {
                            let d = diff_views(&[w], &[g]);
                            fails.push("C02", format!("{}:until_commit_differs:{}:{}", op.kind(), d, b), "replaying the log up to a commit differs from the reference reducer over the same prefix".into(), json!({"folder": fi, "commit_index": k}));
                        }
                    }
                    (Ok(_), Err(e)) => fails.push("C02", format!("{}:until_commit_error:{}", op.kind(), b), format!("{}", e), json!({"folder": fi, "commit_index": k})),
                    _ => {}
                }
            }
            // C12: after compaction/key change the log is 1 + live
            if m.compacted[fi] {
                let live = m.live_in(fi).len();
                if recs.len() != 1 + live {
                    fails.push("C12", format!("{}:log_not_compact:{}", op.kind(), b), format!("log has {} events, expected 1 creation event + {} live secrets", recs.len(), live), json!({"folder": fi}));
                }
            }
            Ok(())
        }
        .await;
        if let Err(e) = res {
            fails.push(
                "C02",
                format!("{}:oracle_error:{}", op.kind(), b),
                format!("could not evaluate replay/served/mirror: {}", e),
                json!({"folder": fi}),
            );
        }
    }
}

/// C20: incremental index == rebuilt index.
async fn check_c20(dev: &mut Dev, m: &Model, op: &Op, fails: &mut Fails) {
    let b = dev.backend.name();
    let res: Result<()> = async {
        let idx = dev.account.search_index().await?;
        let idx = idx.read().await;
        let mut fresh = SearchIndex::new();
        let archive = m
            .folders
            .iter()
            .find(|f| f.role == "archive" && f.alive)
            .map(|f| vid(&f.id));
        fresh.set_archive_id(archive);
        for mf in m.folders.iter().filter(|f| f.alive) {
            let folder = dev.account.folder(&vid(&mf.id)).await?;
            let ap = folder.access_point();
            let ap = ap.lock().await;
            fresh.add_folder(&ap).await?;
        }
        let proj = |i: &SearchIndex| -> Vec<Value> {
            i.values()
                .iter()
                .map(|d| {
                    json!({"folder": d.folder_id().to_string(), "id": d.id().to_string(), "meta": gen::meta_view(d.meta())})
                })
                .collect::<Vec<_>>()
        };
        let mut a = proj(&idx);
        let mut f = proj(&fresh);
        let key = |v: &Value| format!("{}{}", v["folder"], v["id"]);
        a.sort_by_key(key);
        f.sort_by_key(key);
        if a != f {
            let d = if a.len() > f.len() {
                "stale_or_extra_document"
            } else if a.len() < f.len() {
                "missing_document"
            } else {
                "document_content"
            };
            fails.push("C20", format!("{}:documents_differ:{}:{}", op.kind(), d, b), "incremental search index differs from an index rebuilt from the folders".into(), json!({"incremental": a.len(), "rebuilt": f.len()}));
        }
        // one document per live secret
        let live = m.secrets.iter().filter(|s| s.alive).count();
        if idx.len() != live {
            fails.push("C20", format!("{}:document_count:{}", op.kind(), b), format!("index holds {} documents for {} live secrets", idx.len(), live), json!({}));
        }
        // counters
        let stat = |i: &SearchIndex| -> Value {
            let c = i.statistics().count();
            let nz = |m: BTreeMap<String, usize>| -> BTreeMap<String, usize> {
                m.into_iter().filter(|(_, v)| *v > 0).collect()
            };
            json!({
                "vaults": nz(c.vaults().iter().map(|(k,v)| (k.to_string(), *v)).collect()),
                "kinds": nz(c.kinds().iter().map(|(k,v)| (k.to_string(), *v)).collect()),
                "tags": nz(c.tags().iter().map(|(k,v)| (k.clone(), *v)).collect()),
                "favorites": c.favorites(),
            })
        };
        let (sa, sf) = (stat(&idx), stat(&fresh));
        if sa != sf {
            let which = ["vaults", "kinds", "tags", "favorites"]
                .iter()
                .find(|k| sa[**k] != sf[**k])
                .unwrap();
            fails.push("C20", format!("{}:counters_differ({}):{}", op.kind(), which, b), "search index counters differ from a recount".into(), json!({"incremental": sa, "rebuilt": sf}));
        }
        // queries: every label of the model (alive or dead)
        for s in &m.secrets {
            for variant in [0u8, 1u8] {
                let label = format!("{}-label-v{}", s.kind, variant);
                let q = |i: &SearchIndex| -> Vec<String> {
                    let mut r: Vec<String> = i
                        .query_map(&label, |_| true)
                        .iter()
                        .map(|d| d.id().to_string())
                        .collect();
                    r.sort();
                    r
                };
                if q(&idx) != q(&fresh) {
                    fails.push("C20", format!("{}:query_differs:{}", op.kind(), b), "a query returns different documents from the incremental and the rebuilt index".into(), json!({"query": label}));
                    break;
                }
            }
        }
        Ok(())
    }
    .await;
    if let Err(e) = res {
        fails.push(
            "C20",
            format!("{}:oracle_error:{}", op.kind(), b),
            format!("{}", e),
            json!({}),
        );
    }
}

/// C16 soundness: untampered account reports no failure.
async fn check_c16(dev: &mut Dev, op: &Op, fails: &mut Fails) {
    let b = dev.backend.name();
    let res: Result<Vec<String>> = async {
        let folders = dev.account.list_folders().await?;
        let (mut rx, _cancel) =
            account_integrity(&dev.target, &dev.account_id, folders, 1)
                .await?;
        let mut failures = vec![];
        while let Some(ev) = tokio::time::timeout(
            std::time::Duration::from_secs(30),
            rx.recv(),
        )
        .await
        .map_err(|_| anyhow!("integrity report did not complete"))?
        {
            match ev {
                FolderIntegrityEvent::Failure(_, f) => {
                    failures.push(format!("{:?}", f));
                }
                FolderIntegrityEvent::Complete => break,
                _ => {}
            }
        }
        Ok(failures)
    }
    .await;
    match res {
        Ok(f) if !f.is_empty() => {
            let short: String = f[0]
                .split(|c: char| !c.is_ascii_alphanumeric())
                .next()
                .unwrap_or("")
                .to_string();
            fails.push("C16", format!("false_alarm:{}:{}", short, b), format!("integrity report of an untampered account contains a failure: {}", f[0].chars().take(160).collect::<String>()), json!({"after": op.kind()}));
        }
        Err(e) => fails.push(
            "C16",
            format!("report_error:{}", b),
            format!("{}", e),
            json!({}),
        ),
        _ => {}
    }
}

#[derive(Default, Serialize, Deserialize, Clone)]
struct Counters {
    c02_folder_checks: u64,
    c02_commit_checks: u64,
    reloads: u64,
    old_key_checks: u64,
    #[serde(default)]
    nonce_packs: u64,
}

/// C10 by-product: within everything a folder key has encrypted and the
/// folder still stores (event records + vault rows), no nonce occurs with
/// two different ciphertexts.
async fn check_nonces(
    dev: &Dev,
    m: &Model,
    op: &Op,
    fails: &mut Fails,
    counters: &mut Counters,
) {
    for (fi, f) in m.folders.iter().enumerate() {
        if !f.alive {
            continue;
        }
        if let Ok(packs) = stored_packs(dev, &vid(&f.id)).await {
            let mut seen: HashMap<Vec<u8>, Vec<u8>> = HashMap::new();
            for p in packs {
                counters.nonce_packs += 1;
                let n = p.nonce.as_ref().to_vec();
                if let Some(prev) = seen.get(&n) {
                    if prev != &p.ciphertext {
                        fails.push("C10", format!("nonce_reused_in_folder:{}", dev.backend.name()), "two different blobs stored by a folder carry the same nonce".into(), json!({"folder": fi, "after": op.kind()}));
                        break;
                    }
                } else {
                    seen.insert(n, p.ciphertext);
                }
            }
        }
    }
}

/// What is remembered about a folder before a maintenance op.
struct OldFolder {
    key: AccessKey,
    vault: Vault,
    pk: sos_core::crypto::PrivateKey,
    ciphertexts: Vec<Vec<u8>>,
}

async fn stored_packs(
    dev: &Dev,
    id: &VaultId,
) -> Result<Vec<sos_core::crypto::AeadPack>> {
    let mut packs = vec![];
    let log = dev.account.folder_log(id).await?;
    let log = log.read().await;
    let s = log.event_stream(false).await;
    futures::pin_mut!(s);
    while let Some(x) = s.next().await {
        let (_, e) = x?;
        match e {
            WriteEvent::CreateVault(bytes) => {
                let v: Vault = decode(&bytes).await?;
                if let Some(mm) = v.header().meta() {
                    packs.push(mm.clone());
                }
                for (_, c) in v.iter() {
                    packs.push(c.1 .0.clone());
                    packs.push(c.1 .1.clone());
                }
            }
            WriteEvent::SetVaultMeta(p) => packs.push(p),
            WriteEvent::CreateSecret(_, c) | WriteEvent::UpdateSecret(_, c) => {
                packs.push(c.1 .0.clone());
                packs.push(c.1 .1.clone());
            }
            _ => {}
        }
    }
    let mirror = mirror_vault(dev, id).await?;
    if let Some(mm) = mirror.header().meta() {
        packs.push(mm.clone());
    }
    for (_, c) in mirror.iter() {
        packs.push(c.1 .0.clone());
        packs.push(c.1 .1.clone());
    }
    Ok(packs)
}

async fn capture_old(dev: &Dev, m: &Model) -> HashMap<String, OldFolder> {
    use sos_core::crypto::{KeyDerivation, PrivateKey};
    let mut out = HashMap::new();
    for f in m.folders.iter().filter(|f| f.alive) {
        let id = vid(&f.id);
        let r: Result<OldFolder> = async {
            let key = dev.folder_key(&id).await?;
            let vault = mirror_vault(dev, &id).await?;
            let AccessKey::Password(p) = &key else {
                return Err(anyhow!("not a password key"));
            };
            let salt = KeyDerivation::parse_salt(
                vault.salt().ok_or_else(|| anyhow!("no salt"))?,
            )?;
            let pk = PrivateKey::Symmetric(vault.deriver().derive(
                p,
                &salt,
                vault.seed(),
            )?);
            let ciphertexts = stored_packs(dev, &id)
                .await?
                .into_iter()
                .map(|p| p.ciphertext)
                .filter(|c| c.len() >= 16)
                .collect();
            Ok(OldFolder {
                key,
                vault,
                pk,
                ciphertexts,
            })
        }
        .await;
        if let Ok(o) = r {
            out.insert(f.id.clone(), o);
        }
    }
    out
}

/// C12 key checks after a maintenance op.
async fn check_c12(
    dev: &mut Dev,
    m: &Model,
    op: &Op,
    old: &HashMap<String, OldFolder>,
    fails: &mut Fails,
    counters: &mut Counters,
) {
    let b = dev.backend.name();
    if !op.is_maint() {
        return;
    }
    let rekeyed: Vec<usize> = match op {
        Op::ChangeFolderPassword { f } => vec![*f],
        // the folders that were not yet on the target configuration
        Op::ChangeCipher => {
            let (cipher, kdf) = cipher_target(m.cipher);
            m.folders
                .iter()
                .enumerate()
                .filter(|(_, f)| f.alive)
                .filter(|(_, f)| old.get(&f.id).map(|o| o.vault.cipher() != &cipher || o.vault.kdf() != &kdf).unwrap_or(true))
                .map(|(i, _)| i)
                .collect()
        }
        _ => vec![],
    };
    // after a cipher change EVERY folder is on the target configuration
    if let Op::ChangeCipher = op {
        let (cipher, kdf) = cipher_target(m.cipher);
        for (fi, f) in m.folders.iter().enumerate().filter(|(_, f)| f.alive) {
            if let Ok(mirror) = mirror_vault(dev, &vid(&f.id)).await {
                if mirror.cipher() != &cipher || mirror.kdf() != &kdf {
                    fails.push("C12", format!("{}:folder_not_on_target_cipher:{}", op.kind(), b), format!("after change_cipher({:?}, {:?}) a folder uses {:?} / {:?}", cipher, kdf, mirror.cipher(), mirror.kdf()), json!({"folder": fi}));
                }
            }
        }
    }
    for fi in rekeyed {
        let id = vid(&m.folders[fi].id);
        let Some(o) = old.get(&m.folders[fi].id) else {
            continue;
        };
        let res: Result<()> = async {
            let mirror = mirror_vault(dev, &id).await?;
            let new = dev.folder_key(&id).await?;
            counters.old_key_checks += 1;
            if let Op::ChangeFolderPassword { .. } = op {
                if new == o.key {
                    fails.push("C12", format!("{}:folder_password_unchanged:{}", op.kind(), b), "the delegated folder password is the same after the change".into(), json!({"folder": fi}));
                }
                if mirror.verify(&o.key).await.is_ok() {
                    fails.push("C12", format!("{}:old_password_still_unlocks:{}", op.kind(), b), "the old folder password still unlocks the persisted vault".into(), json!({"folder": fi}));
                }
            }
            if let Op::ChangeCipher = op {
                let (cipher, kdf) = cipher_target(m.cipher);
                if mirror.cipher() != &cipher || mirror.kdf() != &kdf {
                    fails.push("C12", format!("{}:cipher_unchanged:{}", op.kind(), b), format!("after change_cipher({:?}, {:?}) the folder uses {:?} / {:?}", cipher, kdf, mirror.cipher(), mirror.kdf()), json!({"folder": fi}));
                }
            }
            if mirror.verify(&new).await.is_err() {
                fails.push("C12", format!("{}:new_key_does_not_unlock:{}", op.kind(), b), "the new folder key does not unlock the persisted vault".into(), json!({"folder": fi}));
            }
            // no stored blob (event log records + vault rows) decrypts
            // under the OLD derived key with the OLD cipher, and none is
            // byte-identical to an old blob
            let packs = stored_packs(dev, &id).await?;
            let oldset: HashSet<&Vec<u8>> = o.ciphertexts.iter().collect();
            for p in &packs {
                counters.old_key_checks += 1;
                if o.vault.decrypt(&o.pk, p).await.is_ok() {
                    fails.push("C12", format!("{}:blob_decrypts_under_old_key:{}", op.kind(), b), "a stored blob still decrypts under the old key".into(), json!({"folder": fi}));
                    break;
                }
                if p.ciphertext.len() >= 16 && oldset.contains(&p.ciphertext) {
                    fails.push("C12", format!("{}:old_blob_kept:{}", op.kind(), b), "a blob encrypted before the change is still stored".into(), json!({"folder": fi}));
                    break;
                }
            }
            Ok(())
        }
        .await;
        if let Err(e) = res {
            fails.push(
                "C12",
                format!("{}:oracle_error:{}", op.kind(), b),
                format!("{}", e),
                json!({"folder": fi}),
            );
        }
    }
}

/// Raw scan of every file of the data directory for ciphertexts that
/// were stored before a key change (at rest, after the account closed).
fn raw_scan_old(
    dir: &Path,
    m: &Model,
    op: &Op,
    old: &HashMap<String, OldFolder>,
    backend: Backend,
    account_log_bytes: &[u8],
    fails: &mut Fails,
) {
    let rekeyed: Vec<usize> = match op {
        Op::ChangeFolderPassword { f } => vec![*f],
        Op::ChangeCipher => {
            // only the folders that were not yet on the target are converted
            let (cipher, kdf) = cipher_target(m.cipher);
            (0..m.folders.len())
                .filter(|i| m.folders[*i].alive)
                .filter(|i| old.get(&m.folders[*i].id).map(|o| o.vault.cipher() != &cipher || o.vault.kdf() != &kdf).unwrap_or(true))
                .collect()
        }
        _ => return,
    };
    let files: Vec<(PathBuf, Vec<u8>)> = fsutil::walk_files(dir)
        .into_iter()
        .filter(|p| {
            // the account event log is not the folder's storage
            p.file_name().map(|n| n != "account.events").unwrap_or(true)
        })
        .filter_map(|p| std::fs::read(&p).ok().map(|b| (p, b)))
        .collect();
    for fi in rekeyed {
        let Some(o) = old.get(&m.folders[fi].id) else {
            continue;
        };
        'outer: for c in &o.ciphertexts {
            // blobs that the (append-only) account event log embeds,
            // e.g. the folder header inside its CreateFolder event, are
            // not part of the folder's own storage: skip them
            if memmem(account_log_bytes, c) {
                continue;
            }
            for (p, bytes) in &files {
                if memmem(bytes, c) {
                    let name = p
                        .file_name()
                        .map(|n| n.to_string_lossy().to_string())
                        .unwrap_or_default();
                    let kind = if name.contains("wal") {
                        "sqlite_wal"
                    } else if name.ends_with(".db") {
                        "sqlite_file"
                    } else if name.contains("snapshot") {
                        "snapshot_file"
                    } else {
                        "file"
                    };
                    fails.push("C12", format!("{}:old_ciphertext_at_rest({}):{}", op.kind(), kind, backend.name()), "bytes of a blob encrypted under the old key are still present in the folder's storage at rest".into(), json!({"folder": fi, "file": name}));
                    break 'outer;
                }
            }
        }
    }
}

fn memmem(h: &[u8], n: &[u8]) -> bool {
    if n.is_empty() || h.len() < n.len() {
        return false;
    }
    let first = n[0];
    let mut i = 0;
    while i + n.len() <= h.len() {
        match h[i..=h.len() - n.len()].iter().position(|b| *b == first) {
            None => return false,
            Some(p) => {
                i += p;
                if &h[i..i + n.len()] == n {
                    return true;
                }
                i += 1;
            }
        }
    }
    false
}

// ------------------------------------------------------------ expansion

#[derive(Clone, Serialize, Deserialize)]
struct StateItem {
    hist: Vec<Op>,
    model: Model,
    dir: String,
    backend: Backend,
    account_id: String,
}

/// Execute one transition from a parent snapshot; returns (successor
/// model, snapshot dir, canonical key, failures).
#[allow(clippy::too_many_arguments)]
async fn transition(
    parent: &StateItem,
    session_prefix: &[Op],
    op: &Op,
    p: &Profile,
    out_dir: &Path,
    counters: &mut Counters,
    old_blobs: &mut Vec<Vec<u8>>,
) -> (Option<(Model, String)>, Fails) {
    let mut fails = Fails::default();
    let _ = std::fs::remove_dir_all(out_dir);
    if let Err(e) = fsutil::copy_dir(Path::new(&parent.dir), out_dir) {
        fails.push("MACH", "copy".into(), format!("{}", e), json!({}));
        return (None, fails);
    }
    clock::install();
    clock::set_tick(0, 1000 * (parent.hist.len() as i64 + 1));
    let account_id: sos_core::AccountId = parent.account_id.parse().unwrap();
    let mut m = parent.model.clone();
    let b = parent.backend;
    let mut dev =
        match Dev::open(out_dir, b, account_id, pw(m.password)).await {
            Ok(d) => d,
            Err(e) => {
                fails.push("C01", format!("{}:reopen_parent_failed:{}", op.kind(), b.name()), format!("opening the persisted parent state failed: {}", e), json!({}));
                return (None, fails);
            }
        };
    let _ = dev.account.initialize_search_index().await;
    // session mode: the whole history runs in this one signed-in
    // session (in-memory state carries over from operation to operation)
    for (i, pre) in session_prefix.iter().enumerate() {
        if let Err(e) = apply(&mut dev, &mut m, pre).await {
            fails.push("MACH", "prefix".into(), format!("replaying prefix op {} ({}) failed: {}", i, pre.kind(), e), json!({}));
            dev.close().await;
            return (None, fails);
        }
    }
    // remember old folder keys / blobs for C12
    let old_keys = if op.is_maint() {
        capture_old(&dev, &m).await
    } else {
        HashMap::new()
    };
    let _ = old_blobs;
    let before = m.clone();
    if let Err(e) = apply(&mut dev, &mut m, op).await {
        let prop = if op.is_maint() { "C12" } else { "C01" };
        fails.push(
            prop,
            format!("{}:operation_failed:{}", op.kind(), b.name()),
            format!("an operation the model allows failed: {}", e),
            json!({}),
        );
        dev.close().await;
        return (None, fails);
    }
    // read-your-writes
    let live_view = check_view(&mut dev, &m, "after_op", op, &mut fails).await;
    if op.is_maint() {
        // C12 restates the data-preservation half
        if let Some(v) = &live_view {
            if view_to_sorted(v) != before.expected_view() {
                let d = diff_views(&before.expected_view(), &view_to_sorted(v));
                fails.push("C12", format!("{}:data_changed:{}:{}", op.kind(), d, b.name()), "a maintenance operation changed folder names/flags/descriptions or decrypted secrets".into(), json!({}));
            }
        }
    }
    check_c02(&mut dev, &m, op, &mut fails, counters).await;
    check_c20(&mut dev, &m, op, &mut fails).await;
    check_c16(&mut dev, op, &mut fails).await;
    check_c12(&mut dev, &m, op, &old_keys, &mut fails, counters).await;
    check_nonces(&dev, &m, op, &mut fails, counters).await;
    // lock / unlock every folder then read again
    let mut lock_ok = true;
    for f in m.folders.iter().filter(|f| f.alive) {
        let id = vid(&f.id);
        if let (Ok(mut folder), Ok(key)) =
            (dev.account.folder(&id).await, dev.folder_key(&id).await)
        {
            folder.lock().await;
            if folder.unlock(&key).await.is_err() {
                lock_ok = false;
            }
        }
    }
    if !lock_ok {
        fails.push(
            "C01",
            format!("{}:unlock_failed:{}", op.kind(), b.name()),
            "unlocking a folder with its own key failed".into(),
            json!({}),
        );
    }
    check_view(&mut dev, &m, "after_lock_unlock", op, &mut fails).await;
    if p.relogin_same_object {
        let key: AccessKey = pw(m.password).into();
        let r: Result<()> = async {
            dev.account.sign_out().await?;
            dev.account.sign_in(&key).await?;
            Ok(())
        }
        .await;
        match r {
            Ok(_) => {
                check_view(&mut dev, &m, "after_relogin", op, &mut fails)
                    .await;
            }
            Err(e) => fails.push(
                "C01",
                format!("{}:relogin_failed:{}", op.kind(), b.name()),
                format!("{}", e),
                json!({}),
            ),
        }
    }
    // log shape for the state key
    let mut shape = vec![];
    for f in m.folders.iter().filter(|f| f.alive) {
        if let Ok(log) = dev.account.folder_log(&vid(&f.id)).await {
            let log = log.read().await;
            shape.push(log.tree().len());
        }
    }
    let mut account_log_bytes = vec![];
    if op.is_maint() {
        if let Ok(log) = dev.account.account_log().await {
            let log = log.read().await;
            let st = log.record_stream(false).await;
            futures::pin_mut!(st);
            while let Some(Ok(r)) = st.next().await {
                account_log_bytes.extend_from_slice(r.event_bytes());
            }
        }
    }
    dev.close().await;
    raw_scan_old(out_dir, &m, op, &old_keys, b, &account_log_bytes, &mut fails);
    // reload from persisted storage with a fresh object
    counters.reloads += 1;
    match Dev::open(out_dir, b, account_id, pw(m.password)).await {
        Ok(mut d2) => {
            check_view(&mut d2, &m, "after_reload", op, &mut fails).await;
            if op.is_maint() {
                // old account password must not sign in any more
                if let Op::ChangeAccountPassword = op {
                    let old: AccessKey = pw(before.password).into();
                    if d2.account.verify(&old).await {
                        fails.push("C12", format!("{}:old_account_password_still_verifies:{}", op.kind(), b.name()), "the old account password still verifies after the change".into(), json!({}));
                    }
                }
            }
            d2.close().await;
        }
        Err(e) => {
            let prop = if op.is_maint() { "C12" } else { "C01" };
            fails.push(
                prop,
                format!("{}:reload_failed:{}", op.kind(), b.name()),
                format!("fresh sign-in on the persisted state failed: {}", e),
                json!({}),
            );
        }
    }
    if let Op::ChangeAccountPassword = op {
        // the old password must be refused by a fresh sign-in
        let old = pw(before.password);
        if let Ok(d3) = Dev::open(out_dir, b, account_id, old).await {
            fails.push("C12", format!("{}:old_account_password_signs_in:{}", op.kind(), b.name()), "a fresh sign-in with the old account password succeeds".into(), json!({}));
            d3.close().await;
        }
    }
    let canon = format!("{} L{:?}", m.canon(p.maint_words > 0), shape);
    (Some((m, canon)), fails)
}

#[derive(Clone, Serialize, Deserialize)]
struct WorkItem {
    state: usize,
    op: Op,
}

async fn expand(
    item: &StateItem,
    session_prefix: &[Op],
    op: &Op,
    p: &Profile,
    succ_root: &Path,
    idx: usize,
) -> Value {
    let mut counters = Counters::default();
    let mut blobs = vec![];
    let dir = succ_root.join(format!("s{}", idx));
    let (succ, fails) = transition(
        item,
        session_prefix,
        op,
        p,
        &dir,
        &mut counters,
        &mut blobs,
    )
    .await;
    if p.session {
        // successors are re-created by re-executing the path
        let _ = std::fs::remove_dir_all(&dir);
    }
    let f: Vec<Value> = fails.0.iter().map(|(pp,s,w,d)| json!({"prop":pp,"sig":s,"what":w,"detail":d})).collect();
    let out = match succ {
        Some((m, canon)) => json!({"op": op, "model": m, "canon": canon, "dir": dir.to_string_lossy(), "fails": f}),
        None => {
            let _ = std::fs::remove_dir_all(&dir);
            json!({"op": op, "fails": f})
        }
    };
    json!({"succ": [out], "counters": counters})
}


// ------------------------------------------------ folder-level id reuse

/// C01 at the `Folder` API, where callers choose secret ids: every
/// sequence up to the depth over {create(id0, v), create(id0, v') again,
/// update(id0), delete(id0), create(id1)}; read-your-writes on the live
/// folder and after a fresh sign-in (model: a write that returns Ok
/// replaces the value, a refused write changes nothing; ids are unique).
const FOLDER_OPS: [&str; 5] = ["create0", "create0b", "update0", "delete0", "create1"];

fn folder_seq(mut idx: usize, depth: usize) -> Vec<&'static str> {
    let mut len = 1;
    let mut count = FOLDER_OPS.len();
    while idx >= count {
        idx -= count;
        len += 1;
        count *= FOLDER_OPS.len();
    }
    let _ = depth;
    let mut v = vec![];
    for _ in 0..len {
        v.push(FOLDER_OPS[idx % FOLDER_OPS.len()]);
        idx /= FOLDER_OPS.len();
    }
    v
}

fn folder_seq_total(depth: usize) -> usize {
    let mut t = 0;
    let mut c = 1;
    for _ in 0..depth {
        c *= FOLDER_OPS.len();
        t += c;
    }
    t
}

async fn folder_api_case(init: &StateItem, seq: &[&str], work: &Path) -> Value {
    let mut fails: Vec<Value> = vec![];
    let b = init.backend;
    let r: Result<()> = async {
        let _ = std::fs::remove_dir_all(work);
        fsutil::copy_dir(Path::new(&init.dir), work)?;
        clock::install();
        clock::set_tick(0, 50_000);
        let account_id: sos_core::AccountId = init.account_id.parse().unwrap();
        let dev = Dev::open(work, b, account_id, pw(0)).await?;
        let fid = vid(&init.model.folders[0].id);
        let mut folder = dev.account.folder(&fid).await?;
        let id0 = SecretId::from_bytes([0x10; 16]);
        let id1 = SecretId::from_bytes([0x11; 16]);
        // model: id -> (meta, value)
        let mut model: BTreeMap<String, (Value, Value)> = BTreeMap::new();
        for s in init.model.secrets.iter().filter(|s| s.alive && s.folder == 0) {
            model.insert(s.id.clone(), (s.meta.clone(), s.value.clone()));
        }
        let names: Vec<String> = seq.iter().map(|s| s.to_string()).collect();
        for (i, op) in seq.iter().enumerate() {
            let (id, variant, marker) = match *op {
                "create0" => (id0, 0u8, "fa0"),
                "create0b" => (id0, 1u8, "fa0b"),
                "update0" => (id0, 1u8, "fa0u"),
                "create1" => (id1, 0u8, "fa1"),
                _ => (id0, 0u8, ""),
            };
            let (meta, secret) = gen::secret("note", variant, marker);
            let (mv, sv) = (gen::meta_view(&meta), gen::secret_view(&secret));
            match *op {
                "create0" | "create0b" | "create1" => {
                    let row = sos_vault::secret::SecretRow::new(id, meta, secret);
                    if folder.create_secret(&row).await.is_ok() {
                        model.insert(id.to_string(), (mv, sv));
                    }
                }
                "update0" => {
                    if let Ok(Some(_)) = folder.update_secret(&id, meta, secret).await {
                        model.insert(id.to_string(), (mv, sv));
                    }
                }
                "delete0" => {
                    if let Ok(Some(_)) = folder.delete_secret(&id).await {
                        model.remove(&id.to_string());
                    }
                }
                _ => {}
            }
            // live read-your-writes through the same folder
            for (sid_s, (m, v)) in &model {
                match folder.read_secret(&sid(sid_s)).await {
                    Ok(Some((gm, gs, _))) => {
                        if gen::meta_view(&gm) != *m || gen::secret_view(&gs) != *v {
                            fails.push(json!({"sig": format!("folder_api:{}:live_read_returns_older_write:{}", op, b.name()), "what": "reading a secret through the folder does not return the data of the last successful write", "detail": {"seq": names, "step": i}}));
                        }
                    }
                    _ => fails.push(json!({"sig": format!("folder_api:{}:live_read_missing:{}", op, b.name()), "what": "a live secret cannot be read through the folder", "detail": {"seq": names, "step": i}})),
                }
            }
        }
        dev.close().await;
        // fresh sign-in: same answers from persisted storage
        let mut d2 = Dev::open(work, b, account_id, pw(0)).await.map_err(|e| anyhow!("reload: {}", e))?;
        let ids = d2.account.list_secret_ids(&fid).await?;
        let mut listed: Vec<String> = ids.iter().map(|i| i.to_string()).collect();
        let n_listed = listed.len();
        listed.sort();
        listed.dedup();
        let last = seq.last().copied().unwrap_or("");
        if listed.len() != n_listed {
            fails.push(json!({"sig": format!("folder_api:{}:duplicate_id_after_reload:{}", last, b.name()), "what": "after a fresh sign-in the folder lists the same secret id more than once", "detail": {"seq": names}}));
        }
        let want: Vec<String> = model.keys().cloned().collect();
        if listed != want {
            fails.push(json!({"sig": format!("folder_api:{}:listing_differs_after_reload:{}", last, b.name()), "what": "after a fresh sign-in the folder does not list exactly the live ids", "detail": {"seq": names, "listed": listed.len(), "want": want.len()}}));
        }
        for (sid_s, (m, v)) in &model {
            match d2.account.read_secret(&sid(sid_s), Some(&fid)).await {
                Ok((row, _)) => {
                    if gen::meta_view(row.meta()) != *m || gen::secret_view(row.secret()) != *v {
                        fails.push(json!({"sig": format!("folder_api:{}:reload_returns_other_write:{}", last, b.name()), "what": "after a fresh sign-in a secret does not carry the data of the last successful write", "detail": {"seq": names}}));
                    }
                }
                Err(e) => fails.push(json!({"sig": format!("folder_api:{}:reload_read_failed:{}", last, b.name()), "what": format!("after a fresh sign-in a live secret cannot be read: {}", e), "detail": {"seq": names}})),
            }
        }
        d2.close().await;
        Ok(())
    }
    .await;
    if let Err(e) = r {
        let msg: String = e.to_string().chars().filter(|c| !c.is_ascii_digit()).take(60).collect();
        fails.push(json!({"sig": format!("folder_api:error:{}:{}", msg, b.name()), "what": format!("{}", e), "detail": {"seq": seq}}));
    }
    json!({"fails": fails})
}

const COPY_OPS: &[&str] = &[
    "delete_in_original", "delete_in_copy", "update_in_original", "update_in_copy", "move_from_copy", "archive_from_copy",
    "delete_copy_folder", "delete_original_folder", "create_in_copy", "nothing",
];

/// Folder copy (C20): the default folder is exported and imported again as
/// a copy (new folder id, SAME secret ids), then one operation is applied
/// to the original or to the copy; the incremental index must equal an
/// index rebuilt from the unlocked folders (documents, counters, queries).
async fn folder_copy_case(init: &StateItem, opi: usize, work: &Path) -> Value {
    let b = init.backend;
    let opname = COPY_OPS[opi];
    let mut fails: Vec<Value> = vec![];
    let r: Result<()> = async {
        let _ = std::fs::remove_dir_all(work);
        fsutil::copy_dir(Path::new(&init.dir), work)?;
        clock::install();
        clock::set_tick(0, 110_000);
        let account_id: sos_core::AccountId = init.account_id.parse().unwrap();
        let mut dev = Dev::open(work, b, account_id, pw(0)).await?;
        let _ = dev.account.initialize_search_index().await;
        let orig = vid(&init.model.folders[0].id);
        let other = vid(&init.model.folders[2].id);
        // two secrets in the original so that label order matters
        let (m1, s1) = gen::secret("note", 1, "copy-b");
        dev.account.create_secret(m1, s1, AccessOptions { folder: Some(orig), ..Default::default() }).await?;
        let sid0 = dev.account.list_secret_ids(&orig).await?.first().copied().ok_or_else(|| anyhow!("no secret in the default folder"))?;
        let key = AccessKey::Password(secrecy::SecretString::new("folder-copy-password-for-the-export".to_string().into()));
        let buf = dev.account.export_folder_buffer(&orig, key.clone(), false).await?;
        let copy = *dev.account.import_folder_buffer(&buf, key, false).await?.folder.id();
        if copy == orig {
            return Err(anyhow!("the imported copy kept the folder id"));
        }
        let in_f = |f: VaultId| AccessOptions { folder: Some(f), ..Default::default() };
        let (um, us) = gen::secret("note", 0, "copy-renamed");
        let res: Result<()> = async {
            match opname {
                "delete_in_original" => { dev.account.delete_secret(&sid0, in_f(orig)).await?; }
                "delete_in_copy" => { dev.account.delete_secret(&sid0, in_f(copy)).await?; }
                "update_in_original" => { dev.account.update_secret(&sid0, um.clone(), Some(us.clone()), in_f(orig)).await?; }
                "update_in_copy" => { dev.account.update_secret(&sid0, um.clone(), Some(us.clone()), in_f(copy)).await?; }
                "move_from_copy" => { dev.account.move_secret(&sid0, &copy, &other, Default::default()).await?; }
                "archive_from_copy" => { dev.account.archive(&copy, &sid0, Default::default()).await?; }
                "delete_copy_folder" => { dev.account.delete_folder(&copy).await?; }
                "delete_original_folder" => { dev.account.delete_folder(&orig).await?; }
                "create_in_copy" => { let (m, s) = gen::secret("login", 1, "copy-new"); dev.account.create_secret(m, s, in_f(copy)).await?; }
                _ => {}
            }
            Ok(())
        }
        .await;
        let applied = res.is_ok();
        // oracle: incremental index == index rebuilt from all folders
        let idx = dev.account.search_index().await?;
        let idx = idx.read().await;
        let mut fresh = SearchIndex::new();
        let folders = dev.account.list_folders().await?;
        fresh.set_archive_id(folders.iter().find(|f| f.flags().is_archive()).map(|f| *f.id()));
        for f in &folders {
            let folder = dev.account.folder(f.id()).await?;
            let ap = folder.access_point();
            let ap = ap.lock().await;
            fresh.add_folder(&ap).await?;
        }
        let proj = |i: &SearchIndex| -> Vec<Value> {
            let mut v: Vec<Value> = i.values().iter().map(|d| json!({"folder": d.folder_id().to_string(), "id": d.id().to_string(), "meta": gen::meta_view(d.meta())})).collect();
            v.sort_by_key(|v| format!("{}{}", v["folder"], v["id"]));
            v
        };
        let (a, f) = (proj(&idx), proj(&fresh));
        let tag = format!("{}{}", opname, if applied { "" } else { "(refused)" });
        if a != f {
            let d = if a.len() > f.len() { "stale_or_extra_document" } else if a.len() < f.len() { "missing_document" } else { "document_content" };
            fails.push(json!({"sig": format!("folder_copy:{}:documents_differ:{}:{}", tag, d, b.name()), "what": "after copying a folder (same secret ids in two folders) and one operation the incremental search index differs from an index rebuilt from the folders", "detail": {"operation": opname, "incremental": a.len(), "rebuilt": f.len()}}));
        }
        let stat = |i: &SearchIndex| -> Value {
            let c = i.statistics().count();
            let nz = |m: BTreeMap<String, usize>| -> BTreeMap<String, usize> { m.into_iter().filter(|(_, v)| *v > 0).collect() };
            json!({"vaults": nz(c.vaults().iter().map(|(k, v)| (k.to_string(), *v)).collect()), "kinds": nz(c.kinds().iter().map(|(k, v)| (k.to_string(), *v)).collect()), "tags": nz(c.tags().iter().map(|(k, v)| (k.clone(), *v)).collect()), "favorites": c.favorites()})
        };
        if stat(&idx) != stat(&fresh) {
            fails.push(json!({"sig": format!("folder_copy:{}:counters_differ:{}", tag, b.name()), "what": "after copying a folder and one operation the search index counters differ from a recount", "detail": {"operation": opname}}));
        }
        for label in ["note-label-v0", "note-label-v1", "login-label-v0", "login-label-v1", "copy"] {
            let q = |i: &SearchIndex| -> Vec<String> {
                let mut r: Vec<String> = i.query_map(label, |_| true).iter().map(|d| format!("{}/{}", d.folder_id(), d.id())).collect();
                r.sort();
                r
            };
            if q(&idx) != q(&fresh) {
                fails.push(json!({"sig": format!("folder_copy:{}:query_differs:{}", tag, b.name()), "what": "after copying a folder and one operation a query returns different documents from the incremental and the rebuilt index", "detail": {"operation": opname, "query": label}}));
                break;
            }
        }
        drop(idx);
        dev.close().await;
        Ok(())
    }
    .await;
    if let Err(e) = r {
        let msg: String = e.to_string().chars().filter(|c| !c.is_ascii_digit()).take(60).collect();
        fails.push(json!({"sig": format!("folder_copy:error:{}:{}", msg, b.name()), "what": format!("{}", e), "detail": {"operation": opname}}));
    }
    json!({"fails": fails})
}

/// Value sweep (C01): every secret value of the structure enumerator (all
/// kinds x every optional field present / absent x user-data shapes) is
/// created through the account, read back at once and again after a fresh
/// sign-in from persisted storage.
async fn value_sweep_case(init: &StateItem, work: &Path) -> Value {
    let b = init.backend;
    let mut fails: Vec<Value> = vec![];
    let (mut created, mut refused) = (0u64, 0u64);
    let r: Result<()> = async {
        let _ = std::fs::remove_dir_all(work);
        fsutil::copy_dir(Path::new(&init.dir), work)?;
        clock::install();
        clock::set_tick(0, 90_000);
        let account_id: sos_core::AccountId = init.account_id.parse().unwrap();
        let mut dev = Dev::open(work, b, account_id, pw(0)).await?;
        let fid = vid(&init.model.folders[0].id);
        let opts = || AccessOptions { folder: Some(fid), ..Default::default() };
        let mut want: Vec<(SecretId, String, Value)> = vec![];
        for (i, case) in vkit::vals::secrets().into_iter().enumerate() {
            // external file content needs a real file: the file engine covers it
            if let sos_vault::secret::Secret::File { content: sos_vault::secret::FileContent::External { .. }, .. } = &case.value {
                continue;
            }
            let meta = sos_vault::secret::SecretMeta::new(format!("value-{}", i), case.value.kind());
            let view = gen::secret_view(&case.value);
            match dev.account.create_secret(meta, case.value.clone(), opts()).await {
                Ok(r) => {
                    created += 1;
                    want.push((r.id, case.label.clone(), view.clone()));
                    match dev.account.read_secret(&r.id, Some(&fid)).await {
                        Ok((row, _)) => {
                            if gen::secret_view(row.secret()) != view {
                                if std::env::var("HIST_DEBUG").is_ok() {
                                    eprintln!("VALUE-SWEEP {} want={} got={}", case.label, view, gen::secret_view(row.secret()));
                                }
                                fails.push(json!({"sig": format!("value_sweep:live_read_differs:{}:{}", case.label.split('/').next().unwrap_or(""), b.name()), "what": "a secret read back right after it was created differs from what was written", "detail": {"case": case.label}}));
                            }
                        }
                        Err(e) => fails.push(json!({"sig": format!("value_sweep:live_read_failed:{}:{}", case.label.split('/').next().unwrap_or(""), b.name()), "what": format!("a secret cannot be read right after it was created: {}", e), "detail": {"case": case.label}})),
                    }
                }
                Err(_) => refused += 1,
            }
        }
        dev.close().await;
        let mut d2 = Dev::open(work, b, account_id, pw(0)).await.map_err(|e| anyhow!("reload: {}", e))?;
        for (id, label, view) in &want {
            match d2.account.read_secret(id, Some(&fid)).await {
                Ok((row, _)) => {
                    if gen::secret_view(row.secret()) != *view {
                        fails.push(json!({"sig": format!("value_sweep:reload_read_differs:{}:{}", label.split('/').next().unwrap_or(""), b.name()), "what": "after a fresh sign-in a secret differs from what was written", "detail": {"case": label}}));
                    }
                }
                Err(e) => fails.push(json!({"sig": format!("value_sweep:reload_read_failed:{}:{}", label.split('/').next().unwrap_or(""), b.name()), "what": format!("after a fresh sign-in a secret cannot be read: {}", e), "detail": {"case": label}})),
            }
        }
        // large folder: more than 2 MiB of rows in one folder, then the
        // folder header is rewritten (rename, description); everything must
        // still be listed and readable, live and after a fresh sign-in
        let mut large: Vec<(SecretId, Value)> = vec![];
        for i in 0..3 {
            let (meta, secret) = gen::secret("note", 3, &format!("large-{}", i));
            let view = gen::secret_view(&secret);
            let id = d2.account.create_secret(meta, secret, opts()).await?.id;
            large.push((id, view));
        }
        d2.account.rename_folder(&fid, "renamed large folder".to_string()).await?;
        d2.account.set_folder_description(&fid, "description of a large folder").await?;
        for stage in ["live", "reload"] {
            if stage == "reload" {
                d2.close().await;
                d2 = Dev::open(work, b, account_id, pw(0)).await.map_err(|e| anyhow!("reload of the large folder: {}", e))?;
            }
            let listed: HashSet<SecretId> = match d2.account.list_secret_ids(&fid).await {
                Ok(v) => v.into_iter().collect(),
                Err(e) => {
                    fails.push(json!({"sig": format!("large_folder:{}_listing_failed:{}", stage, b.name()), "what": format!("a folder holding more than 2 MiB cannot be listed after its header was rewritten: {}", e), "detail": {}}));
                    continue;
                }
            };
            for (id, view) in &large {
                if !listed.contains(id) {
                    fails.push(json!({"sig": format!("large_folder:{}_listing_lacks_secret:{}", stage, b.name()), "what": "a secret of a large folder is not listed after the folder header was rewritten", "detail": {}}));
                    continue;
                }
                match d2.account.read_secret(id, Some(&fid)).await {
                    Ok((row, _)) if gen::secret_view(row.secret()) == *view => {}
                    Ok(_) => fails.push(json!({"sig": format!("large_folder:{}_read_differs:{}", stage, b.name()), "what": "a large secret reads back differently after the folder header was rewritten", "detail": {}})),
                    Err(e) => fails.push(json!({"sig": format!("large_folder:{}_read_failed:{}", stage, b.name()), "what": format!("a large secret cannot be read after the folder header was rewritten: {}", e), "detail": {}})),
                }
            }
            for (id, _, _) in want.iter().take(5) {
                if !listed.contains(id) {
                    fails.push(json!({"sig": format!("large_folder:{}_listing_lacks_secret:{}", stage, b.name()), "what": "a secret of a large folder is not listed after the folder header was rewritten", "detail": {}}));
                }
            }
        }
        d2.close().await;
        Ok(())
    }
    .await;
    if let Err(e) = r {
        let msg: String = e.to_string().chars().filter(|c| !c.is_ascii_digit()).take(60).collect();
        fails.push(json!({"sig": format!("value_sweep:error:{}:{}", msg, b.name()), "what": format!("{}", e), "detail": {}}));
    }
    json!({"fails": fails, "created": created, "refused": refused})
}

/// The operations of the editing device in a forced-overwrite case: they
/// touch only folders that exist on both devices.
fn fm_ops(m: &Model, _p: &Profile) -> Vec<Op> {
    let mut out: Vec<Op> = vec![];
    for f in [0usize, 2] {
        if m.folders.get(f).map(|x| x.alive) == Some(true) {
            out.push(Op::Create { f, kind: "note".into(), variant: 0 });
        }
    }
    for (i, s) in m.secrets.iter().enumerate() {
        if !s.alive {
            continue;
        }
        out.push(Op::Update { s: i, with_value: true });
        out.push(Op::Update { s: i, with_value: false });
        out.push(Op::Delete { s: i });
        if m.folders[s.folder].role != "archive" {
            out.push(Op::Archive { s: i });
            out.push(Op::Move { s: i, to: if s.folder == 0 { 2 } else { 0 } });
        }
    }
    for f in [0usize, 2] {
        if m.folders.get(f).map(|x| x.alive) == Some(true) {
            out.push(Op::RenameFolder { f });
            out.push(Op::SetDescription { f });
            if m.folders[f].role == "user" {
                out.push(Op::SetFlags { f });
            }
            out.push(Op::CompactFolder { f });
        }
    }
    out
}

const FM_WIDTH: usize = 24;

/// Forced overwrite (C02, C20): device 1 performs a history, device 2 (a
/// copy of the same initial account) diverges or not, then device 2 takes
/// the complete folder logs of device 1 with `force_merge_folder`. On
/// device 2: view == device 1's model, replay == served == mirror, index
/// == rebuilt index; the same after a fresh sign-in.
async fn force_merge_case(init: &StateItem, p: &Profile, idx: &[usize], diverge: bool, work: &Path) -> Value {
    use sos_sync::{ForceMerge, MergeOutcome};
    let b = init.backend;
    let mut fails = Fails::default();
    let mut counters = Counters::default();
    let mut hist: Vec<Op> = vec![];
    let r: Result<bool> = async {
        let _ = std::fs::remove_dir_all(work);
        let (w1, w2) = (work.join("d1"), work.join("d2"));
        fsutil::copy_dir(Path::new(&init.dir), &w1)?;
        fsutil::copy_dir(Path::new(&init.dir), &w2)?;
        clock::install();
        clock::set_tick(0, 70_000);
        let account_id: sos_core::AccountId = init.account_id.parse().unwrap();
        let mut d1 = Dev::open(&w1, b, account_id, pw(0)).await?;
        let mut m1 = init.model.clone();
        for i in idx {
            let ops = fm_ops(&m1, p);
            let Some(op) = ops.get(*i).cloned() else {
                d1.close().await;
                return Ok(false);
            };
            apply(&mut d1, &mut m1, &op).await.map_err(|e| anyhow!("device 1 {}: {}", op.kind(), e))?;
            hist.push(op);
        }
        let mut d2 = Dev::open(&w2, b, account_id, pw(0)).await?;
        let _ = d2.account.initialize_search_index().await;
        let mut m2 = init.model.clone();
        if diverge {
            apply(&mut d2, &mut m2, &Op::Create { f: 0, kind: "note".into(), variant: 1 }).await.map_err(|e| anyhow!("device 2 create: {}", e))?;
        }
        for mf in m1.folders.iter().filter(|f| f.alive) {
            let id = vid(&mf.id);
            let diff = {
                let log = d1.account.folder_log(&id).await?;
                let log = log.read().await;
                log.diff_unchecked().await?
            };
            let mut outcome = MergeOutcome::default();
            d2.account.force_merge_folder(&id, diff, &mut outcome).await.map_err(|e| anyhow!("force_merge_folder: {}", e))?;
        }
        d1.close().await;
        let last = hist.last().cloned().unwrap_or(Op::CreateFolder);
        check_view(&mut d2, &m1, "after_force_merge", &last, &mut fails).await;
        check_c02(&mut d2, &m1, &last, &mut fails, &mut counters).await;
        check_c20(&mut d2, &m1, &last, &mut fails).await;
        d2.close().await;
        let mut d3 = Dev::open(&w2, b, account_id, pw(0)).await.map_err(|e| anyhow!("reload: {}", e))?;
        check_view(&mut d3, &m1, "after_force_merge_and_reload", &last, &mut fails).await;
        check_c02(&mut d3, &m1, &last, &mut fails, &mut counters).await;
        d3.close().await;
        Ok(true)
    }
    .await;
    let mut out: Vec<Value> = vec![];
    let executed = match r {
        Ok(x) => x,
        Err(e) => {
            let msg: String = e.to_string().chars().filter(|c| !c.is_ascii_digit()).take(70).collect();
            out.push(json!({"prop": "C02", "sig": format!("force_merge:error:{}:{}", msg, b.name()), "what": format!("{}", e), "detail": {"history": hist, "diverge": diverge}}));
            true
        }
    };
    for (prop, sig, what, detail) in fails.0 {
        // the view oracle files under C01/C12: a folder that does not match
        // the overwriting log after a forced overwrite is a C02 matter
        let prop = if prop == "C20" { "C20" } else { "C02" };
        out.push(json!({"prop": prop, "sig": format!("force_merge:{}", sig), "what": format!("after device 2 took device 1's folder logs with force_merge_folder: {}", what), "detail": {"history": hist, "diverge": diverge, "backend": b.name(), "oracle": detail}}));
    }
    json!({"fails": out, "executed": executed, "folder_checks": counters.c02_folder_checks, "commit_checks": counters.c02_commit_checks})
}

fn rt() -> tokio::runtime::Runtime {
    tokio::runtime::Builder::new_multi_thread()
        .worker_threads(2)
        .enable_all()
        .build()
        .unwrap()
}

async fn initial_state(
    dir: &Path,
    backend: Backend,
    rich: bool,
    second_user_folder: bool,
) -> Result<StateItem> {
    clock::install();
    let mut dev = Dev::create(dir, backend, "verif-account", true).await?;
    // the user folder is created WITH a flag, so that the first set_flags
    // operation clears a bit that the folder's creation event carries
    // (compaction must not bring it back)
    let r = dev
        .account
        .create_folder(NewFolderOptions {
            flags: Some(VaultFlags::NO_SYNC),
            // the default and archive folders use the default cipher
            // (AES-GCM-256): this one covers XChaCha20-Poly1305
            cipher: Some(Cipher::XChaCha20Poly1305),
            ..NewFolderOptions::new("folder-2".to_string())
        })
        .await?;
    let folders = dev.account.list_folders().await?;
    let mut mf = vec![];
    // slot 0 = default, 1 = archive, 2 = user folder
    let default = folders.iter().find(|f| f.flags().is_default()).unwrap();
    let archive = folders.iter().find(|f| f.flags().is_archive()).unwrap();
    for (s, role) in [
        (default, "default"),
        (archive, "archive"),
        (&r.folder, "user"),
    ] {
        mf.push(MFolder {
            id: s.id().to_string(),
            name: s.name().to_string(),
            flags: s.flags().bits(),
            description: String::new(),
            alive: true,
            role: role.to_string(),
        });
    }
    let account_id = dev.account_id.to_string();
    let mut model = Model {
        folders: mf,
        secrets: vec![],
        password: 0,
        cipher: 0,
        maint: 0,
        edits: 0,
        compacted: vec![false; 3],
    };
    if second_user_folder {
        apply(&mut dev, &mut model, &Op::CreateFolder).await?;
        // two folders of the account carry the same name (nothing forbids
        // it): maintenance operations must keep both names
        let last = model.folders.len() - 1;
        dev.account.rename_folder(&vid(&model.folders[last].id), "folder-2".to_string()).await?;
        model.folders[last].name = "folder-2".to_string();
        model.edits = 0;
    }
    // start from a non-empty account: one note in the default folder,
    // one login in the user folder (so that row-splicing, moves into a
    // non-empty folder, deleting the first of two rows ... are depth-1/2)
    if rich {
        apply(&mut dev, &mut model, &Op::Create { f: 0, kind: "note".into(), variant: 0 }).await?;
        apply(&mut dev, &mut model, &Op::Create { f: 2, kind: "login".into(), variant: 0 }).await?;
        model.edits = 0;
    }
    dev.close().await;
    Ok(StateItem {
        hist: vec![],
        model,
        dir: dir.to_string_lossy().to_string(),
        backend,
        account_id,
    })
}

fn level_of(prop: &str) -> &'static str {
    let _ = prop;
    "model_checking"
}

fn main() {
    let args = Args::parse();
    let prop = args.props.first().cloned().unwrap_or("C01".to_string());
    let mut p = profile(&prop, args.tier);
    if let Ok(d) = std::env::var("HIST_DEPTH") {
        p.depth = d.parse().unwrap();
    }
    if let Ok(m) = std::env::var("HIST_MODE") {
        p.session = m != "snapshot";
    }

    if pool::worker_stage().as_deref() == Some("folderapi") {
        let input = std::env::var("VKIT_INPUT").expect("VKIT_INPUT");
        let inits: Vec<StateItem> = serde_json::from_slice(&std::fs::read(&input).unwrap()).unwrap();
        let depth: usize = std::env::var("VKIT_FDEPTH").unwrap().parse().unwrap();
        let total = folder_seq_total(depth);
        let wd2 = fsutil::WorkDir::new("hist-fa");
        let rt = rt();
        pool::worker_loop(|idx| {
            let init = &inits[idx / total];
            let seq = folder_seq(idx % total, depth);
            rt.block_on(folder_api_case(init, &seq, &wd2.path().join("w")))
        });
    }
    if pool::worker_stage().as_deref() == Some("foldercopy") {
        let input = std::env::var("VKIT_INPUT").expect("VKIT_INPUT");
        let inits: Vec<StateItem> = serde_json::from_slice(&std::fs::read(&input).unwrap()).unwrap();
        let wd2 = fsutil::WorkDir::new("hist-fc");
        let rt = rt();
        pool::worker_loop(|idx| rt.block_on(folder_copy_case(&inits[idx / COPY_OPS.len()], idx % COPY_OPS.len(), &wd2.path().join("w"))));
    }
    if pool::worker_stage().as_deref() == Some("valuesweep") {
        let input = std::env::var("VKIT_INPUT").expect("VKIT_INPUT");
        let inits: Vec<StateItem> = serde_json::from_slice(&std::fs::read(&input).unwrap()).unwrap();
        let wd2 = fsutil::WorkDir::new("hist-vs");
        let rt = rt();
        pool::worker_loop(|idx| rt.block_on(value_sweep_case(&inits[idx], &wd2.path().join("w"))));
    }
    if pool::worker_stage().as_deref() == Some("forcemerge") {
        let input = std::env::var("VKIT_INPUT").expect("VKIT_INPUT");
        let (inits, items): (Vec<StateItem>, Vec<(usize, Vec<usize>, bool)>) = serde_json::from_slice(&std::fs::read(&input).unwrap()).unwrap();
        let wd2 = fsutil::WorkDir::new("hist-fm");
        let rt = rt();
        pool::worker_loop(|idx| {
            let (i, path, diverge) = &items[idx];
            rt.block_on(force_merge_case(&inits[*i], &p, path, *diverge, &wd2.path().join("w")))
        });
    }
    if pool::worker_stage().is_some() {
        let input = std::env::var("VKIT_INPUT").expect("VKIT_INPUT");
        let (init, frontier, items): (StateItem, Vec<StateItem>, Vec<WorkItem>) =
            serde_json::from_slice(&std::fs::read(&input).unwrap()).unwrap();
        let succ_root = PathBuf::from(std::env::var("VKIT_SUCC").unwrap());
        let rt = rt();
        pool::worker_loop(|idx| {
            let it = &items[idx];
            if p.session {
                rt.block_on(expand(
                    &init,
                    &frontier[it.state].hist,
                    &it.op,
                    &p,
                    &succ_root,
                    idx,
                ))
            } else {
                rt.block_on(expand(
                    &frontier[it.state],
                    &[],
                    &it.op,
                    &p,
                    &succ_root,
                    idx,
                ))
            }
        });
    }

    if let Some(path) = &args.replay {
        std::process::exit(replay(path, &prop, &p));
    }

    let mut run = Run::new(&prop, level_of(&prop), &args);
    let wd = fsutil::WorkDir::new("hist");
    let backends: Vec<Backend> = match std::env::var("HIST_BACKENDS")
        .ok()
        .as_deref()
    {
        Some("fs") => vec![Backend::Fs],
        Some("db") => vec![Backend::Db],
        _ => vec![Backend::Fs, Backend::Db],
    };
    let rt = rt();
    let mut states_total = 0usize;
    let mut transitions = 0u64;
    let mut samples = vec![];
    let mut per_cfg = vec![];
    let mut counters_total = Counters::default();
    let mut op_kinds: BTreeMap<String, u64> = BTreeMap::new();
    // history -> canonical key, per backend (differential)
    let mut hist_canon: Vec<HashMap<String, String>> = vec![];
    let mut folder_api_inits: Vec<StateItem> = vec![];
    let mut capped: Vec<Value> = vec![];
    for b in &backends {
        let cfg_dir = wd.path().join(b.name());
        std::fs::create_dir_all(&cfg_dir).unwrap();
        let init = match rt.block_on(initial_state(&cfg_dir.join("init"), *b, p.rich_initial, p.maint_words > 0))
        {
            Ok(i) => i,
            Err(e) => {
                run.machinery(format!("initial state ({}): {}", b.name(), e));
                continue;
            }
        };
        let mut seen: HashSet<String> = HashSet::new();
        seen.insert(init.model.canon(p.maint_words > 0));
        let init_item = init.clone();
        let mut frontier = vec![init];
        let mut levels = vec![];
        let mut hc: HashMap<String, String> = HashMap::new();
        for d in 0..p.depth {
            if frontier.is_empty() {
                break;
            }
            let input = cfg_dir.join(format!("frontier-{}.json", d));
            let mut items: Vec<WorkItem> = vec![];
            for (si, st) in frontier.iter().enumerate() {
                for op in enabled(&st.model, &p) {
                    items.push(WorkItem { state: si, op });
                }
            }
            // cap (reported, never hidden): the canonical-order prefix of
            // a level that would exceed the budget
            let cap: usize = std::env::var("HIST_LEVEL_CAP").ok().and_then(|s| s.parse().ok()).unwrap_or(if args.tier == Tier::Thorough { 8000 } else { usize::MAX });
            if items.len() > cap {
                capped.push(json!({"backend": b.name(), "depth": d + 1, "paths_at_this_depth": items.len(), "executed": cap}));
                items.truncate(cap);
            }
            std::fs::write(
                &input,
                serde_json::to_vec(&(&init_item, &frontier, &items)).unwrap(),
            )
            .unwrap();
            let succ_root = cfg_dir.join(format!("level-{}", d + 1));
            std::fs::create_dir_all(&succ_root).unwrap();
            let mut opts = PoolOpts::default();
            opts.env.push((
                "VKIT_INPUT".into(),
                input.to_string_lossy().to_string(),
            ));
            opts.env.push((
                "VKIT_SUCC".into(),
                succ_root.to_string_lossy().to_string(),
            ));
            let res = pool::run_stage("expand", items.len(), &opts);
            let mut next = vec![];
            for (wi, r) in res.into_iter().enumerate() {
                let i = items[wi].state;
                match r {
                    pool::ItemResult::Crashed(why) => {
                        run.machinery(format!(
                            "worker failed expanding {:?}: {}",
                            frontier[i].hist, why
                        ));
                    }
                    pool::ItemResult::Done(v) => {
                        if let Ok(c) = serde_json::from_value::<Counters>(
                            v["counters"].clone(),
                        ) {
                            counters_total.c02_folder_checks +=
                                c.c02_folder_checks;
                            counters_total.c02_commit_checks +=
                                c.c02_commit_checks;
                            counters_total.reloads += c.reloads;
                            counters_total.old_key_checks += c.old_key_checks;
                            counters_total.nonce_packs += c.nonce_packs;
                        }
                        for s in v["succ"].as_array().unwrap() {
                            transitions += 1;
                            let op: Op =
                                serde_json::from_value(s["op"].clone())
                                    .unwrap();
                            *op_kinds
                                .entry(op.kind().to_string())
                                .or_default() += 1;
                            let mut h = frontier[i].hist.clone();
                            h.push(op);
                            for f in s["fails"].as_array().unwrap() {
                                let fp = f["prop"].as_str().unwrap();
                                if fp == "MACH" {
                                    run.machinery(format!("{}", f["what"]));
                                } else if fp == prop {
                                    run.fail(
                                        f["sig"].as_str().unwrap(),
                                        f["what"].as_str().unwrap(),
                                        json!({"engine":"hist","backend": b.name(), "history": h, "detail": f["detail"]}),
                                    );
                                }
                            }
                            if s.get("canon").is_none() {
                                continue;
                            }
                            let canon =
                                s["canon"].as_str().unwrap().to_string();
                            hc.insert(
                                serde_json::to_string(&h).unwrap(),
                                canon.clone(),
                            );
                            if h.len() >= 2 {
                                push_sample(
                                    &mut samples,
                                    json!({"backend": b.name(), "history": h, "state": canon}),
                                    4,
                                );
                            }
                            let dir =
                                s["dir"].as_str().unwrap().to_string();
                            let fresh = seen.insert(canon);
                            if fresh || p.session {
                                next.push(StateItem {
                                    hist: h,
                                    model: serde_json::from_value(
                                        s["model"].clone(),
                                    )
                                    .unwrap(),
                                    dir,
                                    backend: *b,
                                    account_id: frontier[i]
                                        .account_id
                                        .clone(),
                                });
                            } else {
                                let _ = std::fs::remove_dir_all(&dir);
                            }
                        }
                    }
                }
            }
            // parents are no longer needed
            for it in &frontier {
                if !it.hist.is_empty() && !p.session {
                    let _ = std::fs::remove_dir_all(&it.dir);
                }
            }
            levels.push(json!({"depth": d + 1, "expanded": frontier.len(), "new_states": next.len()}));
            frontier = next;
        }
        folder_api_inits.push(init_item.clone());
        states_total += seen.len();
        per_cfg.push(json!({"backend": b.name(), "states": seen.len(), "levels": levels, "unexpanded_at_bound": frontier.len()}));
        hist_canon.push(hc);
    }
    let mut folder_api_cases = 0u64;
    if prop == "C01" && !folder_api_inits.is_empty() {
        let fdepth = if args.tier == Tier::Quick { 3 } else { 4 };
        let input = wd.path().join("folderapi-inits.json");
        std::fs::write(&input, serde_json::to_vec(&folder_api_inits).unwrap()).unwrap();
        let mut opts = PoolOpts::default();
        opts.env.push(("VKIT_INPUT".into(), input.to_string_lossy().to_string()));
        opts.env.push(("VKIT_FDEPTH".into(), fdepth.to_string()));
        let total = folder_seq_total(fdepth) * folder_api_inits.len();
        for (i, r) in pool::run_stage("folderapi", total, &opts).into_iter().enumerate() {
            match r {
                pool::ItemResult::Crashed(w) => run.machinery(format!("folder api case {}: {}", i, w)),
                pool::ItemResult::Done(v) => {
                    folder_api_cases += 1;
                    transitions += 1;
                    for f in v["fails"].as_array().unwrap() {
                        run.fail(f["sig"].as_str().unwrap(), f["what"].as_str().unwrap(), json!({"engine":"hist","stage":"folder_api","detail": f["detail"]}));
                    }
                }
            }
        }
    }
    // value sweep (C01)
    let mut value_sweep = json!(null);
    if prop == "C01" && !folder_api_inits.is_empty() {
        let input = wd.path().join("valuesweep.json");
        std::fs::write(&input, serde_json::to_vec(&folder_api_inits).unwrap()).unwrap();
        let mut opts = PoolOpts::default();
        opts.env.push(("VKIT_INPUT".into(), input.to_string_lossy().to_string()));
        let (mut created, mut refused) = (0u64, 0u64);
        for (i, r) in pool::run_stage("valuesweep", folder_api_inits.len(), &opts).into_iter().enumerate() {
            match r {
                pool::ItemResult::Crashed(w) => run.machinery(format!("value sweep {}: {}", i, w)),
                pool::ItemResult::Done(v) => {
                    created += v["created"].as_u64().unwrap_or(0);
                    refused += v["refused"].as_u64().unwrap_or(0);
                    transitions += v["created"].as_u64().unwrap_or(0);
                    for f in v["fails"].as_array().unwrap() {
                        run.fail(f["sig"].as_str().unwrap(), f["what"].as_str().unwrap(), json!({"engine":"hist","stage":"value_sweep","detail": f["detail"]}));
                    }
                }
            }
        }
        if created == 0 {
            run.machinery("vacuous: the value sweep created no secret");
        }
        value_sweep = json!({"secret_values_created_and_read_back": created, "values_refused_by_the_sdk": refused, "backends": backends.iter().map(|b| b.name()).collect::<Vec<_>>(), "source": "structure enumerator of the codec engine: every kind x optional fields present/absent x user-data shapes"});
    }
    // folder copies: the same secret ids in two folders (C20)
    let mut folder_copy = json!(null);
    if prop == "C20" && !folder_api_inits.is_empty() && std::env::var("VKIT_FRAGMENT").is_err() {
        let input = wd.path().join("foldercopy.json");
        std::fs::write(&input, serde_json::to_vec(&folder_api_inits).unwrap()).unwrap();
        let mut opts = PoolOpts::default();
        opts.env.push(("VKIT_INPUT".into(), input.to_string_lossy().to_string()));
        let total = folder_api_inits.len() * COPY_OPS.len();
        let mut ran = 0u64;
        for (i, r) in pool::run_stage("foldercopy", total, &opts).into_iter().enumerate() {
            match r {
                pool::ItemResult::Crashed(w) => run.machinery(format!("folder copy case {}: {}", i, w)),
                pool::ItemResult::Done(v) => {
                    ran += 1;
                    transitions += 1;
                    for f in v["fails"].as_array().unwrap() {
                        run.fail(f["sig"].as_str().unwrap(), f["what"].as_str().unwrap(), json!({"engine":"hist","stage":"folder_copy","detail": f["detail"]}));
                    }
                }
            }
        }
        folder_copy = json!({"cases": ran, "operations": COPY_OPS, "backends": backends.iter().map(|b| b.name()).collect::<Vec<_>>()});
    }
    // forced overwrites (C02, C20)
    let mut force_merge_cases = json!(null);
    if (prop == "C02" || prop == "C20") && !folder_api_inits.is_empty() && std::env::var("VKIT_FRAGMENT").is_err() {
        let fdepth = if args.tier == Tier::Quick { 1 } else { 2 };
        let mut items: Vec<(usize, Vec<usize>, bool)> = vec![];
        for i in 0..folder_api_inits.len() {
            for diverge in [false, true] {
                for a in 0..FM_WIDTH {
                    items.push((i, vec![a], diverge));
                    if fdepth > 1 {
                        for b2 in 0..FM_WIDTH {
                            items.push((i, vec![a, b2], diverge));
                        }
                    }
                }
            }
        }
        let input = wd.path().join("forcemerge.json");
        std::fs::write(&input, serde_json::to_vec(&(&folder_api_inits, &items)).unwrap()).unwrap();
        let mut opts = PoolOpts::default();
        opts.env.push(("VKIT_INPUT".into(), input.to_string_lossy().to_string()));
        let (mut executed, mut fchecks, mut cchecks) = (0u64, 0u64, 0u64);
        for (i, r) in pool::run_stage("forcemerge", items.len(), &opts).into_iter().enumerate() {
            match r {
                pool::ItemResult::Crashed(w) => run.machinery(format!("force merge case {:?}: {}", items[i], w)),
                pool::ItemResult::Done(v) => {
                    if v["executed"].as_bool() != Some(true) {
                        continue;
                    }
                    executed += 1;
                    transitions += 1;
                    fchecks += v["folder_checks"].as_u64().unwrap_or(0);
                    cchecks += v["commit_checks"].as_u64().unwrap_or(0);
                    for f in v["fails"].as_array().unwrap() {
                        if f["prop"].as_str() == Some(prop.as_str()) {
                            run.fail(f["sig"].as_str().unwrap(), f["what"].as_str().unwrap(), json!({"engine":"hist","stage":"force_merge","detail": f["detail"]}));
                        }
                    }
                }
            }
        }
        if executed == 0 {
            run.machinery("vacuous: no forced-overwrite case executed");
        }
        force_merge_cases = json!({"cases": executed, "device_1_history_depth": fdepth, "device_2": ["no divergence", "one local create"], "backends": backends.iter().map(|b| b.name()).collect::<Vec<_>>(), "replay_served_mirror_checks": fchecks, "until_commit_checks": cchecks});
    }
    // differential: same history => same canonical state on both backends
    let mut diff_checked = 0u64;
    if hist_canon.len() == 2 {
        for (h, c) in &hist_canon[0] {
            if let Some(c2) = hist_canon[1].get(h) {
                diff_checked += 1;
                if c != c2 && (prop == "C01" || prop == "C19") {
                    run.fail(
                        "backends_reach_different_states",
                        "the same history gives different canonical states on fs and sqlite",
                        json!({"engine":"hist","history": serde_json::from_str::<Value>(h).unwrap(), "fs": c, "sqlite": c2}),
                    );
                }
            }
        }
    }
    if transitions == 0 {
        run.machinery("vacuous: no transition executed");
    }
    // C02 / C20 also hold after merges received from other devices:
    // the sync-world engine evaluates them on every device after every
    // sync step; its (tagged) failures are merged into this evidence
    let mut merge_worlds = Value::Null;
    if (prop == "C02" || prop == "C20" || prop == "C16") && std::env::var("VKIT_FRAGMENT").is_err() {
        let frag = wd.path().join("syncx-fragment.json");
        let syncx = std::env::current_exe().unwrap().with_file_name("syncx");
        let mut cmd = std::process::Command::new(&syncx);
        if prop == "C16" {
            // the integrity report after merges: sqlite client + server in
            // quick (the rows carry their own checksums there), both in thorough
            cmd.env("SYNCX_C16", "1");
            if args.tier == Tier::Quick {
                cmd.env("SYNCX_CONFIG", "db");
            }
        }
        let st = cmd
            .args(["--prop", &prop, "--tier", args.tier.as_str()])
            .env("VKIT_FRAGMENT", &frag)
            .env("SYNCX_BYPRODUCT", "1")
            .env_remove("VKIT_WORKER")
            .env_remove("VKIT_INPUT")
            .stdout(std::process::Stdio::null())
            .status();
        match st {
            Ok(s) if s.success() => {
                let v: Value = serde_json::from_slice(&std::fs::read(&frag).unwrap_or_default()).unwrap_or(json!({}));
                if let Some(fs) = v["failures"].as_array() {
                    for f in fs {
                        run.fail_n(f["sig"].as_str().unwrap(), f["what"].as_str().unwrap(), f["witness"].clone(), f["count"].as_u64().unwrap_or(1));
                    }
                }
                let c = &v["evidence"]["coverage"];
                transitions += c["sync_calls"].as_u64().unwrap_or(0);
                merge_worlds = json!({"worlds": c["worlds"], "sync_calls": c["sync_calls"], "bounds": c["bounds"]});
                if c["worlds"].as_u64().unwrap_or(0) == 0 {
                    run.machinery("vacuous: syncx by-product explored no world");
                }
            }
            other => run.machinery(format!("syncx fragment failed: {:?}", other)),
        }
    }
    // C16 completeness: the corruption enumerator (integx) is merged in
    let mut completeness = Value::Null;
    if prop == "C16" && std::env::var("VKIT_FRAGMENT").is_err() {
        let frag = wd.path().join("integx-fragment.json");
        let integx = std::env::current_exe().unwrap().with_file_name("integx");
        let st = std::process::Command::new(&integx)
            .args(["--prop", &prop, "--tier", args.tier.as_str()])
            .env("VKIT_FRAGMENT", &frag)
            .env_remove("VKIT_WORKER")
            .env_remove("VKIT_INPUT")
            .stdout(std::process::Stdio::null())
            .status();
        match st {
            Ok(s) if s.success() => {
                let v: Value = serde_json::from_slice(&std::fs::read(&frag).unwrap_or_default()).unwrap_or(json!({}));
                if let Some(fs) = v["failures"].as_array() {
                    for f in fs {
                        run.fail_n(f["sig"].as_str().unwrap(), f["what"].as_str().unwrap(), f["witness"].clone(), f["count"].as_u64().unwrap_or(1));
                    }
                }
                let c = &v["evidence"]["coverage"];
                let evals = c["evaluations"].as_u64().unwrap_or(0);
                transitions += evals;
                completeness = json!({"evaluations": evals, "distinct_nontrivial": c["distinct_nontrivial"], "exhaustive": c["exhaustive"], "rule": c["rule"], "in_scope_regions": c["in_scope_regions"], "out_of_scope_observations": c["out_of_scope_observations"], "accounts": c["accounts"]});
                if evals == 0 {
                    run.machinery("vacuous: integx evaluated no corruption");
                }
            }
            other => run.machinery(format!("integx fragment failed: {:?}", other)),
        }
    }
    run.assume("state abstraction: model contents + per-folder log length; random identifiers are not part of the key");
    run.assume("cryptographic primitives, SQLite and the OS file system are trusted base");
    let mut cov = Map::new();
    cov.insert("states".into(), json!(states_total));
    cov.insert("transitions".into(), json!(transitions));
    cov.insert("traces_validated_against_impl".into(), json!(transitions));
    cov.insert("samples".into(), json!(samples));
    cov.insert("exhaustive".into(), json!(capped.is_empty()));
    cov.insert("caps_hit".into(), json!(capped));
    cov.insert("profile".into(), json!(p));
    cov.insert("folder_api_id_reuse_sequences".into(), json!(folder_api_cases));
    cov.insert("forced_overwrite_cases_(force_merge_folder)".into(), force_merge_cases);
    cov.insert("value_sweep".into(), value_sweep);
    cov.insert("folder_copy_cases_(same_secret_ids_in_two_folders)".into(), folder_copy);
    cov.insert("merge_worlds_(sync_engine_by_product)".into(), merge_worlds);
    if prop == "C16" {
        cov.insert("completeness_(corruption_enumerator_integx)".into(), completeness);
    }
    cov.insert("configurations".into(), json!(per_cfg));
    cov.insert("operations_by_kind".into(), json!(op_kinds));
    cov.insert("oracle_counters".into(), json!(counters_total));
    cov.insert("histories_compared_across_backends".into(), json!(diff_checked));
    cov.insert("explanation".into(), json!("breadth-first search over persisted account states; every transition = copy parent snapshot, fresh sign-in, one real Account operation, all oracles (view vs model after op / after lock+unlock / after fresh reload; replay==served==mirror and until-commit vs reference reducer; search index vs rebuilt; integrity report; compaction/key-change oracles)"));
    std::process::exit(run.finish(cov));
}

fn replay(path: &Path, prop: &str, p: &Profile) -> i32 {
    let v: Value =
        serde_json::from_slice(&std::fs::read(path).expect("read")).unwrap();
    let hist: Vec<Op> =
        serde_json::from_value(v["witness"]["history"].clone()).unwrap();
    let backend = match v["witness"]["backend"].as_str() {
        Some("sqlite") => Backend::Db,
        _ => Backend::Fs,
    };
    let want_sig = v["signature"].as_str().unwrap_or("").to_string();
    let rt = rt();
    let mut obs = vec![];
    for round in 0..2 {
        let wd = fsutil::WorkDir::new(&format!("hist-r{}", round));
        let sigs: Vec<(String, String)> = rt.block_on(async {
            let mut item =
                initial_state(&wd.path().join("init"), backend, p.rich_initial, p.maint_words > 0).await.unwrap();
            let mut sigs = vec![];
            let mut c = Counters::default();
            let mut blobs = vec![];
            let init0 = item.clone();
            for (i, op) in hist.iter().enumerate() {
                let dir = wd.path().join(format!("s{}", i));
                let (succ, fails) = if p.session {
                    transition(&init0, &hist[..i], op, p, &dir, &mut c, &mut blobs).await
                } else {
                    transition(&item, &[], op, p, &dir, &mut c, &mut blobs).await
                };
                for (pp, s, w, _) in fails.0 {
                    if pp == prop {
                        sigs.push((s, w));
                    }
                }
                match succ {
                    Some((m, _)) => {
                        let mut h = item.hist.clone();
                        h.push(op.clone());
                        item = StateItem {
                            hist: h,
                            model: m,
                            dir: dir.to_string_lossy().to_string(),
                            backend,
                            account_id: item.account_id.clone(),
                        };
                    }
                    None => break,
                }
            }
            if let Ok(k) = std::env::var("HIST_KEEP") {
                let _ = fsutil::copy_dir(Path::new(&item.dir), Path::new(&k));
            }
            sigs
        });
        obs.push(sigs);
    }
    let a: Vec<&String> = obs[0].iter().map(|x| &x.0).collect();
    let b: Vec<&String> = obs[1].iter().map(|x| &x.0).collect();
    if a != b {
        eprintln!("MACHINERY-ERROR replay is not deterministic");
        return 2;
    }
    for (s, w) in &obs[0] {
        println!("observed {}: {}", s, w);
    }
    if obs[0].iter().any(|(s, _)| *s == want_sig) {
        println!("VIOLATION property={} replay={}", prop, path.display());
        1
    } else {
        0
    }
}
