//! Run plumbing: tiers, seeds, failure signatures, known findings,
//! replay artefacts, evidence files and exit codes.
use serde_json::{json, Map, Value};
use std::collections::BTreeMap;
use std::path::PathBuf;
use std::time::Instant;

pub const VERIF_DIR: &str = "/verif";

#[derive(Clone, Copy, PartialEq, Eq, Debug)]
pub enum Tier {
    Quick,
    Thorough,
}

impl Tier {
    pub fn as_str(&self) -> &'static str {
        match self {
            Tier::Quick => "quick",
            Tier::Thorough => "thorough",
        }
    }
    pub fn pick<T>(&self, q: T, t: T) -> T {
        match self {
            Tier::Quick => q,
            Tier::Thorough => t,
        }
    }
}

/// Parsed command line shared by all engines.
#[derive(Clone, Debug)]
pub struct Args {
    pub tier: Tier,
    pub seed: u64,
    pub replay: Option<PathBuf>,
    pub props: Vec<String>,
    pub rest: Vec<String>,
}

impl Args {
    pub fn parse() -> Args {
        let mut tier = match std::env::var("VERIF_TIER").ok().as_deref() {
            Some("thorough") => Tier::Thorough,
            _ => Tier::Quick,
        };
        let seed = std::env::var("VERIF_SEED")
            .ok()
            .and_then(|s| s.parse::<i64>().ok())
            .map(|v| v as u64)
            .unwrap_or(0);
        let mut replay = None;
        let mut props = vec![];
        let mut rest = vec![];
        let mut it = std::env::args().skip(1);
        while let Some(a) = it.next() {
            match a.as_str() {
                "--tier" => {
                    tier = match it.next().as_deref() {
                        Some("thorough") => Tier::Thorough,
                        _ => Tier::Quick,
                    }
                }
                "--replay" => replay = it.next().map(PathBuf::from),
                "--prop" => {
                    if let Some(p) = it.next() {
                        props.extend(p.split(',').map(|s| s.to_string()))
                    }
                }
                _ => rest.push(a),
            }
        }
        Args {
            tier,
            seed,
            replay,
            props,
            rest,
        }
    }
}

#[derive(Clone, Debug)]
pub struct Failure {
    pub count: u64,
    pub witness: Value,
    pub what: String,
}

/// Verdict collector for one property.
pub struct Run {
    pub prop: String,
    pub level: &'static str,
    pub tier: Tier,
    pub seed: u64,
    pub start: Instant,
    pub failures: BTreeMap<String, Failure>,
    pub assumptions: Vec<String>,
    pub machinery_errors: Vec<String>,
}

impl Run {
    pub fn new(prop: &str, level: &'static str, args: &Args) -> Run {
        // top-level engine start (not a worker): reap scratch directories
        // left behind by processes that no longer exist
        if std::env::var("VKIT_WORKER").is_err() {
            crate::fsutil::reap_stale();
        }
        Run {
            prop: prop.to_string(),
            level,
            tier: args.tier,
            seed: args.seed,
            start: Instant::now(),
            failures: BTreeMap::new(),
            assumptions: vec![],
            machinery_errors: vec![],
        }
    }

    /// Record a property failure under a normalised signature.
    pub fn fail(&mut self, signature: &str, what: &str, witness: Value) {
        let e = self.failures.entry(signature.to_string()).or_insert(
            Failure {
                count: 0,
                witness,
                what: what.to_string(),
            },
        );
        e.count += 1;
    }

    pub fn fail_n(
        &mut self,
        signature: &str,
        what: &str,
        witness: Value,
        n: u64,
    ) {
        let e = self.failures.entry(signature.to_string()).or_insert(
            Failure {
                count: 0,
                witness,
                what: what.to_string(),
            },
        );
        e.count += n;
    }

    pub fn machinery(&mut self, msg: impl Into<String>) {
        self.machinery_errors.push(msg.into());
    }

    pub fn assume(&mut self, s: &str) {
        self.assumptions.push(s.to_string());
    }

    /// Write evidence, print verdict lines, return exit code.
    pub fn finish(self, coverage: Map<String, Value>) -> i32 {
        let code = self.finish_inner(coverage);
        crate::fsutil::cleanup_all();
        code
    }

    fn finish_inner(self, mut coverage: Map<String, Value>) -> i32 {
        let fragment_mode = std::env::var("VKIT_FRAGMENT").is_ok();
        let known = if fragment_mode { vec![] } else { load_known_findings() };
        let mut violations = 0;
        let mut known_hits = vec![];
        let mut sigs = Map::new();
        let mut out_lines = vec![];
        for (sig, f) in &self.failures {
            let full = format!("{}/{}", self.prop, sig);
            let k = known.iter().find(|k| {
                k.property == self.prop
                    && k.status == "open"
                    && sig_match(&k.signature, sig)
            });
            sigs.insert(
                sig.clone(),
                json!({"count": f.count, "what": f.what, "known": k.is_some(), "witness": f.witness}),
            );
            if k.is_some() {
                known_hits.push(sig.clone());
                out_lines.push(format!(
                    "KNOWN-FINDING: property={} {} {} (x{})",
                    self.prop, sig, f.what, f.count
                ));
            } else {
                violations += 1;
                if fragment_mode {
                    continue;
                }
                let dir = PathBuf::from(VERIF_DIR)
                    .join("replays")
                    .join(&self.prop);
                let _ = std::fs::create_dir_all(&dir);
                let name = format!("{}.json", sanitize(sig));
                let path = dir.join(name);
                let doc = json!({
                    "property": self.prop,
                    "signature": sig,
                    "what": f.what,
                    "count": f.count,
                    "tier": self.tier.as_str(),
                    "seed": self.seed,
                    "witness": f.witness,
                });
                let _ = std::fs::write(
                    &path,
                    serde_json::to_vec_pretty(&doc).unwrap(),
                );
                out_lines.push(format!(
                    "VIOLATION property={} replay={}",
                    self.prop,
                    path.display()
                ));
                eprintln!(
                    "  violation {}: {} (x{})",
                    full, f.what, f.count
                );
            }
        }
        let stale: Vec<String> = known
            .iter()
            .filter(|k| {
                k.property == self.prop
                    && k.status == "open"
                    && !self
                        .failures
                        .keys()
                        .any(|s| sig_match(&k.signature, s))
            })
            .map(|k| k.signature.clone())
            .collect();
        coverage.insert("failure_signatures".into(), Value::Object(sigs));
        coverage.insert("known_findings_hit".into(), json!(known_hits));
        coverage.insert(
            "known_findings_not_observed_in_this_run".into(),
            json!(stale),
        );
        if !self.machinery_errors.is_empty() {
            coverage.insert(
                "machinery_errors".into(),
                json!(self.machinery_errors),
            );
        }
        let ev = json!({
            "property_id": self.prop,
            "tier": self.tier.as_str(),
            "seed": self.seed as i64,
            "level": self.level,
            "coverage": Value::Object(coverage),
            "assumptions": self.assumptions,
            "wall_s": self.start.elapsed().as_secs_f64(),
            "violations": violations,
        });
        // fragment mode: another engine merges this run into its own
        if let Ok(frag) = std::env::var("VKIT_FRAGMENT") {
            let failures: Vec<Value> = self
                .failures
                .iter()
                .map(|(s, f)| json!({"sig": s, "what": f.what, "count": f.count, "witness": f.witness}))
                .collect();
            let doc = json!({"evidence": ev, "failures": failures, "machinery_errors": self.machinery_errors});
            let _ = std::fs::write(&frag, serde_json::to_vec(&doc).unwrap());
            return if self.machinery_errors.is_empty() { 0 } else { 2 };
        }
        let evdir = PathBuf::from(VERIF_DIR).join("evidence");
        let _ = std::fs::create_dir_all(&evdir);
        let evpath = evdir.join(format!("{}.json", self.prop));
        if let Err(e) =
            std::fs::write(&evpath, serde_json::to_vec_pretty(&ev).unwrap())
        {
            eprintln!("cannot write evidence {}: {}", evpath.display(), e);
            return 2;
        }
        for l in out_lines {
            println!("{}", l);
        }
        if !self.machinery_errors.is_empty() {
            for m in &self.machinery_errors {
                eprintln!("MACHINERY-ERROR property={} {}", self.prop, m);
            }
            return 2;
        }
        if violations > 0 {
            1
        } else {
            println!(
                "OK property={} tier={} wall_s={:.1}",
                self.prop,
                self.tier.as_str(),
                self.start.elapsed().as_secs_f64()
            );
            0
        }
    }
}

fn sanitize(s: &str) -> String {
    s.chars()
        .map(|c| {
            if c.is_ascii_alphanumeric() || c == '-' || c == '_' || c == '.'
            {
                c
            } else {
                '_'
            }
        })
        .take(120)
        .collect()
}

/// Signature match: exact, or pattern with a trailing `*`.
pub fn sig_match(pattern: &str, sig: &str) -> bool {
    if let Some(p) = pattern.strip_suffix('*') {
        sig.starts_with(p)
    } else {
        pattern == sig
    }
}

#[derive(Clone, Debug)]
pub struct Known {
    pub property: String,
    pub status: String,
    pub signature: String,
}

pub fn load_known_findings() -> Vec<Known> {
    let p = PathBuf::from(VERIF_DIR).join("known_findings.json");
    let Ok(b) = std::fs::read(&p) else {
        return vec![];
    };
    let Ok(v) = serde_json::from_slice::<Value>(&b) else {
        eprintln!("known_findings.json is not valid JSON");
        std::process::exit(2);
    };
    let mut out = vec![];
    if let Some(arr) = v.get("findings").and_then(|a| a.as_array()) {
        for e in arr {
            out.push(Known {
                property: e["property"].as_str().unwrap_or("").to_string(),
                status: e["status"].as_str().unwrap_or("").to_string(),
                signature: e["signature"].as_str().unwrap_or("").to_string(),
            });
        }
    }
    out
}

/// Keep at most n samples.
pub fn push_sample(samples: &mut Vec<Value>, v: Value, n: usize) {
    if samples.len() < n {
        samples.push(v);
    }
}
