//! C03 — secret material never reaches storage or the network unencrypted.
//!
//! For every secret kind x client backend a real account is driven through
//! a history (create, update, describe folder, attach a file, export a
//! backup archive and a folder, sync to a real in-process server through a
//! recording TCP tee, second device pulls) in which every user-supplied
//! plaintext carries a high-entropy marker. Afterwards every file of every
//! data directory (client, second client, server; SQLite pages and WAL;
//! archives raw and inflated) and every byte that crossed the wire is
//! scanned for each marker in raw, hex, base64 (all alignments), UTF-16
//! and JSON-escaped form.
use anyhow::{anyhow, Result};
use serde_json::{json, Map, Value};
use sos_account::Account;
use sos_client_storage::{AccessOptions, NewFolderOptions};
use sos_core::{crypto::AccessKey, AccountId, Origin};
use sos_login::DelegatedAccess;
use std::path::{Path, PathBuf};
use std::sync::{Arc, Mutex};
use tokio::io::{AsyncReadExt, AsyncWriteExt};
use vkit::acct::{Backend, Dev};
use vkit::pool::{self, PoolOpts};
use vkit::run::{push_sample, Args, Run, Tier};
use vkit::world::{start_server, Device, SyncResult};
use vkit::{clock, fsutil, gen};

fn memmem(h: &[u8], n: &[u8]) -> bool {
    if n.is_empty() || h.len() < n.len() {
        return false;
    }
    let first = n[0];
    let mut i = 0;
    while i + n.len() <= h.len() {
        match h[i..=h.len() - n.len()].iter().position(|b| *b == first) {
            None => return false,
            Some(p) => {
                i += p;
                if &h[i..i + n.len()] == n {
                    return true;
                }
                i += 1;
            }
        }
    }
    false
}

fn b64(data: &[u8], url: bool) -> String {
    let tbl: &[u8] = if url {
        b"ABCDEFGHIJKLMNOPQRSTUVWXYZabcdefghijklmnopqrstuvwxyz0123456789-_"
    } else {
        b"ABCDEFGHIJKLMNOPQRSTUVWXYZabcdefghijklmnopqrstuvwxyz0123456789+/"
    };
    let mut out = String::new();
    for c in data.chunks(3) {
        let n = (c[0] as u32) << 16 | (*c.get(1).unwrap_or(&0) as u32) << 8 | *c.get(2).unwrap_or(&0) as u32;
        out.push(tbl[(n >> 18) as usize & 63] as char);
        out.push(tbl[(n >> 12) as usize & 63] as char);
        if c.len() > 1 {
            out.push(tbl[(n >> 6) as usize & 63] as char);
        }
        if c.len() > 2 {
            out.push(tbl[n as usize & 63] as char);
        }
    }
    out
}

/// Every encoded form of a marker that is searched for.
fn forms(marker: &[u8]) -> Vec<(String, Vec<u8>)> {
    let mut v: Vec<(String, Vec<u8>)> = vec![("raw".into(), marker.to_vec())];
    v.push(("hex_lower".into(), hex::encode(marker).into_bytes()));
    v.push(("hex_upper".into(), hex::encode_upper(marker).into_bytes()));
    for url in [false, true] {
        for skip in 0..3usize {
            // base64 of the marker at each of the three byte alignments:
            // drop the first `skip` bytes-worth of context dependent chars
            let padded: Vec<u8> = std::iter::repeat(0u8).take(skip).chain(marker.iter().copied()).collect();
            let enc = b64(&padded, url);
            // characters that depend only on marker bytes
            let start = if skip == 0 { 0 } else { skip + 1 };
            let end = enc.len() - match padded.len() % 3 { 0 => 0, _ => 2 };
            if end > start + 8 {
                v.push((format!("base64{}_align{}", if url { "url" } else { "" }, skip), enc.as_bytes()[start..end].to_vec()));
            }
        }
    }
    if let Ok(s) = std::str::from_utf8(marker) {
        let le: Vec<u8> = s.encode_utf16().flat_map(|c| c.to_le_bytes()).collect();
        let be: Vec<u8> = s.encode_utf16().flat_map(|c| c.to_be_bytes()).collect();
        v.push(("utf16le".into(), le));
        v.push(("utf16be".into(), be));
        let js = serde_json::to_string(s).unwrap();
        let inner = js[1..js.len() - 1].as_bytes().to_vec();
        if inner != marker {
            v.push(("json_escaped".into(), inner));
        }
    }
    v
}

/// The bytes the (synchronous) file logger appended since the previous call
/// in this worker process: every history is scanned against the log lines
/// written while it ran, not against the whole growing file again.
fn new_log_bytes(logs_dir: &Path) -> Vec<(String, Vec<u8>)> {
    use std::io::{Read, Seek, SeekFrom};
    static OFFSETS: std::sync::OnceLock<Mutex<std::collections::HashMap<PathBuf, u64>>> = std::sync::OnceLock::new();
    let mut offs = OFFSETS.get_or_init(Default::default).lock().unwrap();
    let mut out = vec![];
    for p in fsutil::walk_files(logs_dir) {
        let from = offs.get(&p).copied().unwrap_or(0);
        if let Ok(mut f) = std::fs::File::open(&p) {
            let len = f.metadata().map(|m| m.len()).unwrap_or(0);
            if len > from && f.seek(SeekFrom::Start(from)).is_ok() {
                let mut b = Vec::with_capacity((len - from) as usize);
                if f.read_to_end(&mut b).is_ok() {
                    offs.insert(p.clone(), from + b.len() as u64);
                    out.push((format!("logs/{}", p.file_name().unwrap().to_string_lossy()), b));
                }
            }
        }
    }
    out
}

struct Tee {
    origin: Origin,
    captured: Arc<Mutex<Vec<u8>>>,
    task: tokio::task::JoinHandle<()>,
}

async fn start_tee(upstream: std::net::SocketAddr) -> Result<Tee> {
    let listener = tokio::net::TcpListener::bind("127.0.0.1:0").await?;
    let addr = listener.local_addr()?;
    let captured = Arc::new(Mutex::new(Vec::new()));
    let cap = captured.clone();
    let task = tokio::spawn(async move {
        loop {
            let Ok((mut inbound, _)) = listener.accept().await else { break };
            let cap = cap.clone();
            tokio::spawn(async move {
                let Ok(mut outbound) = tokio::net::TcpStream::connect(upstream).await else { return };
                let (mut ri, mut wi) = inbound.split();
                let (mut ro, mut wo) = outbound.split();
                let c1 = cap.clone();
                let c2 = cap.clone();
                let a = async {
                    let mut buf = vec![0u8; 16384];
                    loop {
                        match ri.read(&mut buf).await {
                            Ok(0) | Err(_) => break,
                            Ok(n) => {
                                c1.lock().unwrap().extend_from_slice(&buf[..n]);
                                if wo.write_all(&buf[..n]).await.is_err() {
                                    break;
                                }
                            }
                        }
                    }
                    let _ = wo.shutdown().await;
                };
                let b = async {
                    let mut buf = vec![0u8; 16384];
                    loop {
                        match ro.read(&mut buf).await {
                            Ok(0) | Err(_) => break,
                            Ok(n) => {
                                c2.lock().unwrap().extend_from_slice(&buf[..n]);
                                if wi.write_all(&buf[..n]).await.is_err() {
                                    break;
                                }
                            }
                        }
                    }
                    let _ = wi.shutdown().await;
                };
                tokio::join!(a, b);
            });
        }
    });
    let url = url::Url::parse(&format!("http://{}:{}", addr.ip(), addr.port()))?;
    Ok(Tee { origin: url.into(), captured, task })
}

const BASE: &str = "Zq7Xk2Vn9Rt4Lm8Wp3";

async fn run_kind(kind: &str, backend: Backend, work: &Path, logs_dir: &Path) -> Value {
    let mut fails: Vec<Value> = vec![];
    let res: Result<Value> = async {
        let _ = std::fs::remove_dir_all(work);
        clock::install();
        let marker = format!("{}{}{}", BASE, kind.to_uppercase(), if backend == Backend::Db { "Db" } else { "Fs" });
        let mut markers: Vec<(String, Vec<u8>)> = vec![];
        let cdir = work.join("client");
        let mut dev = Dev::create(&cdir, backend, "leak-account", true).await?;
        let default = dev.account.default_folder().await.unwrap();
        // secret of the kind, created with variant 1 then updated to 0:
        // both generations of plaintext must stay encrypted
        let m1 = format!("{}One", marker);
        let m0 = format!("{}Two", marker);
        let (meta, secret) = gen::secret(kind, 1, &m1);
        let id = dev.account.create_secret(meta, secret, Default::default()).await?.id;
        let (meta, secret) = gen::secret(kind, 0, &m0);
        dev.account.update_secret(&id, meta, Some(secret), AccessOptions { folder: Some(*default.id()), ..Default::default() }).await?;
        markers.push(("secret_fields_first_version".into(), m1.clone().into_bytes()));
        markers.push(("secret_fields_current_version".into(), m0.clone().into_bytes()));
        // folder with a description
        let f1 = dev.account.create_folder(NewFolderOptions::new("plain-folder-name".into())).await?.folder;
        let dm = format!("{}Desc", marker);
        dev.account.set_folder_description(f1.id(), format!("description {}", dm)).await?;
        markers.push(("folder_description".into(), dm.into_bytes()));
        // attachment (external file) in the first kind only (age/scrypt is slow)
        if kind == "note" {
            let fm = format!("{}File", marker);
            let fpath = work.join("attachment.txt");
            std::fs::write(&fpath, format!("attachment content {} {}", fm, "x".repeat(5000)))?;
            let secret: sos_vault::secret::Secret = fpath.clone().try_into()?;
            let meta = sos_vault::secret::SecretMeta::new(format!("file {}", fm), secret.kind());
            dev.account.create_secret(meta, secret, Default::default()).await?;
            std::fs::remove_file(&fpath)?;
            markers.push(("attachment".into(), fm.into_bytes()));
        }
        // key material known through the public API
        for f in dev.account.list_folders().await? {
            if let Some(AccessKey::Password(p)) = dev.account.find_folder_password(f.id()).await? {
                use secrecy::ExposeSecret;
                markers.push(("folder_password".into(), p.expose_secret().as_bytes().to_vec()));
            }
        }
        let signer = dev.account.device_signer().await?;
        markers.push(("device_signing_key".into(), signer.to_bytes().to_vec()));
        markers.push(("account_password".into(), vkit::acct::PASSWORD.as_bytes().to_vec()));
        // exports
        let archive = work.join("client").join("backup.zip");
        dev.account.export_backup_archive(&archive).await?;
        let exported = work.join("client").join("exported.vault");
        dev.account.export_folder(&exported, f1.id(), AccessKey::Password(secrecy::SecretString::new(format!("export-password-{}", marker).into())), false).await?;
        // decrypted dump for the positive control
        let view = vkit::acct::account_view(&mut dev.account, true).await?;
        let dump = serde_json::to_vec(&view)?;
        // server through the tee
        let server = start_server(&work.join("server"), backend == Backend::Db, None, None).await?;
        let tee = start_tee(server.addr).await?;
        let account_id: AccountId = dev.account_id;
        // second device = copy of the data dir before the first sync
        dev.close().await;
        fsutil::copy_dir(&cdir, &work.join("client2"))?;
        let mut dev = Dev::open(&cdir, backend, account_id, vkit::acct::password()).await?;
        // a fresh sign-in builds the search index from the decrypted folders
        let _ = dev.account.initialize_search_index().await;
        let d1 = Device::connect(dev, 0, &tee.origin).await?;
        if d1.sync().await != SyncResult::Ok {
            return Err(anyhow!("sync failed"));
        }
        // one more edit after the account exists remotely, then sync again
        {
            let mut a = d1.account.lock().await;
            let m2 = format!("{}Three", marker);
            let (meta, secret) = gen::secret("note", 1, &m2);
            a.create_secret(meta, secret, Default::default()).await?;
            markers.push(("secret_created_after_first_sync".into(), m2.into_bytes()));
        }
        if d1.sync().await != SyncResult::Ok {
            return Err(anyhow!("second sync failed"));
        }
        let dev2 = Dev::open(&work.join("client2"), backend, account_id, vkit::acct::password()).await?;
        let d2 = Device::connect(dev2, 1, &tee.origin).await?;
        let _ = d2.sync().await;
        // a conflict that is resolved by auto merge: device 2 deletes the
        // secret while device 1 updates it later; then both sync
        {
            clock::configure(1, -3_600_000_000_000, 1_000_001);
            clock::set_device(1);
            let mut a = d2.account.lock().await;
            let _ = a.delete_secret(&id, AccessOptions { folder: Some(*default.id()), ..Default::default() }).await;
        }
        {
            clock::set_device(0);
            let m4 = format!("{}Four", marker);
            let (meta, secret) = gen::secret(kind, 1, &m4);
            let mut a = d1.account.lock().await;
            a.update_secret(&id, meta, Some(secret), AccessOptions { folder: Some(*default.id()), ..Default::default() }).await?;
            markers.push(("secret_updated_while_other_device_deleted_it".into(), m4.into_bytes()));
        }
        let _ = d1.sync().await;
        let _ = d2.sync().await;
        let _ = d1.sync().await;
        let _ = d2.sync().await;
        d1.close().await;
        d2.close().await;
        // one more fresh sign-in on each device: the search index is built
        // from the final decrypted folders
        for dir in [&cdir, &work.join("client2")] {
            if let Ok(mut d) = Dev::open(dir, backend, account_id, vkit::acct::password()).await {
                let _ = d.account.initialize_search_index().await;
                d.close().await;
            }
        }
        server.stop().await;
        tee.task.abort();
        let wire = tee.captured.lock().unwrap().clone();
        // positive controls
        let mut control_ok = true;
        for (name, m) in &markers {
            if name.starts_with("secret_fields_current") || name == "folder_description" {
                if !memmem(&dump, m) {
                    control_ok = false;
                }
            }
        }
        std::fs::write(work.join("client").join("planted-control.txt"), format!("xx{}yy", String::from_utf8_lossy(&markers[0].1)))?;
        // collect haystacks
        let mut hay: Vec<(String, Vec<u8>)> = vec![("wire:tee".to_string(), wire.clone())];
        hay.extend(new_log_bytes(logs_dir));
        for root in ["client", "client2", "server"] {
            for p in fsutil::walk_files(&work.join(root)) {
                if let Ok(b) = std::fs::read(&p) {
                    let rel = p.strip_prefix(work).unwrap().to_string_lossy().to_string();
                    // inflate archives
                    if rel.ends_with(".zip") {
                        if let Ok(entries) = inflate(&b).await {
                            for (n, e) in entries {
                                hay.push((format!("{}!{}", rel, n), e));
                            }
                        }
                    }
                    hay.push((rel, b));
                }
            }
        }
        let mut planted_found = false;
        let mut scanned_bytes = 0u64;
        let mut checks = 0u64;
        for (hname, h) in &hay {
            scanned_bytes += h.len() as u64;
            for (mname, m) in &markers {
                for (fname, f) in forms(m) {
                    checks += 1;
                    if memmem(h, &f) {
                        if hname.ends_with("planted-control.txt") {
                            planted_found = true;
                            continue;
                        }
                        let place = if hname.starts_with("wire") {
                            "wire".to_string()
                        } else if hname.starts_with("logs/") {
                            "log_file".to_string()
                        } else {
                            let top = hname.split('/').next().unwrap_or("");
                            let file = hname.rsplit('/').next().unwrap_or("");
                            let ext = if file.contains('!') { "archive_entry".to_string() } else { file.rsplit('.').next().unwrap_or("").to_string() };
                            format!("{}:{}", if top == "client2" { "client" } else { top }, ext)
                        };
                        fails.push(json!({"sig": format!("plaintext_found:{}:{}:{}", mname, place, fname), "what": format!("the {} marker occurs ({}) in {}", mname, fname, hname), "detail": {"kind": kind, "backend": backend.name(), "where": hname}}));
                    }
                }
            }
        }
        if !planted_found || !control_ok {
            return Err(anyhow!("positive control failed (planted marker found: {}, markers present in the decrypted dump: {})", planted_found, control_ok));
        }
        Ok(json!({"markers": markers.len(), "haystacks": hay.len(), "scanned_bytes": scanned_bytes, "wire_bytes": wire.len(), "checks": checks}))
    }
    .await;
    let mut v = match res {
        Ok(v) => v,
        Err(e) => json!({"error": e.to_string()}),
    };
    v["fails"] = json!(fails);
    v
}

/// Device pairing through the relay of a real server, both directions of
/// the protocol, with every byte of the websocket traffic captured by the
/// tee: the confirm message carries the new device's signing key and the
/// device vault; neither they nor any secret plaintext may be readable by
/// the relay (the wire) or be left on the server's disc, and the enrolled
/// device's storage must hold them only encrypted.
async fn run_pairing(backend: Backend, inverted: bool, work: &Path, logs_dir: &Path) -> Value {
    use sos_net::pairing::{AcceptPairing, OfferPairing};
    use sos_net::{NetworkAccount, NetworkAccountOptions};
    let mut fails: Vec<Value> = vec![];
    let res: Result<Value> = async {
        let _ = std::fs::remove_dir_all(work);
        clock::install();
        let marker = format!("{}PAIR{}{}", BASE, if inverted { "Inv" } else { "Std" }, if backend == Backend::Db { "Db" } else { "Fs" });
        let mut markers: Vec<(String, Vec<u8>)> = vec![];
        let cdir = work.join("client");
        let mut dev = Dev::create(&cdir, backend, "pair-account", true).await?;
        let m1 = format!("{}One", marker);
        let (meta, secret) = gen::secret("login", 0, &m1);
        dev.account.create_secret(meta, secret, Default::default()).await?;
        markers.push(("secret_fields_current_version".into(), m1.clone().into_bytes()));
        let f1 = dev.account.create_folder(NewFolderOptions::new("plain-folder-name".into())).await?.folder;
        let dm = format!("{}Desc", marker);
        dev.account.set_folder_description(f1.id(), format!("description {}", dm)).await?;
        markers.push(("folder_description".into(), dm.into_bytes()));
        for f in dev.account.list_folders().await? {
            if let Some(AccessKey::Password(p)) = dev.account.find_folder_password(f.id()).await? {
                use secrecy::ExposeSecret;
                markers.push(("folder_password".into(), p.expose_secret().as_bytes().to_vec()));
            }
        }
        markers.push(("device_signing_key".into(), dev.account.device_signer().await?.to_bytes().to_vec()));
        markers.push(("account_password".into(), vkit::acct::PASSWORD.as_bytes().to_vec()));
        let view = vkit::acct::account_view(&mut dev.account, true).await?;
        let dump = serde_json::to_vec(&view)?;
        let account_id: AccountId = dev.account_id;
        dev.close().await;
        let server = start_server(&work.join("server"), backend == Backend::Db, None, None).await?;
        let tee = start_tee(server.addr).await?;
        // the offering device: the real network account
        let target = vkit::acct::target_for(&cdir, backend).await?.with_account_id(&account_id);
        let mut primary = NetworkAccount::new_unauthenticated(account_id, target, NetworkAccountOptions::default()).await?;
        let key: AccessKey = vkit::acct::password().into();
        primary.sign_in(&key).await?;
        if let Some(r) = primary.add_server(tee.origin.clone()).await? {
            if let Err(e) = r.result {
                return Err(anyhow!("initial sync failed: {}", e));
            }
        }
        // the accepting device: an empty data directory
        let c2 = work.join("client2");
        std::fs::create_dir_all(&c2)?;
        let target2 = vkit::acct::target_for(&c2, backend).await?;
        let device_meta: sos_core::device::DeviceMetaData = Default::default();
        let (otx, offer_shutdown_rx) = tokio::sync::mpsc::channel::<()>(1);
        let (atx, accept_shutdown_rx) = tokio::sync::mpsc::channel::<()>(1);
        let mut enrollment = {
            let (mut offer, offer_stream, mut accept, accept_stream) = if inverted {
                let (share_url, accept, accept_stream) =
                    AcceptPairing::new_inverted(account_id, tee.origin.url().clone(), &device_meta, target2, Default::default()).await?;
                let (offer, offer_stream) = OfferPairing::new_inverted(&mut primary, share_url).await?;
                (offer, offer_stream, accept, accept_stream)
            } else {
                let (offer, offer_stream) = OfferPairing::new(&mut primary, tee.origin.url().clone()).await?;
                let share_url = offer.share_url().clone();
                // the share URL itself travels out of band (QR code); its
                // pre-shared key must not be visible to the relay either
                markers.push(("pairing_pre_shared_key".into(), share_url.pre_shared_key().to_vec()));
                let (accept, accept_stream) = AcceptPairing::new(share_url, &device_meta, target2, Default::default()).await?;
                (offer, offer_stream, accept, accept_stream)
            };
            let both = async {
                let (a, b) = tokio::join!(offer.run(offer_stream, offer_shutdown_rx), accept.run(accept_stream, accept_shutdown_rx));
                a.map_err(|e| anyhow!("offer side: {}", e))?;
                b.map_err(|e| anyhow!("accept side: {}", e))?;
                Ok::<_, anyhow::Error>(())
            };
            tokio::time::timeout(std::time::Duration::from_secs(120), both).await.map_err(|_| anyhow!("pairing protocol did not finish in 120 s"))??;
            drop(offer);
            accept.take_enrollment().map_err(|e| anyhow!("take_enrollment: {}", e))?
        };
        drop(otx);
        drop(atx);
        enrollment.fetch_account().await.map_err(|e| anyhow!("fetch_account: {}", e))?;
        let mut second = enrollment.finish(&key).await.map_err(|e| anyhow!("finish: {}", e))?;
        // what was transported inside the tunnel
        let new_signer = second.device_signer().await?;
        markers.push(("paired_device_signing_key".into(), new_signer.to_bytes().to_vec()));
        // the enrolled device works: it can sync an edit, and (re-opened
        // as a plain local account) it sees the marker secret
        use sos_protocol::AccountSync as _;
        let m2 = format!("{}Two", marker);
        let (meta, secret) = gen::secret("note", 1, &m2);
        second.create_secret(meta, secret, Default::default()).await?;
        markers.push(("secret_created_on_paired_device".into(), m2.into_bytes()));
        let _ = second.sync().await;
        let _ = primary.sync().await;
        let _ = second.sign_out().await;
        let _ = primary.sign_out().await;
        drop(second);
        drop(primary);
        let dump2 = {
            let mut d = Dev::open(&c2, backend, account_id, vkit::acct::password()).await?;
            let v = vkit::acct::account_view(&mut d.account, true).await?;
            d.close().await;
            serde_json::to_vec(&v)?
        };
        server.stop().await;
        tee.task.abort();
        let wire = tee.captured.lock().unwrap().clone();
        let control_ok = memmem(&dump, m1.as_bytes()) && memmem(&dump2, m1.as_bytes());
        std::fs::write(work.join("client").join("planted-control.txt"), format!("xx{}yy", m1))?;
        let mut hay: Vec<(String, Vec<u8>)> = vec![("wire:tee".to_string(), wire.clone())];
        hay.extend(new_log_bytes(logs_dir));
        for root in ["client", "client2", "server"] {
            for p in fsutil::walk_files(&work.join(root)) {
                if let Ok(b) = std::fs::read(&p) {
                    hay.push((p.strip_prefix(work).unwrap().to_string_lossy().to_string(), b));
                }
            }
        }
        let mut planted_found = false;
        let mut scanned_bytes = 0u64;
        let mut checks = 0u64;
        for (hname, h) in &hay {
            scanned_bytes += h.len() as u64;
            for (mname, m) in &markers {
                for (fname, f) in forms(m) {
                    checks += 1;
                    if memmem(h, &f) {
                        if hname.ends_with("planted-control.txt") {
                            planted_found = true;
                            continue;
                        }
                        let place = if hname.starts_with("wire") {
                            "wire".to_string()
                        } else if hname.starts_with("logs/") {
                            "log_file".to_string()
                        } else {
                            let top = hname.split('/').next().unwrap_or("");
                            let file = hname.rsplit('/').next().unwrap_or("");
                            format!("{}:{}", if top == "client2" { "client" } else { top }, file.rsplit('.').next().unwrap_or(""))
                        };
                        fails.push(json!({"sig": format!("plaintext_found:{}:{}:{}", mname, place, fname), "what": format!("pairing: the {} marker occurs ({}) in {}", mname, fname, hname), "detail": {"kind": "pairing", "inverted": inverted, "backend": backend.name(), "where": hname}}));
                    }
                }
            }
        }
        if !planted_found || !control_ok {
            return Err(anyhow!("positive control failed (planted marker found: {}, marker secret readable on both devices: {})", planted_found, control_ok));
        }
        Ok(json!({"markers": markers.len(), "haystacks": hay.len(), "scanned_bytes": scanned_bytes, "wire_bytes": wire.len(), "checks": checks}))
    }
    .await;
    let mut v = match res {
        Ok(v) => v,
        Err(e) => json!({"error": e.to_string()}),
    };
    v["fails"] = json!(fails);
    v
}

/// The operation alphabet of the history stage.
const HOPS: &[&str] = &[
    "create_secret", "update_s0", "delete_s0", "move_s0_to_f1", "archive_s0", "compact_default", "compact_account",
    "change_folder_password_f1", "set_description_f1", "delete_f1", "change_account_password", "change_cipher",
    "export_backup_archive", "sync",
];

fn hist_depth(tier: Tier) -> usize {
    std::env::var("LEAKX_DEPTH").ok().and_then(|v| v.parse().ok()).unwrap_or(if tier == Tier::Quick { 2 } else { 3 })
}

/// All operation sequences of the given depth that start with `first`,
/// each from a copy of one baseline account (default folder with a note,
/// a user folder with a login and a description), every plaintext a
/// distinct marker; after each sequence: sync through the tee, sign out,
/// scan both directories and the wire.
async fn run_histories(first: usize, backend: Backend, depth: usize, work: &Path, logs_dir: &Path) -> Value {
    let mut fails: Vec<Value> = vec![];
    let res: Result<Value> = async {
        let _ = std::fs::remove_dir_all(work);
        clock::install();
        let tag = format!("{}H{}", BASE, if backend == Backend::Db { "Db" } else { "Fs" });
        // baseline
        let bdir = work.join("baseline");
        let mut base_markers: Vec<(String, Vec<u8>)> = vec![];
        let (account_id, s0, default_id, f1_id) = {
            let mut dev = Dev::create(&bdir, backend, "leak-history", true).await?;
            let default = dev.account.default_folder().await.unwrap();
            let m = format!("{}BaseNote", tag);
            let (meta, secret) = gen::secret("note", 0, &m);
            let s0 = dev.account.create_secret(meta, secret, Default::default()).await?.id;
            base_markers.push(("baseline_note".into(), m.into_bytes()));
            let f1 = dev.account.create_folder(NewFolderOptions::new("plain-folder-name".into())).await?.folder;
            let m = format!("{}BaseLogin", tag);
            let (meta, secret) = gen::secret("login", 0, &m);
            dev.account.create_secret(meta, secret, AccessOptions { folder: Some(*f1.id()), ..Default::default() }).await?;
            base_markers.push(("baseline_login".into(), m.into_bytes()));
            let m = format!("{}BaseDesc", tag);
            dev.account.set_folder_description(f1.id(), format!("description {}", m)).await?;
            base_markers.push(("folder_description".into(), m.into_bytes()));
            if let Some(AccessKey::Password(p)) = dev.account.find_folder_password(f1.id()).await? {
                use secrecy::ExposeSecret;
                base_markers.push(("folder_password".into(), p.expose_secret().as_bytes().to_vec()));
            }
            base_markers.push(("device_signing_key".into(), dev.account.device_signer().await?.to_bytes().to_vec()));
            base_markers.push(("account_password".into(), vkit::acct::PASSWORD.as_bytes().to_vec()));
            let r = (dev.account_id, s0, *default.id(), *f1.id());
            dev.close().await;
            r
        };
        // sequences
        let mut seqs: Vec<Vec<usize>> = vec![vec![first]];
        for _ in 1..depth {
            let mut next = vec![];
            for q in &seqs {
                for o in 0..HOPS.len() {
                    let mut n = q.clone();
                    n.push(o);
                    next.push(n);
                }
            }
            seqs = next;
        }
        let mut scanned_bytes = 0u64;
        let mut checks = 0u64;
        let mut wire_bytes = 0u64;
        let mut haystacks = 0u64;
        let mut ops_applied = 0u64;
        let mut ops_refused = 0u64;
        let mut outcomes: std::collections::BTreeSet<String> = Default::default();
        for (qi, q) in seqs.iter().enumerate() {
            let run = work.join("run");
            let _ = std::fs::remove_dir_all(&run);
            let cdir = run.join("client");
            fsutil::copy_dir(&bdir, &cdir)?;
            let server = start_server(&run.join("server"), backend == Backend::Db, None, None).await?;
            let tee = start_tee(server.addr).await?;
            let mut dev = Dev::open(&cdir, backend, account_id, vkit::acct::password()).await?;
            let _ = dev.account.initialize_search_index().await;
            let d = Device::connect(dev, 0, &tee.origin).await?;
            let mut markers = base_markers.clone();
            let mut outcome = String::new();
            // where the first secret lives (None once deleted)
            let mut loc: Option<sos_core::VaultId> = Some(default_id);
            let mut cur_id = s0;
            for (pos, &o) in q.iter().enumerate() {
                let loc_now = loc;
                let s0 = cur_id;
                let name = HOPS[o];
                let m = format!("{}S{}P{}{}", tag, qi, pos, name.replace('_', ""));
                let in_default = AccessOptions { folder: Some(default_id), ..Default::default() };
                let r: Result<()> = async {
                    if name == "sync" {
                        if d.sync().await != SyncResult::Ok {
                            return Err(anyhow!("sync not ok"));
                        }
                        return Ok(());
                    }
                    let mut a = d.account.lock().await;
                    match name {
                        "create_secret" => {
                            let (meta, secret) = gen::secret("card", 0, &m);
                            a.create_secret(meta, secret, in_default.clone()).await?;
                            markers.push(("secret_created_in_history".into(), m.clone().into_bytes()));
                        }
                        "update_s0" => {
                            let (meta, secret) = gen::secret("note", 1, &m);
                            // the marker is in the request whether or not the update is accepted
                            markers.push(("secret_updated_in_history".into(), m.clone().into_bytes()));
                            a.update_secret(&s0, meta, Some(secret), AccessOptions { folder: Some(loc_now.unwrap_or(default_id)), ..Default::default() }).await?;
                        }
                        "delete_s0" => {
                            a.delete_secret(&s0, AccessOptions { folder: Some(loc_now.unwrap_or(default_id)), ..Default::default() }).await?;
                            loc = None;
                        }
                        "move_s0_to_f1" => {
                            cur_id = a.move_secret(&s0, &loc_now.unwrap_or(default_id), &f1_id, Default::default()).await?.id;
                            loc = Some(f1_id);
                        }
                        "archive_s0" => {
                            cur_id = a.archive(&loc_now.unwrap_or(default_id), &s0, Default::default()).await?.id;
                            loc = a.archive_folder().await.map(|s| *s.id());
                        }
                        "compact_default" => {
                            a.compact_folder(&default_id).await?;
                        }
                        "compact_account" => {
                            a.compact_account().await?;
                        }
                        "change_folder_password_f1" => {
                            markers.push(("new_folder_password".into(), m.clone().into_bytes()));
                            a.change_folder_password(&f1_id, AccessKey::Password(secrecy::SecretString::new(m.clone().into()))).await?;
                        }
                        "set_description_f1" => {
                            markers.push(("folder_description_set_in_history".into(), m.clone().into_bytes()));
                            a.set_folder_description(&f1_id, format!("described {}", m)).await?;
                        }
                        "delete_f1" => {
                            a.delete_folder(&f1_id).await?;
                            if loc_now == Some(f1_id) {
                                loc = None;
                            }
                        }
                        "change_account_password" => {
                            markers.push(("new_account_password".into(), m.clone().into_bytes()));
                            a.change_account_password(secrecy::SecretString::new(m.clone().into())).await?;
                        }
                        "change_cipher" => {
                            // the account key at this point: the latest accepted account password
                            let cur = markers.iter().rev().find(|(n, _)| n == "accepted_account_password").map(|(_, v)| String::from_utf8(v.clone()).unwrap()).unwrap_or(vkit::acct::PASSWORD.to_string());
                            let key = AccessKey::Password(secrecy::SecretString::new(cur.into()));
                            // new accounts use AES-GCM-256: the other cipher and KDF force a real conversion
                            a.change_cipher(&key, &sos_core::crypto::Cipher::XChaCha20Poly1305, Some(sos_core::crypto::KeyDerivation::BalloonHash)).await?;
                        }
                        "export_backup_archive" => {
                            a.export_backup_archive(&cdir.join(format!("backup-{}.zip", pos))).await?;
                        }
                        _ => unreachable!(),
                    }
                    Ok(())
                }
                .await;
                match r {
                    Ok(()) => {
                        ops_applied += 1;
                        outcome.push('a');
                        if name == "change_account_password" {
                            markers.push(("accepted_account_password".into(), m.clone().into_bytes()));
                        }
                    }
                    Err(_) => {
                        ops_refused += 1;
                        outcome.push('r');
                        loc = loc_now;
                    }
                }
            }
            let fin = d.sync().await;
            outcome.push(if fin == SyncResult::Ok { 's' } else { 'e' });
            outcomes.insert(format!("{}:{}", q.iter().map(|o| HOPS[*o]).collect::<Vec<_>>().join(">"), outcome));
            d.close().await;
            {
                // fresh sign-in with the password in force at the end
                let cur = markers.iter().rev().find(|(n, _)| n == "accepted_account_password").map(|(_, v)| String::from_utf8(v.clone()).unwrap()).unwrap_or(vkit::acct::PASSWORD.to_string());
                if let Ok(mut d) = Dev::open(&cdir, backend, account_id, secrecy::SecretString::new(cur.into())).await {
                    let _ = d.account.initialize_search_index().await;
                    d.close().await;
                }
            }
            server.stop().await;
            tee.task.abort();
            let wire = tee.captured.lock().unwrap().clone();
            wire_bytes += wire.len() as u64;
            let mut hay: Vec<(String, Vec<u8>)> = vec![("wire:tee".to_string(), wire)];
            hay.extend(new_log_bytes(logs_dir));
            for root in ["client", "server"] {
                for p in fsutil::walk_files(&run.join(root)) {
                    if let Ok(b) = std::fs::read(&p) {
                        let rel = p.strip_prefix(&run).unwrap().to_string_lossy().to_string();
                        if rel.ends_with(".zip") {
                            if let Ok(entries) = inflate(&b).await {
                                for (n, e) in entries {
                                    hay.push((format!("{}!{}", rel, n), e));
                                }
                            }
                        }
                        hay.push((rel, b));
                    }
                }
            }
            haystacks += hay.len() as u64;
            for (hname, h) in &hay {
                scanned_bytes += h.len() as u64;
                for (mname, mk) in &markers {
                    let mname = if mname == "accepted_account_password" { "new_account_password" } else { mname.as_str() };
                    for (fname, f) in forms(mk) {
                        checks += 1;
                        if memmem(h, &f) {
                            let place = if hname.starts_with("wire") {
                                "wire".to_string()
                            } else if hname.starts_with("logs/") {
                                "log_file".to_string()
                            } else {
                                let top = hname.split('/').next().unwrap_or("");
                                let file = hname.rsplit('/').next().unwrap_or("");
                                let ext = if file.contains('!') { "archive_entry".to_string() } else { file.rsplit('.').next().unwrap_or("").to_string() };
                                format!("{}:{}", top, ext)
                            };
                            fails.push(json!({"sig": format!("plaintext_found:{}:{}:{}", mname, place, fname), "what": format!("after the history {:?} the {} marker occurs ({}) in {}", q.iter().map(|o| HOPS[*o]).collect::<Vec<_>>(), mname, fname, hname), "detail": {"kind": "history", "history": q.iter().map(|o| HOPS[*o]).collect::<Vec<_>>(), "backend": backend.name(), "where": hname}}));
                        }
                    }
                }
            }
        }
        Ok(json!({"markers": base_markers.len(), "haystacks": haystacks, "scanned_bytes": scanned_bytes, "wire_bytes": wire_bytes, "checks": checks, "sequences": seqs.len(), "ops_applied": ops_applied, "ops_refused": ops_refused, "outcomes": outcomes.len(), "outcome_list": outcomes.iter().filter(|o| !o.ends_with("s") || o.rsplit(':').next().unwrap().contains('r')).cloned().collect::<Vec<_>>()}))
    }
    .await;
    let mut v = match res {
        Ok(v) => v,
        Err(e) => json!({"error": e.to_string()}),
    };
    v["fails"] = json!(fails);
    v
}

async fn inflate(bytes: &[u8]) -> Result<Vec<(String, Vec<u8>)>> {
    use async_zip::base::read::mem::ZipFileReader;
    use futures::AsyncReadExt as _;
    let reader = ZipFileReader::new(bytes.to_vec()).await?;
    let mut out = vec![];
    for i in 0..reader.file().entries().len() {
        let name = reader.file().entries()[i].filename().as_str().unwrap_or("?").to_string();
        let mut r = reader.reader_with_entry(i).await?;
        let mut buf = vec![];
        r.read_to_end(&mut buf).await?;
        out.push((name, buf));
    }
    Ok(out)
}

fn rt() -> tokio::runtime::Runtime {
    tokio::runtime::Builder::new_multi_thread().worker_threads(3).enable_all().build().unwrap()
}

fn items(tier: Tier) -> Vec<(String, Backend)> {
    let mut v = vec![];
    // device pairing: both directions of the protocol on both backends
    for b in [Backend::Fs, Backend::Db] {
        v.push(("pairing".to_string(), b));
        v.push(("pairing_inverted".to_string(), b));
    }
    // operation histories: one item per first operation
    for b in [Backend::Fs, Backend::Db] {
        if b == Backend::Db && tier == Tier::Quick {
            continue;
        }
        for o in 0..HOPS.len() {
            v.push((format!("history:{}", o), b));
        }
    }
    for k in gen::KINDS {
        v.push((k.to_string(), Backend::Fs));
        if tier == Tier::Thorough || ["note", "login", "file", "contact", "totp"].contains(&k) {
            v.push((k.to_string(), Backend::Db));
        }
    }
    v
}

fn main() {
    let args = Args::parse();
    let its = items(args.tier);
    if pool::worker_stage().is_some() {
        let wd = fsutil::WorkDir::new("leakx-w");
        let rt = rt();
        // the real file logger (what the apps, the CLI and the extension
        // helper install) at the most verbose level a user can configure:
        // log files are storage too
        std::env::remove_var("RUST_LOG");
        let logs_dir = wd.path().join("logs");
        std::fs::create_dir_all(&logs_dir).unwrap();
        let _ = sos_logs::Logger::new_dir(logs_dir.clone(), "saveoursecrets.log".to_string()).init_file_subscriber(Some("trace".to_string()));
        pool::worker_loop(|idx| {
            let (k, b) = &its[idx];
            if let Some(o) = k.strip_prefix("history:") {
                rt.block_on(run_histories(o.parse().unwrap(), *b, hist_depth(args.tier), &wd.path().join("w"), &logs_dir))
            } else if k.starts_with("pairing") {
                // the protocol has no timeout of its own: a run that does
                // not finish within the horizon is repeated (twice at most)
                let mut v = Value::Null;
                for _attempt in 0..3 {
                    v = rt.block_on(run_pairing(*b, k == "pairing_inverted", &wd.path().join("w"), &logs_dir));
                    let stuck = v.get("error").and_then(|e| e.as_str()).map(|e| e.contains("did not finish")).unwrap_or(false);
                    if !stuck {
                        break;
                    }
                }
                v
            } else {
                rt.block_on(run_kind(k, *b, &wd.path().join("w"), &logs_dir))
            }
        });
    }
    let mut run = Run::new("C03", "model_checking", &args);
    let mut opts = PoolOpts::default();
    opts.item_timeout = std::time::Duration::from_secs(args.tier.pick(600, 3600));
    let res = pool::run_stage("kinds", its.len(), &opts);
    let mut samples = vec![];
    let mut checks = 0u64;
    let mut bytes = 0u64;
    let mut wire = 0u64;
    let mut hay = 0u64;
    let mut hist_irregular: Vec<String> = vec![];
    let (mut hist_seqs, mut hist_applied, mut hist_refused, mut hist_outcomes) = (0u64, 0u64, 0u64, 0u64);
    for (i, r) in res.into_iter().enumerate() {
        match r {
            pool::ItemResult::Crashed(w) => run.machinery(format!("{:?}: {}", its[i], w)),
            pool::ItemResult::Done(v) => {
                if let Some(e) = v.get("error").and_then(|e| e.as_str()) {
                    run.machinery(format!("{:?}: {}", its[i], e));
                    continue;
                }
                checks += v["checks"].as_u64().unwrap_or(0);
                bytes += v["scanned_bytes"].as_u64().unwrap_or(0);
                wire += v["wire_bytes"].as_u64().unwrap_or(0);
                hay += v["haystacks"].as_u64().unwrap_or(0);
                for f in v["fails"].as_array().unwrap() {
                    run.fail(f["sig"].as_str().unwrap(), f["what"].as_str().unwrap(), json!({"engine":"leakx","kind": its[i].0, "backend": its[i].1.name(), "detail": f["detail"]}));
                }
                if its[i].0.starts_with("history:") {
                    hist_seqs += v["sequences"].as_u64().unwrap_or(0);
                    hist_applied += v["ops_applied"].as_u64().unwrap_or(0);
                    hist_refused += v["ops_refused"].as_u64().unwrap_or(0);
                    hist_outcomes += v["outcomes"].as_u64().unwrap_or(0);
                    for o in v["outcome_list"].as_array().cloned().unwrap_or_default() {
                        hist_irregular.push(format!("{}:{}", its[i].1.name(), o.as_str().unwrap_or("")));
                    }
                    continue;
                }
                push_sample(&mut samples, json!({"kind": its[i].0, "backend": its[i].1.name(), "history": ["create secret (marker values)", "update secret", "create folder + description", "attachment (note kind)", "export backup archive", "export folder", "sync through tee", "create + sync", "second device pulls", "device 2 deletes / device 1 updates the same secret", "auto merge on both"], "markers": v["markers"], "files_and_streams_scanned": v["haystacks"]}), 4);
            }
        }
    }
    if wire == 0 || checks == 0 {
        run.machinery("vacuous: nothing captured on the wire or nothing scanned");
    }
    run.assume("absence of the enumerated encodings of each marker is what is decided; the cryptographic strength of the ciphers is trusted");
    run.assume("folder names, account names and identifiers are not markers (the property allows them in the clear)");
    let mut cov = Map::new();
    let fixed = its.iter().filter(|(k, _)| !k.starts_with("history:")).count() as u64;
    if hist_seqs == 0 || hist_applied == 0 {
        run.machinery("vacuous: no operation history was executed");
    }
    cov.insert("states".into(), json!(fixed + hist_seqs));
    cov.insert("transitions".into(), json!(fixed * 9 + hist_applied + hist_refused));
    cov.insert("traces_validated_against_impl".into(), json!(fixed + hist_seqs));
    cov.insert("operation_histories".into(), json!({"alphabet": HOPS, "depth": hist_depth(args.tier), "backends": args.tier.pick("fs", "fs and sqlite"), "sequences": hist_seqs, "operations_applied": hist_applied, "operations_refused_by_the_sdk": hist_refused, "distinct_outcome_patterns": hist_outcomes, "histories_with_a_refused_operation_or_failed_final_sync (a=applied r=refused, then s=final sync ok e=not ok)": hist_irregular}));
    cov.insert("samples".into(), json!(samples));
    cov.insert("marker_form_checks".into(), json!(checks));
    cov.insert("bytes_scanned".into(), json!(bytes));
    cov.insert("wire_bytes_captured".into(), json!(wire));
    cov.insert("files_and_streams_scanned".into(), json!(hay));
    cov.insert("exhaustive".into(), json!(true));
    cov.insert("rule".into(), json!("every operation sequence of the stated depth over the 14-operation alphabet (operation_histories) from a two-folder baseline account, each followed by a sync through the tee and a scan of the client directory, the server directory and the wire, every plaintext introduced at any position being its own marker; device pairing (offer/accept and the inverted protocol) on both backends through the server's relay with all websocket traffic captured, then per kind: all 15 secret kinds x client backend (fs for all, sqlite for 5 kinds in quick / all in thorough); one fixed 9-step history per kind whose every plaintext carries a marker; every file of both client directories and the server directory (archives also inflated) and the full TCP capture scanned for every marker in raw / hex / base64 (3 alignments, std and url) / UTF-16 / JSON-escaped form; positive control: planted marker found and markers present in the decrypted view"));
    let _ = PathBuf::new();
    std::process::exit(run.finish(cov));
}
