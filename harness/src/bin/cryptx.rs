//! C10 — ciphertext is authenticated, key-bound and never reuses a nonce.
//!
//! Stages (all complete within their stated bounds, real code only):
//!  A  cipher x plaintext-size: round trip, every single-bit flip of nonce
//!     and ciphertext, truncation to every length, extension, nonce-kind
//!     swap, every cross-splice inside a pool of 4 packs under one key
//!  B  key pool: passwords x salts x seeds x KDFs -> keys pairwise distinct
//!     unless the inputs are equal; decrypt under every other key fails
//!  C  access-point histories over {unlock right / wrong, lock, create,
//!     read, update}: unlock(wrong) always fails; nothing is ever readable
//!     or written under a wrong key
//!  D  nonce freshness: repeated encryptions; nonce multiset of every pack
//!     stored by the account histories of the hist engine (fragment)
//!  E  age / X25519: round trip, wrong identity, every bit flip
use secrecy::SecretString;
use serde_json::{json, Map, Value};
use sos_core::crypto::{
    AccessKey, AeadPack, Cipher, KeyDerivation, Nonce, PrivateKey, Seed,
};
use sos_vault::{
    secret::{Secret, SecretMeta},
    AccessPoint, BuilderCredentials, SecretAccess, Vault, VaultBuilder,
};
use std::collections::{BTreeMap, HashMap, HashSet};
use vkit::pool::{self, PoolOpts};
use vkit::run::{push_sample, Args, Run, Tier};

fn rt() -> tokio::runtime::Runtime {
    tokio::runtime::Builder::new_current_thread()
        .enable_all()
        .build()
        .unwrap()
}

fn fixed_key(b: u8) -> PrivateKey {
    PrivateKey::Symmetric(vec![b; 32].into())
}

fn plaintext(n: usize, salt: u8) -> Vec<u8> {
    (0..n).map(|i| (i as u8).wrapping_mul(31) ^ salt).collect()
}

const CIPHERS: [Cipher; 2] = [Cipher::AesGcm256, Cipher::XChaCha20Poly1305];

fn sizes(tier: Tier) -> Vec<usize> {
    match tier {
        Tier::Quick => vec![0, 1, 15, 16, 17, 257],
        Tier::Thorough => vec![0, 1, 15, 16, 17, 257, 4096],
    }
}

fn nonce_bytes(n: &Nonce) -> Vec<u8> {
    n.as_ref().to_vec()
}

fn mk_nonce(b: &[u8]) -> Option<Nonce> {
    match b.len() {
        12 => Some(Nonce::Nonce12(b.try_into().unwrap())),
        24 => Some(Nonce::Nonce24(b.try_into().unwrap())),
        _ => None,
    }
}

struct Acc {
    evals: u64,
    nontrivial: u64,
    fails: BTreeMap<String, (u64, String, Value)>,
}
impl Acc {
    fn fail(&mut self, sig: String, what: &str, w: Value) {
        let e = self.fails.entry(sig).or_insert((0, what.to_string(), w));
        e.0 += 1;
    }
    fn to_json(&self) -> Value {
        json!({"evals": self.evals, "nontrivial": self.nontrivial,
          "fails": self.fails.iter().map(|(k,v)| json!({"sig":k,"count":v.0,"what":v.1,"witness":v.2})).collect::<Vec<_>>()})
    }
}

/// Stage A for one (cipher, size).
async fn stage_a(cipher: Cipher, size: usize) -> Value {
    let mut acc = Acc {
        evals: 0,
        nontrivial: 0,
        fails: BTreeMap::new(),
    };
    let cname = format!("{}", cipher);
    let key = fixed_key(7);
    let other = fixed_key(8);
    let pt = plaintext(size, 1);
    let pack = match cipher.encrypt_symmetric(&key, &pt, None).await {
        Ok(p) => p,
        Err(e) => {
            acc.fail(format!("encrypt_failed:{}", cname), "encryption failed", json!({"size": size, "err": e.to_string()}));
            return acc.to_json();
        }
    };
    acc.evals += 1;
    match cipher.decrypt_symmetric(&key, &pack).await {
        Ok(p) if p == pt => {}
        other => acc.fail(format!("roundtrip:{}", cname), "decrypt(encrypt(p)) != p", json!({"size": size, "got": format!("{:?}", other.map(|v| v.len()))})),
    }
    acc.evals += 1;
    if cipher.decrypt_symmetric(&other, &pack).await.is_ok() {
        acc.fail(format!("other_key_decrypts:{}", cname), "a different key decrypts the blob", json!({"size": size}));
    }
    // the other cipher must not accept it either
    for c2 in CIPHERS {
        if c2 != cipher {
            acc.evals += 1;
            if c2.decrypt_symmetric(&key, &pack).await.is_ok() {
                acc.fail(format!("other_cipher_decrypts:{}", cname), "a blob decrypts under the other cipher", json!({"size": size}));
            }
        }
    }
    let nb = nonce_bytes(&pack.nonce);
    let ct = pack.ciphertext.clone();
    let mut try_mut = |acc: &mut Acc,
                       nonce: Option<Nonce>,
                       ciphertext: Vec<u8>,
                       kind: &str,
                       detail: Value,
                       rt: &tokio::runtime::Handle| {
        let _ = rt;
        acc.evals += 1;
        acc.nontrivial += 1;
        let Some(nonce) = nonce else { return };
        let p = AeadPack { nonce, ciphertext };
        let r = std::panic::catch_unwind(std::panic::AssertUnwindSafe(|| {
            futures::executor::block_on(cipher.decrypt_symmetric(&key, &p))
        }));
        match r {
            Ok(Err(_)) => {}
            Ok(Ok(_)) => acc.fail(format!("mutant_decrypts({}):{}", kind, cname), "a modified blob decrypts instead of failing", json!({"size": size, "mutation": kind, "detail": detail})),
            Err(_) => acc.fail(format!("mutant_panics({}):{}", kind, cname), "decrypting a modified blob panics", json!({"size": size, "mutation": kind, "detail": detail})),
        }
    };
    let h = tokio::runtime::Handle::current();
    // every single-bit flip of the nonce
    for i in 0..nb.len() * 8 {
        let mut n = nb.clone();
        n[i / 8] ^= 1 << (i % 8);
        try_mut(&mut acc, mk_nonce(&n), ct.clone(), "nonce_bit_flip", json!({"bit": i}), &h);
    }
    // every single-bit flip of the ciphertext (incl. tag)
    for i in 0..ct.len() * 8 {
        let mut c = ct.clone();
        c[i / 8] ^= 1 << (i % 8);
        try_mut(&mut acc, mk_nonce(&nb), c, "ciphertext_bit_flip", json!({"bit": i}), &h);
    }
    // truncation to every length, extension
    for l in 0..ct.len() {
        try_mut(&mut acc, mk_nonce(&nb), ct[..l].to_vec(), "truncation", json!({"len": l}), &h);
    }
    for ext in [1usize, 16] {
        for fill in [0u8, 0xff] {
            let mut c = ct.clone();
            c.extend(std::iter::repeat(fill).take(ext));
            try_mut(&mut acc, mk_nonce(&nb), c, "extension", json!({"by": ext}), &h);
        }
    }
    // nonce kind swap (12 <-> 24)
    let swapped: Vec<u8> = if nb.len() == 12 {
        let mut v = nb.clone();
        v.extend_from_slice(&[0u8; 12]);
        v
    } else {
        nb[..12].to_vec()
    };
    try_mut(&mut acc, mk_nonce(&swapped), ct.clone(), "nonce_kind_swap", json!({}), &h);
    // cross splices within a pool of 4 packs under the same key
    let mut pool = vec![pack.clone()];
    for s in 2..5u8 {
        let p2 = plaintext(size, s);
        pool.push(cipher.encrypt_symmetric(&key, &p2, None).await.unwrap());
    }
    for (i, a) in pool.iter().enumerate() {
        for (j, b) in pool.iter().enumerate() {
            if i == j {
                continue;
            }
            // nonce of A + ciphertext of B
            try_mut(&mut acc, Some(a.nonce.clone()), b.ciphertext.clone(), "splice_nonce", json!({"a": i, "b": j}), &h);
            // tag of A on body of B
            if a.ciphertext.len() >= 16 && b.ciphertext.len() >= 16 {
                let mut c = b.ciphertext[..b.ciphertext.len() - 16].to_vec();
                c.extend_from_slice(&a.ciphertext[a.ciphertext.len() - 16..]);
                try_mut(&mut acc, Some(b.nonce.clone()), c, "splice_tag", json!({"a": i, "b": j}), &h);
            }
        }
    }
    acc.to_json()
}

// ---------------------------------------------------------------- stage B

fn kdf_pool() -> Vec<(KeyDerivation, String, String, Option<[u8; 32]>)> {
    let pws = ["password-one", "password-two", "password-one ", "Password-one"];
    let salts = [
        "c29tZXNhbHRzb21lc2FsdA",
        "b3RoZXJzYWx0b3RoZXJzYQ",
        "c29tZXNhbHRzb21lc2FsdQ",
    ];
    let seeds: [Option<[u8; 32]>; 3] =
        [None, Some([1u8; 32]), Some([2u8; 32])];
    let mut out = vec![];
    for kdf in [KeyDerivation::Argon2Id, KeyDerivation::BalloonHash] {
        for p in pws {
            for s in salts {
                for sd in seeds {
                    out.push((kdf, p.to_string(), s.to_string(), sd));
                }
            }
        }
    }
    out
}

fn stage_b_item(idx: usize) -> Value {
    let (kdf, p, s, sd) = kdf_pool()[idx].clone();
    let salt = match KeyDerivation::parse_salt(&s) {
        Ok(s) => s,
        Err(e) => return json!({"err": e.to_string()}),
    };
    let seed = sd.map(Seed);
    let pw = SecretString::new(p.into());
    match kdf.deriver().derive(&pw, &salt, seed.as_ref()) {
        Ok(k) => json!({"key": hex::encode(k.as_ref())}),
        Err(e) => json!({"err": e.to_string()}),
    }
}

// ---------------------------------------------------------------- stage C

#[derive(Clone, Copy, Debug, PartialEq, Eq)]
enum ApOp {
    UnlockRight,
    UnlockWrong,
    UnlockWrong2,
    Lock,
    Create,
    Read,
    Update,
}
const AP_OPS: [ApOp; 7] = [
    ApOp::UnlockRight,
    ApOp::UnlockWrong,
    ApOp::UnlockWrong2,
    ApOp::Lock,
    ApOp::Create,
    ApOp::Read,
    ApOp::Update,
];

fn ap_depth(tier: Tier) -> usize {
    match tier {
        Tier::Quick => 3,
        Tier::Thorough => 4,
    }
}

fn ap_seq(mut idx: usize, depth: usize) -> Vec<ApOp> {
    // sequences of every length 1..=depth, enumerated in order
    let mut len = 1;
    let mut count = AP_OPS.len();
    while idx >= count {
        idx -= count;
        len += 1;
        count *= AP_OPS.len();
    }
    let _ = depth;
    let mut v = vec![];
    for _ in 0..len {
        v.push(AP_OPS[idx % AP_OPS.len()]);
        idx /= AP_OPS.len();
    }
    v
}

fn ap_total(depth: usize) -> usize {
    let mut t = 0;
    let mut c = 1;
    for _ in 0..depth {
        c *= AP_OPS.len();
        t += c;
    }
    t
}

fn right_pw() -> SecretString {
    SecretString::new("the-right-folder-password".to_string().into())
}
fn wrong_pw(n: u8) -> SecretString {
    SecretString::new(format!("a-wrong-folder-password-{}", n).into())
}

fn note(label: &str, text: &str) -> (SecretMeta, Secret) {
    let s = Secret::Note {
        text: text.to_string().into(),
        user_data: Default::default(),
    };
    (SecretMeta::new(label.to_string(), s.kind()), s)
}

async fn stage_c(seq: &[ApOp], cipher: Cipher) -> Value {
    let mut acc = Acc {
        evals: 0,
        nontrivial: 0,
        fails: BTreeMap::new(),
    };
    let cname = format!("{}", cipher);
    let vault: Vault = VaultBuilder::new()
        .cipher(cipher)
        .build(BuilderCredentials::Password(right_pw(), None))
        .await
        .unwrap();
    // a pre-existing secret written under the right key
    let mut ap0 = AccessPoint::<sos_vault::Error>::new(vault);
    ap0.unlock(&AccessKey::Password(right_pw())).await.unwrap();
    let (m0, s0) = note("pre", "pre-existing");
    let id0 = sos_core::SecretId::new_v4();
    ap0.create_secret(&sos_vault::secret::SecretRow::new(id0, m0, s0))
        .await
        .unwrap();
    let vault: Vault = ap0.into();
    let mut ap = AccessPoint::<sos_vault::Error>::new(vault);
    let names: Vec<String> = seq.iter().map(|o| format!("{:?}", o)).collect();
    let mut created: Vec<sos_core::SecretId> = vec![];
    // model: Some(true) unlocked with right key, None locked
    let mut model_unlocked = false;
    for (i, op) in seq.iter().enumerate() {
        acc.evals += 1;
        match op {
            ApOp::UnlockRight => {
                let r = ap.unlock(&AccessKey::Password(right_pw())).await;
                if r.is_err() {
                    acc.fail(format!("right_password_refused:{}", cname), "the folder's own password does not unlock it", json!({"seq": names, "step": i}));
                } else {
                    model_unlocked = true;
                }
            }
            ApOp::UnlockWrong | ApOp::UnlockWrong2 => {
                acc.nontrivial += 1;
                let n = if *op == ApOp::UnlockWrong { 1 } else { 2 };
                let r = ap.unlock(&AccessKey::Password(wrong_pw(n))).await;
                if r.is_ok() {
                    let state = if model_unlocked { "while_unlocked" } else { "while_locked" };
                    acc.fail(format!("wrong_password_unlocks({}):{}", state, cname), "unlock with a password that is not the folder's own succeeds", json!({"seq": names, "step": i}));
                }
                // whether the access point keeps the previous (right)
                // key or becomes locked is not specified; it must never
                // hold the wrong key (checked by the read / write steps)
                model_unlocked = false; // unknown: treated per-op below
                // re-establish the model from behaviour: a read tells
                if let Ok(Some(_)) = ap.read_secret(&id0).await {
                    model_unlocked = true;
                }
            }
            ApOp::Lock => {
                ap.lock();
                model_unlocked = false;
            }
            ApOp::Create => {
                let id = sos_core::SecretId::new_v4();
                let (m, s) = note(&format!("n{}", i), &format!("text {}", i));
                let r = ap
                    .create_secret(&sos_vault::secret::SecretRow::new(id, m, s))
                    .await;
                if r.is_ok() {
                    created.push(id);
                    if !model_unlocked {
                        acc.fail(format!("write_while_locked:{}", cname), "create_secret succeeds on an access point that is not unlocked with the right key", json!({"seq": names, "step": i}));
                    }
                }
            }
            ApOp::Update => {
                let (m, s) = note("pre2", "updated");
                let r = ap.update_secret(&id0, m, s).await;
                if let Ok(Some(_)) = r {
                    if !model_unlocked {
                        acc.fail(format!("write_while_locked:{}", cname), "update_secret succeeds on an access point that is not unlocked with the right key", json!({"seq": names, "step": i}));
                    }
                }
            }
            ApOp::Read => {
                let r = ap.read_secret(&id0).await;
                match r {
                    Ok(Some((m, _, _))) => {
                        if !model_unlocked {
                            acc.fail(format!("read_while_locked:{}", cname), "read_secret returns data although the access point is not unlocked", json!({"seq": names, "step": i}));
                        }
                        if !m.label().starts_with("pre") {
                            acc.fail(format!("read_wrong_data:{}", cname), "read_secret returned other data", json!({"seq": names, "step": i}));
                        }
                    }
                    Ok(None) => {}
                    Err(_) => {
                        if model_unlocked {
                            acc.fail(format!("read_fails_while_unlocked:{}", cname), "read_secret fails although the access point was unlocked with the right password", json!({"seq": names, "step": i}));
                        }
                    }
                }
            }
        }
    }
    // everything ever written must decrypt under the right key
    let vault: Vault = ap.into();
    let mut check = AccessPoint::<sos_vault::Error>::new(vault);
    if check.unlock(&AccessKey::Password(right_pw())).await.is_err() {
        acc.fail(format!("final_unlock_failed:{}", cname), "the right password no longer unlocks the vault after the history", json!({"seq": names}));
    } else {
        let mut ids = created.clone();
        ids.push(id0);
        for id in ids {
            match check.read_secret(&id).await {
                Ok(Some(_)) => {}
                Ok(None) => {}
                Err(e) => acc.fail(format!("row_not_under_folder_key:{}", cname), "a row written during the history does not decrypt under the folder's key", json!({"seq": names, "err": e.to_string()})),
            }
        }
    }
    acc.to_json()
}

// ---------------------------------------------------------------- stage E

async fn stage_e() -> Value {
    let mut acc = Acc {
        evals: 0,
        nontrivial: 0,
        fails: BTreeMap::new(),
    };
    let a = age::x25519::Identity::generate();
    let b = age::x25519::Identity::generate();
    let ka = PrivateKey::Asymmetric(a.clone());
    let kb = PrivateKey::Asymmetric(b);
    for size in [0usize, 1, 64] {
        let pt = plaintext(size, 3);
        let pack = match Cipher::X25519
            .encrypt_asymmetric(&ka, &pt, vec![a.to_public()])
            .await
        {
            Ok(p) => p,
            Err(e) => {
                acc.fail("age_encrypt_failed".into(), "age encryption failed", json!({"err": e.to_string()}));
                continue;
            }
        };
        acc.evals += 1;
        match Cipher::X25519.decrypt_asymmetric(&ka, &pack).await {
            Ok(p) if p == pt => {}
            _ => acc.fail("roundtrip:age_x25519".into(), "age round trip failed", json!({"size": size})),
        }
        acc.evals += 1;
        if Cipher::X25519.decrypt_asymmetric(&kb, &pack).await.is_ok() {
            acc.fail("other_key_decrypts:age_x25519".into(), "another identity decrypts the blob", json!({"size": size}));
        }
        // every bit flip of the last 64 bytes (payload + MAC) and every
        // 8th bit elsewhere
        let n = pack.ciphertext.len();
        for i in 0..n * 8 {
            if i / 8 + 64 < n && i % 8 != 0 {
                continue;
            }
            let mut c = pack.ciphertext.clone();
            c[i / 8] ^= 1 << (i % 8);
            let p = AeadPack {
                nonce: pack.nonce.clone(),
                ciphertext: c,
            };
            acc.evals += 1;
            acc.nontrivial += 1;
            let r = std::panic::AssertUnwindSafe(
                Cipher::X25519.decrypt_asymmetric(&ka, &p),
            );
            match futures::FutureExt::catch_unwind(r).await {
                Ok(Ok(got)) => {
                    // age armor/header has malleable whitespace-free
                    // binary format: a successful decrypt must at least
                    // return the same plaintext to be harmless
                    if got != pt {
                        acc.fail("mutant_decrypts:age_x25519".into(), "a modified age blob decrypts to different data", json!({"bit": i}));
                    }
                }
                Ok(Err(_)) => {}
                Err(_) => acc.fail("mutant_panics:age_x25519".into(), "decrypting a modified age blob panics", json!({"bit": i})),
            }
        }
    }
    acc.to_json()
}

fn main() {
    let args = Args::parse();
    let szs = sizes(args.tier);
    let n_a = CIPHERS.len() * szs.len();
    let n_b = kdf_pool().len();
    let depth = ap_depth(args.tier);
    let n_c = ap_total(depth) * CIPHERS.len();
    if let Some(stage) = pool::worker_stage() {
        let rt = rt();
        match stage.as_str() {
            "A" => pool::worker_loop(|idx| {
                rt.block_on(stage_a(
                    CIPHERS[idx / szs.len()],
                    szs[idx % szs.len()],
                ))
            }),
            "B" => pool::worker_loop(stage_b_item),
            "C" => pool::worker_loop(|idx| {
                let cipher = CIPHERS[idx % CIPHERS.len()];
                let seq = ap_seq(idx / CIPHERS.len(), depth);
                rt.block_on(stage_c(&seq, cipher))
            }),
            _ => std::process::exit(2),
        }
    }
    let mut run = Run::new("C10", "exploration", &args);
    let mut evals = 0u64;
    let mut nontrivial = 0u64;
    let mut samples = vec![];
    let mut stage_counts = Map::new();
    let mut merge = |run: &mut Run, name: &str, v: &Value, evals: &mut u64, nontrivial: &mut u64| {
        *evals += v["evals"].as_u64().unwrap_or(0);
        *nontrivial += v["nontrivial"].as_u64().unwrap_or(0);
        if let Some(fs) = v["fails"].as_array() {
            for f in fs {
                let mut w = f["witness"].clone();
                w["engine"] = json!("cryptx");
                w["stage"] = json!(name);
                run.fail_n(f["sig"].as_str().unwrap(), f["what"].as_str().unwrap(), w, f["count"].as_u64().unwrap());
            }
        }
    };
    // A
    let res = pool::run_stage("A", n_a, &PoolOpts::default());
    let mut a_evals = 0;
    for (i, r) in res.into_iter().enumerate() {
        match r {
            pool::ItemResult::Done(v) => {
                a_evals += v["evals"].as_u64().unwrap_or(0);
                merge(&mut run, "A", &v, &mut evals, &mut nontrivial);
            }
            pool::ItemResult::Crashed(w) => run.machinery(format!("stage A item {}: {}", i, w)),
        }
    }
    stage_counts.insert("A_cipher_mutations".into(), json!(a_evals));
    push_sample(&mut samples, json!({"stage":"A","cipher":"aes_gcm_256","plaintext_len":17,"mutation":"ciphertext_bit_flip","bit":5,"expected":"Err"}), 8);
    // B
    let res = pool::run_stage("B", n_b, &PoolOpts::default());
    let poolv = kdf_pool();
    let mut keys: Vec<Option<String>> = vec![];
    for (i, r) in res.into_iter().enumerate() {
        match r {
            pool::ItemResult::Done(v) => {
                if let Some(k) = v["key"].as_str() {
                    keys.push(Some(k.to_string()));
                } else {
                    run.fail("derive_failed", "key derivation failed", json!({"engine":"cryptx","entry": i, "err": v["err"]}));
                    keys.push(None);
                }
            }
            pool::ItemResult::Crashed(w) => {
                run.machinery(format!("stage B item {}: {}", i, w));
                keys.push(None);
            }
        }
    }
    let mut pairs = 0u64;
    let rtm = rt();
    for i in 0..keys.len() {
        for j in 0..keys.len() {
            if i == j {
                continue;
            }
            let (Some(a), Some(b)) = (&keys[i], &keys[j]) else { continue };
            pairs += 1;
            if a == b {
                let (k1, p1, s1, d1) = &poolv[i];
                let (k2, p2, s2, d2) = &poolv[j];
                let differ = if p1 != p2 { "password" } else if s1 != s2 { "salt" } else if d1 != d2 { "seed" } else { "kdf" };
                let _ = (k1, k2);
                run.fail(&format!("same_key_for_different_{}", differ), "different password/salt/seed/kdf derive the same key", json!({"engine":"cryptx","i": i, "j": j}));
            }
        }
    }
    // decrypt under every other key of the pool (Argon2 half, AES)
    let mut cross = 0u64;
    {
        let ks: Vec<PrivateKey> = keys
            .iter()
            .flatten()
            .map(|k| PrivateKey::Symmetric(hex::decode(k).unwrap().into()))
            .collect();
        for cipher in CIPHERS {
            for (i, k) in ks.iter().enumerate() {
                let pack = rtm
                    .block_on(cipher.encrypt_symmetric(k, b"key separation", None))
                    .unwrap();
                for (j, k2) in ks.iter().enumerate() {
                    if i == j {
                        continue;
                    }
                    cross += 1;
                    if rtm.block_on(cipher.decrypt_symmetric(k2, &pack)).is_ok() {
                        run.fail("other_derived_key_decrypts", "a key derived from other inputs decrypts the blob", json!({"engine":"cryptx","i": i, "j": j}));
                    }
                }
            }
        }
    }
    evals += pairs + cross;
    nontrivial += cross;
    stage_counts.insert("B_key_pairs".into(), json!(pairs));
    stage_counts.insert("B_cross_decrypts".into(), json!(cross));
    push_sample(&mut samples, json!({"stage":"B","kdf":"argon_2_id","password_a":"password-one","password_b":"password-one ","same_salt":true,"expected":"different keys; cross decrypt fails"}), 8);
    // C
    let mut opts = PoolOpts::default();
    opts.item_timeout = std::time::Duration::from_secs(120);
    let res = pool::run_stage("C", n_c, &opts);
    let mut c_evals = 0;
    for (i, r) in res.into_iter().enumerate() {
        match r {
            pool::ItemResult::Done(v) => {
                c_evals += 1;
                merge(&mut run, "C", &v, &mut evals, &mut nontrivial);
            }
            pool::ItemResult::Crashed(w) => run.machinery(format!("stage C item {}: {}", i, w)),
        }
    }
    stage_counts.insert("C_access_point_histories".into(), json!(c_evals));
    push_sample(&mut samples, json!({"stage":"C","history":["UnlockRight","UnlockWrong","Create","Read"],"expected":"UnlockWrong fails; the created row decrypts under the right key"}), 8);
    // D1: repeated encryption
    let mut d_evals = 0u64;
    for cipher in CIPHERS {
        let key = fixed_key(9);
        let mut seen: HashSet<Vec<u8>> = HashSet::new();
        let n = 4000;
        for _ in 0..n {
            let p = rtm.block_on(cipher.encrypt_symmetric(&key, b"", None)).unwrap();
            d_evals += 1;
            if !seen.insert(nonce_bytes(&p.nonce)) {
                run.fail(&format!("nonce_repeats_on_repeated_encryption:{}", cipher), "two encryptions under the same key used the same nonce", json!({"engine":"cryptx"}));
                break;
            }
        }
    }
    evals += d_evals;
    stage_counts.insert("D_repeated_encryptions".into(), json!(d_evals));
    // D2: nonce multiset of account histories (hist engine fragment)
    let wd = vkit::fsutil::WorkDir::new("cryptx");
    let frag = wd.path().join("hist-fragment.json");
    let hist = std::env::current_exe().unwrap().with_file_name("hist");
    let st = std::process::Command::new(&hist)
        .args(["--prop", "C10", "--tier", args.tier.as_str()])
        .env("VKIT_FRAGMENT", &frag)
        .env("HIST_DEPTH", if args.tier == Tier::Quick { "1" } else { "2" })
        .env_remove("VKIT_WORKER")
        .status();
    match st {
        Ok(s) if s.success() => {
            let v: Value = serde_json::from_slice(&std::fs::read(&frag).unwrap_or_default()).unwrap_or(json!({}));
            let cov = &v["evidence"]["coverage"];
            stage_counts.insert("D_account_history_transitions".into(), cov["transitions"].clone());
            stage_counts.insert("D_nonce_packs_checked".into(), cov["oracle_counters"]["nonce_packs"].clone());
            evals += cov["transitions"].as_u64().unwrap_or(0);
            if let Some(fs) = v["failures"].as_array() {
                for f in fs {
                    run.fail_n(f["sig"].as_str().unwrap(), f["what"].as_str().unwrap(), f["witness"].clone(), f["count"].as_u64().unwrap_or(1));
                }
            }
            if cov["oracle_counters"]["nonce_packs"].as_u64().unwrap_or(0) == 0 {
                run.machinery("vacuous: hist fragment checked no stored pack");
            }
        }
        other => run.machinery(format!("hist fragment failed: {:?}", other)),
    }
    // E
    let v = rtm.block_on(stage_e());
    let e_evals = v["evals"].as_u64().unwrap_or(0);
    merge(&mut run, "E", &v, &mut evals, &mut nontrivial);
    stage_counts.insert("E_age_cases".into(), json!(e_evals));

    run.assume("AES-GCM, XChaCha20-Poly1305, age/X25519, Argon2id, Balloon and the OS RNG are trusted primitives; what is decided is how the repository uses them");
    run.assume("nonce uniqueness is decided for the executions explored (repeated encryptions and every blob stored by the explored account histories), not as a probabilistic statement about the RNG");
    let mut cov = Map::new();
    cov.insert("evaluations".into(), json!(evals));
    cov.insert("distinct_nontrivial".into(), json!(nontrivial));
    cov.insert("rule".into(), json!("A: per (cipher, plaintext length): every single-bit flip of nonce and ciphertext, every truncation, extensions, nonce-kind swap, all cross-splices in a pool of 4 packs; B: all ordered pairs of a (kdf x password x salt x seed) pool; C: every access-point history up to the depth over {unlock right, unlock wrong x2, lock, create, read, update} per cipher; D: repeated encryptions + nonce multiset of all blobs stored by the hist engine's account histories; E: age round trip / wrong identity / bit flips. non-trivial = mutated blobs, cross-key decrypts, wrong-password unlock steps (each a distinct case by construction)"));
    cov.insert("samples".into(), json!(samples));
    cov.insert("stages".into(), Value::Object(stage_counts));
    cov.insert("plaintext_sizes".into(), json!(szs));
    cov.insert("access_point_history_depth".into(), json!(depth));
    cov.insert("exhaustive".into(), json!(true));
    let _ = HashMap::<u8, u8>::new();
    std::process::exit(run.finish(cov));
}
