//! File-system helpers: scratch directories (under /dev/shm, removed on
//! drop), recursive copy, directory digests.
use sha2::{Digest, Sha256};
use std::collections::BTreeMap;
use std::path::{Path, PathBuf};
use std::sync::atomic::{AtomicU64, Ordering};

static SEQ: AtomicU64 = AtomicU64::new(0);
static LIVE: std::sync::Mutex<Vec<PathBuf>> = std::sync::Mutex::new(Vec::new());

/// Remove every scratch directory still registered (called before
/// `process::exit`, which skips destructors).
pub fn cleanup_all() {
    if let Ok(mut v) = LIVE.lock() {
        for p in v.drain(..) {
            let _ = std::fs::remove_dir_all(&p);
        }
    }
}

/// Remove scratch directories left behind by processes that no longer
/// exist (a worker killed at its timeout cannot clean up after itself).
pub fn reap_stale() {
    let base = if Path::new("/dev/shm").is_dir() { PathBuf::from("/dev/shm") } else { PathBuf::from("/verif/.work") };
    let Ok(rd) = std::fs::read_dir(&base) else { return };
    for e in rd.flatten() {
        let name = e.file_name().to_string_lossy().to_string();
        if !name.starts_with("verif-") {
            continue;
        }
        // verif-<tag>-<pid>-<seq>
        let parts: Vec<&str> = name.rsplitn(3, '-').collect();
        if parts.len() == 3 {
            if let Ok(pid) = parts[1].parse::<u32>() {
                if !Path::new(&format!("/proc/{}", pid)).exists() {
                    let _ = std::fs::remove_dir_all(e.path());
                }
            }
        }
    }
}

pub struct WorkDir(PathBuf);

impl WorkDir {
    pub fn new(tag: &str) -> WorkDir {
        let base = if Path::new("/dev/shm").is_dir() {
            PathBuf::from("/dev/shm")
        } else {
            PathBuf::from("/verif/.work")
        };
        let p = base.join(format!(
            "verif-{}-{}-{}",
            tag,
            std::process::id(),
            SEQ.fetch_add(1, Ordering::SeqCst)
        ));
        let _ = std::fs::remove_dir_all(&p);
        std::fs::create_dir_all(&p).expect("create work dir");
        if let Ok(mut v) = LIVE.lock() {
            v.push(p.clone());
        }
        WorkDir(p)
    }
    pub fn path(&self) -> &Path {
        &self.0
    }
}

impl Drop for WorkDir {
    fn drop(&mut self) {
        let _ = std::fs::remove_dir_all(&self.0);
        if let Ok(mut v) = LIVE.lock() {
            v.retain(|p| p != &self.0);
        }
    }
}

/// Copy a directory tree. The source may belong to a live (or just stopped)
/// server whose sqlite side files (-wal, -shm, -journal) come and go: a file
/// that vanishes between listing and copying makes the whole copy start
/// again, so the result is always a listing-consistent snapshot.
pub fn copy_dir(from: &Path, to: &Path) -> std::io::Result<()> {
    let mut last = None;
    for attempt in 0..6 {
        if attempt > 0 {
            let _ = std::fs::remove_dir_all(to);
            std::thread::sleep(std::time::Duration::from_millis(100 * attempt));
        }
        match copy_dir_once(from, to) {
            Ok(()) => return Ok(()),
            Err(e) if e.kind() == std::io::ErrorKind::NotFound && from.is_dir() => last = Some(e),
            Err(e) => return Err(e),
        }
    }
    Err(last.unwrap())
}

fn copy_dir_once(from: &Path, to: &Path) -> std::io::Result<()> {
    std::fs::create_dir_all(to)?;
    for e in std::fs::read_dir(from)? {
        let e = e?;
        let ft = e.file_type()?;
        let dst = to.join(e.file_name());
        if ft.is_dir() {
            copy_dir_once(&e.path(), &dst)?;
        } else if ft.is_file() {
            std::fs::copy(e.path(), &dst)?;
        }
    }
    Ok(())
}

pub fn walk_files(root: &Path) -> Vec<PathBuf> {
    let mut out = vec![];
    fn rec(p: &Path, out: &mut Vec<PathBuf>) {
        if let Ok(rd) = std::fs::read_dir(p) {
            let mut es: Vec<_> = rd.flatten().map(|e| e.path()).collect();
            es.sort();
            for p in es {
                if p.is_dir() {
                    rec(&p, out);
                } else {
                    out.push(p);
                }
            }
        }
    }
    rec(root, &mut out);
    out
}

/// Map relative path -> sha256 hex of content (directories as "<dir>").
pub fn tree_digest(root: &Path) -> BTreeMap<String, String> {
    let mut m = BTreeMap::new();
    fn rec(root: &Path, p: &Path, m: &mut BTreeMap<String, String>) {
        if let Ok(rd) = std::fs::read_dir(p) {
            for e in rd.flatten() {
                let p = e.path();
                let rel =
                    p.strip_prefix(root).unwrap().to_string_lossy().to_string();
                if p.is_dir() {
                    m.insert(rel, "<dir>".to_string());
                    rec(root, &p, m);
                } else {
                    let d = std::fs::read(&p)
                        .map(|b| hex::encode(Sha256::digest(&b)))
                        .unwrap_or_else(|_| "<unreadable>".into());
                    m.insert(rel, d);
                }
            }
        }
    }
    rec(root, root, &mut m);
    m
}

pub fn sha256_hex(b: &[u8]) -> String {
    hex::encode(Sha256::digest(b))
}
