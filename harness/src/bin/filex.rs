//! C17 — external file blobs are content-addressed and follow their secret.
//!
//! (a) every history of file-secret operations (incl. attaching / removing
//!     external-file fields, so that one secret owns several blobs) up to a
//!     depth on one device
//!     (file-system and sqlite client backends), executed on the real
//!     `LocalAccount`; after every step the blobs on disc == the files
//!     named by replaying the file event log == the reference model, every
//!     blob name is the SHA-256 of its bytes and decrypts to the content;
//! (b) the same histories driven through the real `NetworkAccount` with its
//!     file transfer queue against an in-process server and a second
//!     device; same oracle on the server directory and the second device
//!     once the transfers have settled;
//! (c) every upload body (correct, every single-byte alteration, every
//!     truncation, empty, extended, wrong name, aborted midway, repeated)
//!     as a raw signed HTTP PUT against the in-process server.
use anyhow::{anyhow, Result};
use serde::{Deserialize, Serialize};
use serde_json::{json, Map, Value};
use sha2::{Digest, Sha256};
use sos_account::Account;
use sos_client_storage::{AccessOptions, NewFolderOptions};
use sos_core::{encode, AccountId, ExternalFileName, Paths, SecretId, VaultId};
use sos_login::device::DeviceSigner;
use sos_net::{NetworkAccount, NetworkAccountOptions};
use sos_protocol::AccountSync;
use sos_server_storage::ServerAccountStorage;
use sos_signer::ed25519::BinaryEd25519Signature;
use sos_sync::StorageEventLogs;
use sos_vault::secret::{FileContent, Secret, SecretMeta, SecretRow};
use std::collections::{BTreeMap, BTreeSet};
use std::path::{Path, PathBuf};
use std::time::{Duration, Instant};
use vkit::acct::{target_for, Backend, Dev};
use vkit::fsutil;
use vkit::pool::{self, PoolOpts};
use vkit::run::{push_sample, Args, Run, Tier};
use vkit::world::{start_server, Device, ServerProc, SyncResult};

const C_LARGE: usize = 6000;
const C_SMALL: usize = 100;
const SETTLE_QUIET: Duration = Duration::from_millis(600);
const SETTLE_HORIZON: Duration = Duration::from_secs(60);
/// After the queue looks settled: how long the blob set of a store may
/// take to reach the expected set before the oracle is evaluated anyway
/// (only a run that is about to fail waits this long).
const CONVERGE_HORIZON: Duration = Duration::from_secs(45);

// ---------------------------------------------------------------------
// alphabet and reference model
// ---------------------------------------------------------------------

#[derive(Clone, Debug, Serialize, Deserialize, PartialEq, Eq)]
enum Op {
    /// create a file secret with content c (0 = large, 1 = small) in
    /// folder f (0 = default, 1 = second folder)
    Create { c: u8, f: u8 },
    /// Account::update_file with the other content
    Replace { s: usize },
    /// update the meta data only
    Meta { s: usize },
    /// move to the other folder
    Move { s: usize },
    Delete { s: usize },
    /// delete the second folder
    DeleteFolder,
    Archive { s: usize },
    /// add an external-file field (attachment) to secret s: a file secret
    /// then owns two blobs, a note secret one
    Attach { s: usize },
    /// update the secret without the field again
    Detach { s: usize },
}

impl Op {
    fn kind(&self) -> &'static str {
        match self {
            Op::Create { .. } => "create",
            Op::Replace { .. } => "replace_content",
            Op::Meta { .. } => "update_meta",
            Op::Move { .. } => "move",
            Op::Delete { .. } => "delete_secret",
            Op::DeleteFolder => "delete_folder",
            Op::Archive { .. } => "archive",
            Op::Attach { .. } => "attach_file_field",
            Op::Detach { .. } => "remove_file_field",
        }
    }
}

/// An external-file field (attachment) of a secret.
#[derive(Clone, Debug, Serialize, Deserialize)]
struct MField {
    /// identifier of the field row
    id: String,
    content: u8,
    name: String,
    verified: bool,
}

#[derive(Clone, Debug, Serialize, Deserialize)]
struct MSecret {
    /// 0 default folder, 1 second folder, 2 archive
    folder: u8,
    id: String,
    /// true: a file secret (owns a blob of its own); false: a note secret
    /// (owns only the blobs of its file fields)
    is_file: bool,
    content: u8,
    /// hex name of the secret's own blob (file secrets)
    name: String,
    alive: bool,
    /// the blob was decrypted and compared with the content
    verified: bool,
    /// attached external-file fields, each owning one more blob
    fields: Vec<MField>,
}

impl MSecret {
    /// names of all blobs the secret owns
    fn names(&self) -> Vec<&str> {
        let mut v = vec![];
        if self.is_file {
            v.push(self.name.as_str());
        }
        v.extend(self.fields.iter().map(|f| f.name.as_str()));
        v
    }
}

#[derive(Clone, Debug, Serialize, Deserialize)]
struct Model {
    folders: [String; 3],
    f1_alive: bool,
    secrets: Vec<MSecret>,
    /// false once an operation failed (its effect is then unknown)
    known: bool,
}

impl Model {
    fn expected(&self) -> BTreeSet<String> {
        self.secrets.iter().filter(|s| s.alive).flat_map(|s| s.names().into_iter().map(move |n| format!("{}/{}/{}", self.folders[s.folder as usize], s.id, n))).collect()
    }

    /// id-free projection (state identity)
    fn canon(&self) -> String {
        let s: Vec<String> = self.secrets.iter().map(|s| if s.alive { format!("F{}{}{}", s.folder, if s.is_file { format!("c{}", s.content) } else { "note".to_string() }, s.fields.iter().map(|f| format!("+c{}", f.content)).collect::<String>()) } else { "dead".to_string() }).collect();
        format!("f1={};{}", self.f1_alive, s.join(","))
    }

    fn enabled(&self, tier: Tier) -> Vec<Op> {
        let mut v = vec![];
        // the other two (content, folder) combinations are reached by
        // replace (swaps the content) and move (swaps the folder)
        let _ = tier;
        for (c, f) in [(0u8, 0u8), (1, 1)] {
            if f == 1 && !self.f1_alive {
                continue;
            }
            v.push(Op::Create { c, f });
        }
        for (i, s) in self.secrets.iter().enumerate() {
            if !s.alive {
                continue;
            }
            // a note secret only matters while it owns a blob
            if s.is_file || !s.fields.is_empty() {
                if s.is_file {
                    v.push(Op::Replace { s: i });
                }
                v.push(Op::Meta { s: i });
                if s.folder != 0 || self.f1_alive {
                    v.push(Op::Move { s: i });
                }
                v.push(Op::Delete { s: i });
                if s.folder != 2 {
                    v.push(Op::Archive { s: i });
                }
            }
            // at most one file field per secret
            if s.fields.is_empty() {
                v.push(Op::Attach { s: i });
            } else {
                v.push(Op::Detach { s: i });
            }
        }
        if self.f1_alive {
            v.push(Op::DeleteFolder);
        }
        v
    }

    /// model transition (ids and names are patched by the caller)
    fn step(&mut self, op: &Op) {
        match op {
            Op::Create { c, f } => self.secrets.push(MSecret { folder: *f, id: String::new(), is_file: true, content: *c, name: String::new(), alive: true, verified: false, fields: vec![] }),
            Op::Replace { s } => {
                // Account::update_file builds a fresh file secret from the
                // path: the new secret has no fields
                let x = &mut self.secrets[*s];
                x.content = 1 - x.content;
                x.verified = false;
                x.fields.clear();
            }
            Op::Attach { s } => {
                let x = &mut self.secrets[*s];
                let content = if x.is_file { 1 - x.content } else { 1 };
                x.fields.push(MField { id: String::new(), content, name: String::new(), verified: false });
            }
            Op::Detach { s } => self.secrets[*s].fields.clear(),
            Op::Meta { .. } => {}
            Op::Move { s } => {
                let x = &mut self.secrets[*s];
                x.folder = if x.folder == 0 { 1 } else { 0 };
            }
            Op::Delete { s } => self.secrets[*s].alive = false,
            Op::DeleteFolder => {
                self.f1_alive = false;
                for x in self.secrets.iter_mut() {
                    if x.folder == 1 {
                        x.alive = false;
                    }
                }
            }
            Op::Archive { s } => self.secrets[*s].folder = 2,
        }
    }
}

/// All maximal histories of length `depth` (model only).
fn enumerate_paths(root: &Model, depth: usize, tier: Tier) -> Vec<Vec<Op>> {
    let mut out = vec![];
    fn rec(m: &Model, d: usize, tier: Tier, cur: &mut Vec<Op>, out: &mut Vec<Vec<Op>>) {
        let ops = m.enabled(tier);
        if d == 0 || ops.is_empty() {
            out.push(cur.clone());
            return;
        }
        for op in ops {
            let mut m2 = m.clone();
            m2.step(&op);
            cur.push(op);
            rec(&m2, d - 1, tier, cur, out);
            cur.pop();
        }
    }
    rec(root, depth, tier, &mut vec![], &mut out);
    out
}

fn depth_a(tier: Tier) -> usize {
    tier.pick(2, 3)
}
fn depth_b(tier: Tier) -> usize {
    tier.pick(2, 3)
}

// ---------------------------------------------------------------------
// templates
// ---------------------------------------------------------------------

#[derive(Clone, Debug, Serialize, Deserialize)]
struct Tpl {
    backend: Backend,
    /// template directories: empty account (two folders + archive) and
    /// the same account holding one file secret
    dir_e: String,
    dir_p: String,
    account_id: String,
    model_e: Model,
    model_p: Model,
}

#[derive(Clone, Debug, Serialize, Deserialize)]
struct Shared {
    content: [String; 2],
    /// a real encrypted blob of the small content for the upload inputs
    upload_blob: String,
    tpls: Vec<Tpl>,
}

fn det_bytes(len: usize, seed: u64, tag: &str) -> Vec<u8> {
    let mut out = Vec::with_capacity(len + 32);
    let mut ctr = 0u64;
    while out.len() < len {
        let mut h = Sha256::new();
        h.update(tag.as_bytes());
        h.update(seed.to_le_bytes());
        h.update(ctr.to_le_bytes());
        out.extend_from_slice(&h.finalize());
        ctr += 1;
    }
    out.truncate(len);
    out
}

/// Blob names a secret row refers to: its own external content (file
/// secrets) and (field id, name) of every external-file field.
async fn row_blobs<A>(acct: &A, id: &SecretId, folder: &VaultId) -> std::result::Result<(Option<String>, Vec<(String, String)>), String>
where
    A: Account + Send + Sync,
{
    let (row, _) = acct.read_secret(id, Some(folder)).await.map_err(|e| format!("read_secret: {}", e))?;
    let own = match row.secret() {
        Secret::File { content: FileContent::External { checksum, .. }, .. } => Some(hex::encode(checksum)),
        _ => None,
    };
    let mut fields = vec![];
    for f in row.secret().user_data().fields() {
        if let Secret::File { content: FileContent::External { checksum, .. }, .. } = f.secret() {
            fields.push((f.id().to_string(), hex::encode(checksum)));
        }
    }
    Ok((own, fields))
}

fn vid(s: &str) -> VaultId {
    s.parse().expect("vault id")
}
fn sid(s: &str) -> SecretId {
    s.parse().expect("secret id")
}

/// Execute one operation through the Account API and advance the model.
async fn apply<A>(acct: &mut A, m: &mut Model, op: &Op, content: &[PathBuf; 2]) -> std::result::Result<(), String>
where
    A: Account + Send + Sync,
{
    let opt = |f: &VaultId| AccessOptions { folder: Some(*f), ..Default::default() };
    let mut new_field: Option<SecretId> = None;
    let r: std::result::Result<(Option<SecretId>, Option<VaultId>), String> = async {
        match op {
            Op::Create { c, f } => {
                let folder = vid(&m.folders[*f as usize]);
                let secret: Secret = content[*c as usize].clone().try_into().map_err(|e| format!("{}", e))?;
                let meta = SecretMeta::new(format!("file-secret-{}", m.secrets.len()), secret.kind());
                let r = acct.create_secret(meta, secret, opt(&folder)).await.map_err(|e| format!("create_secret: {}", e))?;
                Ok((Some(r.id), Some(folder)))
            }
            Op::Replace { s } => {
                let x = m.secrets[*s].clone();
                let folder = vid(&m.folders[x.folder as usize]);
                let (row, _) = acct.read_secret(&sid(&x.id), Some(&folder)).await.map_err(|e| format!("read_secret: {}", e))?;
                let mut meta = row.meta().clone();
                meta.set_label(format!("{}-r", meta.label()));
                let r = acct.update_file(&sid(&x.id), meta, &content[(1 - x.content) as usize], opt(&folder)).await.map_err(|e| format!("update_file: {}", e))?;
                Ok((Some(r.id), Some(folder)))
            }
            Op::Meta { s } => {
                let x = m.secrets[*s].clone();
                let folder = vid(&m.folders[x.folder as usize]);
                let (row, _) = acct.read_secret(&sid(&x.id), Some(&folder)).await.map_err(|e| format!("read_secret: {}", e))?;
                let mut meta = row.meta().clone();
                meta.set_label(format!("{}-m", meta.label()));
                meta.set_favorite(true);
                let r = acct.update_secret(&sid(&x.id), meta, None, opt(&folder)).await.map_err(|e| format!("update_secret: {}", e))?;
                Ok((Some(r.id), Some(folder)))
            }
            Op::Move { s } => {
                let x = m.secrets[*s].clone();
                let from = vid(&m.folders[x.folder as usize]);
                let to = vid(&m.folders[if x.folder == 0 { 1 } else { 0 }]);
                let r = acct.move_secret(&sid(&x.id), &from, &to, Default::default()).await.map_err(|e| format!("move_secret: {}", e))?;
                Ok((Some(r.id), Some(to)))
            }
            Op::Delete { s } => {
                let x = m.secrets[*s].clone();
                let folder = vid(&m.folders[x.folder as usize]);
                acct.delete_secret(&sid(&x.id), opt(&folder)).await.map_err(|e| format!("delete_secret: {}", e))?;
                Ok((None, None))
            }
            Op::DeleteFolder => {
                acct.delete_folder(&vid(&m.folders[1])).await.map_err(|e| format!("delete_folder: {}", e))?;
                Ok((None, None))
            }
            Op::Archive { s } => {
                let x = m.secrets[*s].clone();
                let from = vid(&m.folders[x.folder as usize]);
                let r = acct.archive(&from, &sid(&x.id), Default::default()).await.map_err(|e| format!("archive: {}", e))?;
                Ok((Some(r.id), Some(vid(&m.folders[2]))))
            }
            Op::Attach { s } => {
                let x = m.secrets[*s].clone();
                let folder = vid(&m.folders[x.folder as usize]);
                let (mut row, _) = acct.read_secret(&sid(&x.id), Some(&folder)).await.map_err(|e| format!("read_secret: {}", e))?;
                let c = if x.is_file { 1 - x.content } else { 1 };
                let fsecret: Secret = content[c as usize].clone().try_into().map_err(|e| format!("{}", e))?;
                let fmeta = SecretMeta::new(format!("attachment-of-{}", s), fsecret.kind());
                new_field = Some(SecretId::new_v4());
                row.secret_mut().add_field(SecretRow::new(new_field.unwrap(), fmeta, fsecret));
                let r = acct.update_secret(&sid(&x.id), row.meta().clone(), Some(row.secret().clone()), opt(&folder)).await.map_err(|e| format!("update_secret(attach): {}", e))?;
                Ok((Some(r.id), Some(folder)))
            }
            Op::Detach { s } => {
                let x = m.secrets[*s].clone();
                let folder = vid(&m.folders[x.folder as usize]);
                let (mut row, _) = acct.read_secret(&sid(&x.id), Some(&folder)).await.map_err(|e| format!("read_secret: {}", e))?;
                for f in &x.fields {
                    row.secret_mut().remove_field(&sid(&f.id));
                }
                let r = acct.update_secret(&sid(&x.id), row.meta().clone(), Some(row.secret().clone()), opt(&folder)).await.map_err(|e| format!("update_secret(detach): {}", e))?;
                Ok((Some(r.id), Some(folder)))
            }
        }
    }
    .await;
    match r {
        Err(e) => {
            m.known = false;
            Err(e)
        }
        Ok((id, folder)) => {
            m.step(op);
            let slot = match op {
                Op::Create { .. } => Some(m.secrets.len() - 1),
                Op::Replace { s } | Op::Meta { s } | Op::Move { s } | Op::Archive { s } | Op::Attach { s } | Op::Detach { s } => Some(*s),
                _ => None,
            };
            if let (Some(slot), Some(id), Some(folder)) = (slot, id, folder) {
                m.secrets[slot].id = id.to_string();
                // a blob name is learnt from the secret row when the
                // content was (re)written; other operations must keep it
                if matches!(op, Op::Create { .. } | Op::Replace { .. } | Op::Attach { .. }) {
                    match row_blobs(acct, &id, &folder).await {
                        Ok((own, fields)) => {
                            if matches!(op, Op::Attach { .. }) {
                                let fid = new_field.map(|f| f.to_string()).unwrap_or_default();
                                match fields.iter().find(|f| f.0 == fid) {
                                    Some(f) => {
                                        let mf = m.secrets[slot].fields.last_mut().expect("field");
                                        mf.id = fid;
                                        mf.name = f.1.clone();
                                    }
                                    None => {
                                        m.known = false;
                                        return Err("the attached field is not in the secret row".into());
                                    }
                                }
                            } else {
                                match own {
                                    Some(n) => m.secrets[slot].name = n,
                                    None => {
                                        m.known = false;
                                        return Err("not an external file secret".into());
                                    }
                                }
                            }
                        }
                        Err(e) => {
                            m.known = false;
                            return Err(e);
                        }
                    }
                }
            }
            Ok(())
        }
    }
}

async fn build_tpl(base: &Path, backend: Backend, content: &[PathBuf; 2]) -> Result<Tpl> {
    let dir_e = base.join(format!("tpl-{}-E", backend.name()));
    let dir_p = base.join(format!("tpl-{}-P", backend.name()));
    let mut dev = Dev::create(&dir_e, backend, "filex-account", true).await?;
    let default = dev.account.default_folder().await.ok_or_else(|| anyhow!("no default folder"))?;
    let archive = dev.account.archive_folder().await.ok_or_else(|| anyhow!("no archive folder"))?;
    let f1 = dev.account.create_folder(NewFolderOptions::new("folder-one".to_string())).await?.folder;
    // a plain note secret in the second folder: the host of file fields
    let (nm, ns) = vkit::gen::secret("note", 0, "host");
    let note = dev.account.create_secret(nm, ns, AccessOptions { folder: Some(*f1.id()), ..Default::default() }).await?.id;
    let account_id = dev.account_id;
    dev.close().await;
    fsutil::copy_dir(&dir_e, &dir_p)?;
    let host = MSecret { folder: 1, id: note.to_string(), is_file: false, content: 0, name: String::new(), alive: true, verified: true, fields: vec![] };
    let model_e = Model { folders: [default.id().to_string(), f1.id().to_string(), archive.id().to_string()], f1_alive: true, secrets: vec![host], known: true };
    let mut model_p = model_e.clone();
    let mut dev = Dev::open(&dir_p, backend, account_id, vkit::acct::password()).await?;
    apply(&mut dev.account, &mut model_p, &Op::Create { c: 0, f: 0 }, content).await.map_err(|e| anyhow!("template: {}", e))?;
    dev.close().await;
    Ok(Tpl { backend, dir_e: dir_e.to_string_lossy().into(), dir_p: dir_p.to_string_lossy().into(), account_id: account_id.to_string(), model_e, model_p })
}

// ---------------------------------------------------------------------
// observations and oracle
// ---------------------------------------------------------------------

#[derive(Default, Debug)]
struct Disk {
    /// "folder/secret/name" of every well-formed blob path
    blobs: BTreeSet<String>,
    /// files that are not <folder uuid>/<secret uuid>/<64 hex>
    stray: Vec<String>,
    /// blobs whose name is not the SHA-256 of their bytes
    bad_name: Vec<String>,
}

fn walk_blobs(files_dir: &Path) -> Disk {
    let mut d = Disk::default();
    for f in fsutil::walk_files(files_dir) {
        let rel = f.strip_prefix(files_dir).unwrap_or(&f).to_string_lossy().to_string();
        let parts: Vec<&str> = rel.split('/').collect();
        let ok = parts.len() == 3 && parts[0].parse::<VaultId>().is_ok() && parts[1].parse::<SecretId>().is_ok() && parts[2].len() == 64 && parts[2].parse::<ExternalFileName>().is_ok();
        if !ok {
            d.stray.push(rel);
            continue;
        }
        match std::fs::read(&f) {
            Ok(b) => {
                if hex::encode(Sha256::digest(&b)) != parts[2] {
                    d.bad_name.push(rel.clone());
                }
            }
            Err(_) => d.bad_name.push(rel.clone()),
        }
        d.blobs.insert(rel);
    }
    d
}

#[derive(Default)]
struct Fails(Vec<Value>);

impl Fails {
    fn push(&mut self, sig: String, what: String, detail: Value) {
        if !self.0.iter().any(|f| f["sig"] == sig.as_str()) {
            self.0.push(json!({"sig": sig, "what": what, "detail": detail}));
        }
    }
}

/// Compare one store (blobs on disc + replayed file log) with the model.
#[allow(clippy::too_many_arguments)]
fn check_store(prefix: &str, who: &str, after: &str, suffix: &str, disk: &Disk, log: Option<&BTreeSet<String>>, listed: Option<&BTreeSet<String>>, expected: &BTreeSet<String>, fails: &mut Fails) {
    let sig = |clause: &str| -> String {
        let w = if who.is_empty() { String::new() } else { format!("{}_", who) };
        let s = if suffix.is_empty() { String::new() } else { format!(":{}", suffix) };
        format!("{}:{}{}:after_{}{}", prefix, w, clause, after, s)
    };
    // folder / secret / name, 8 characters each
    let show = |s: &BTreeSet<String>| -> Vec<String> { s.iter().map(|x| x.split('/').map(|p| p.chars().take(8).collect::<String>()).collect::<Vec<_>>().join("/")).collect() };
    let left: BTreeSet<String> = disk.blobs.difference(expected).cloned().collect();
    let missing: BTreeSet<String> = expected.difference(&disk.blobs).cloned().collect();
    if !left.is_empty() {
        fails.push(sig("blob_left_behind"), format!("{} blob(s) on disc that no live file secret names ({} expected, {} on disc)", left.len(), expected.len(), disk.blobs.len()), json!({"left_behind": show(&left), "expected": show(expected)}));
    }
    if !missing.is_empty() {
        fails.push(sig("blob_missing"), format!("{} blob(s) named by live file secrets are not on disc ({} expected, {} on disc)", missing.len(), expected.len(), disk.blobs.len()), json!({"missing": show(&missing), "on_disc": show(&disk.blobs)}));
    }
    if let Some(log) = log {
        let extra: BTreeSet<String> = log.difference(expected).cloned().collect();
        let absent: BTreeSet<String> = expected.difference(log).cloned().collect();
        if !extra.is_empty() {
            fails.push(sig("file_log_names_dead_file"), format!("replaying the file event log names {} file(s) that no live file secret owns", extra.len()), json!({"extra": show(&extra), "expected": show(expected)}));
        }
        if !absent.is_empty() {
            fails.push(sig("file_log_misses_file"), format!("replaying the file event log does not name {} file(s) owned by live file secrets", absent.len()), json!({"absent": show(&absent), "log": show(log)}));
        }
    }
    if let Some(listed) = listed {
        if listed != &disk.blobs {
            fails.push(sig("listing_differs_from_directory"), "list_external_files does not return the blobs found by walking the directory".into(), json!({"listed": show(listed), "walked": show(&disk.blobs)}));
        }
    }
    if !disk.bad_name.is_empty() {
        fails.push(sig("name_not_sha256"), format!("{} blob(s) whose file name is not the SHA-256 of their bytes", disk.bad_name.len()), json!({"files": disk.bad_name}));
    }
    if !disk.stray.is_empty() {
        fails.push(sig("stray_file_in_blob_store"), format!("files in the blob store that are not <folder>/<secret>/<sha256>: {:?}", disk.stray), json!({"files": disk.stray}));
    }
}

async fn log_set<S>(s: &S) -> std::result::Result<BTreeSet<String>, String>
where
    S: StorageEventLogs,
{
    Ok(s.canonical_files().await.map_err(|e| format!("{}", e))?.into_iter().map(|f| f.to_string()).collect())
}

async fn listed_set(paths: &Paths) -> std::result::Result<BTreeSet<String>, String> {
    Ok(sos_external_files::list_external_files(paths).await.map_err(|e| format!("{}", e))?.into_iter().map(|f| f.to_string()).collect())
}

#[derive(Default, Serialize, Deserialize, Clone)]
struct Counters {
    transitions: u64,
    store_checks: u64,
    blobs_hashed: u64,
    decrypts: u64,
    op_errors: BTreeMap<String, u64>,
    requests: u64,
    syncs: u64,
    #[serde(default)]
    t_ms: BTreeMap<String, u64>,
    #[serde(default)]
    decrypt_retries: u64,
    #[serde(default)]
    decrypt_fallbacks: u64,
}

/// Oracle on the editing device (part a, and device 1 of part b).
#[allow(clippy::too_many_arguments)]
async fn check_device<A>(acct: &A, m: &mut Model, content_bytes: &[Vec<u8>; 2], prefix: &str, who: &str, after: &str, suffix: &str, decrypt: bool, fails: &mut Fails, cnt: &mut Counters)
where
    A: Account + StorageEventLogs + Send + Sync,
{
    let paths = acct.paths();
    let disk = walk_blobs(&paths.into_files_dir());
    cnt.store_checks += 1;
    cnt.blobs_hashed += disk.blobs.len() as u64;
    let log = log_set(acct).await;
    let listed = listed_set(&paths).await;
    if let Err(e) = &log {
        fails.push(format!("{}:file_log_unreadable:after_{}", prefix, after), format!("the file event log cannot be replayed: {}", e), json!({}));
    }
    let expected = m.expected();
    if m.known {
        check_store(prefix, who, after, suffix, &disk, log.as_ref().ok(), listed.as_ref().ok(), &expected, fails);
        // the secret rows name the blobs the model tracks
        for s in m.secrets.iter().filter(|s| s.alive) {
            match row_blobs(acct, &sid(&s.id), &vid(&m.folders[s.folder as usize])).await {
                Ok((own, fields)) => {
                    let want_own = if s.is_file { Some(s.name.clone()) } else { None };
                    let mut got: Vec<String> = fields.iter().map(|f| f.1.clone()).collect();
                    let mut want: Vec<String> = s.fields.iter().map(|f| f.name.clone()).collect();
                    got.sort();
                    want.sort();
                    if own != want_own {
                        fails.push(format!("{}:secret_row_names_another_blob:after_{}", prefix, after), format!("the secret row's checksum {:?} is not the blob {:?} written for it", own.map(|n| n[52..].to_string()), want_own.map(|n| n[52..].to_string())), json!({}));
                    }
                    if got != want {
                        fails.push(format!("{}:secret_row_fields_name_other_blobs:after_{}", prefix, after), format!("the secret row has {} external-file field(s), the model {} (or their checksums differ)", got.len(), want.len()), json!({}));
                    }
                }
                Err(e) => fails.push(format!("{}:file_secret_unreadable:after_{}", prefix, after), e, json!({})),
            }
        }
    } else if let Ok(log) = &log {
        // effect of a failed operation unknown: directory vs log only
        check_store(prefix, who, after, "after_failed_operation", &disk, None, listed.as_ref().ok(), log, fails);
    }
    if decrypt && m.known {
        // (slot, field index or None for the secret's own blob)
        let mut todo: Vec<(usize, Option<usize>)> = vec![];
        for (i, s) in m.secrets.iter().enumerate().filter(|(_, s)| s.alive) {
            if s.is_file && !s.verified {
                todo.push((i, None));
            }
            for (k, f) in s.fields.iter().enumerate() {
                if !f.verified {
                    todo.push((i, Some(k)));
                }
            }
        }
        let w = if who.is_empty() { String::new() } else { format!("{}_", who) };
        for (i, k) in todo {
            let s = &m.secrets[i];
            let (bname, content) = match k {
                None => (s.name.clone(), s.content),
                Some(k) => (s.fields[k].name.clone(), s.fields[k].content),
            };
            let (folder, secret) = (vid(&m.folders[s.folder as usize]), sid(&s.id));
            if !disk.blobs.contains(&format!("{}/{}/{}", folder, secret, bname)) {
                continue;
            }
            cnt.decrypts += 1;
            let name: ExternalFileName = bname.parse().expect("name");
            let t0 = Instant::now();
            let dl = robust_download(acct, &folder, &secret, &name, cnt).await;
            *cnt.t_ms.entry("decrypt".into()).or_default() += t0.elapsed().as_millis() as u64;
            let what = if k.is_some() { "attached file" } else { "file" };
            match dl {
                Ok(b) if b == content_bytes[content as usize] => match k {
                    None => m.secrets[i].verified = true,
                    Some(k) => m.secrets[i].fields[k].verified = true,
                },
                Ok(b) => fails.push(format!("{}:{}decrypt_mismatch:after_{}", prefix, w, after), format!("decrypting the blob of the {} returns {} bytes that differ from the {} bytes stored", what, b.len(), content_bytes[content as usize].len()), json!({})),
                Err(e) => fails.push(format!("{}:{}decrypt_failed:after_{}", prefix, w, after), format!("download_file ({}): {}", what, e), json!({})),
            }
        }
    }
}

/// `Account::download_file`, robust against the load of the machine: the
/// age library refuses a passphrase-encrypted file whose scrypt work
/// factor exceeds a bound it calibrates from the CURRENT speed of the
/// machine ("Excessive work parameter"), which on a busy machine is hit
/// by files the same machine encrypted a second earlier. That refusal is
/// retried, then the blob is decrypted with the same algorithm and the
/// account's file password without the speed-dependent bound.
async fn robust_download<A>(acct: &A, folder: &VaultId, secret: &SecretId, name: &ExternalFileName, cnt: &mut Counters) -> std::result::Result<Vec<u8>, String>
where
    A: Account + Send + Sync,
{
    let mut last = String::new();
    for attempt in 0..4 {
        match acct.download_file(folder, secret, name).await {
            Ok(b) => return Ok(b),
            Err(e) => {
                last = e.to_string();
                if !last.contains("Excessive work") {
                    return Err(last);
                }
                cnt.decrypt_retries += 1;
                tokio::time::sleep(Duration::from_millis(500 * (attempt + 1))).await;
            }
        }
    }
    cnt.decrypt_fallbacks += 1;
    let target = acct.backend_target().await;
    let mut identity = sos_login::Identity::new(target);
    let key: sos_core::crypto::AccessKey = vkit::acct::password().into();
    identity.login(acct.account_id(), &key).await.map_err(|e| format!("{} (fallback login: {})", last, e))?;
    let pass = identity.find_file_encryption_password().await.map_err(|e| format!("{} (fallback password: {})", last, e))?;
    let path = acct.paths().into_file_path_parts(folder, secret, name);
    let bytes = std::fs::read(&path).map_err(|e| format!("{} (fallback read: {})", last, e))?;
    tokio::task::spawn_blocking(move || -> std::result::Result<Vec<u8>, String> {
        use std::io::Read;
        let d = age::Decryptor::new(&bytes[..]).map_err(|e| e.to_string())?;
        let mut id = age::scrypt::Identity::new(pass);
        id.set_max_work_factor(30);
        let mut r = d.decrypt(std::iter::once(&id as &dyn age::Identity)).map_err(|e| e.to_string())?;
        let mut out = vec![];
        r.read_to_end(&mut out).map_err(|e| e.to_string())?;
        Ok(out)
    })
    .await
    .map_err(|e| e.to_string())?
}

fn load_content(sh: &Shared) -> ([PathBuf; 2], [Vec<u8>; 2]) {
    let p = [PathBuf::from(&sh.content[0]), PathBuf::from(&sh.content[1])];
    let b = [std::fs::read(&p[0]).expect("content 0"), std::fs::read(&p[1]).expect("content 1")];
    (p, b)
}

// ---------------------------------------------------------------------
// part (a): histories on one device
// ---------------------------------------------------------------------

#[derive(Clone, Debug, Serialize, Deserialize)]
enum Item {
    Hist { backend: Backend, root: String, first: usize },
    Transfer { backend: Backend, path: usize },
    /// the whole history offline, then the server is added (thorough)
    TransferLate { backend: Backend, path: usize },
    /// both devices hold a file secret; device 1 performs the whole history
    /// (its transfers settle after every step), device 2 syncs once at the end
    TransferLazy { backend: Backend, path: usize },
    Upload { part: usize, parts: usize },
}

struct ItemOut {
    fails: Vec<Value>,
    states: BTreeSet<String>,
    histories: u64,
    cnt: Counters,
    samples: Vec<Value>,
    error: Option<String>,
    extra: Value,
}

impl ItemOut {
    fn new() -> Self {
        ItemOut { fails: vec![], states: BTreeSet::new(), histories: 0, cnt: Counters::default(), samples: vec![], error: None, extra: json!({}) }
    }
    fn json(self) -> Value {
        json!({"fails": self.fails, "states": self.states, "histories": self.histories, "cnt": self.cnt, "samples": self.samples, "error": self.error, "extra": self.extra})
    }
}

fn tpl_of(sh: &Shared, b: Backend) -> &Tpl {
    sh.tpls.iter().find(|t| t.backend == b).expect("template")
}

/// DFS over histories with directory snapshots; `only` restricts the walk
/// to one path (replays), `first` to one sub-tree (work items).
async fn explore(sh: &Shared, backend: Backend, root: &str, first: Option<usize>, only: Option<&[Op]>, depth: usize, tier: Tier, wd: &Path) -> ItemOut {
    let mut out = ItemOut::new();
    let tpl = tpl_of(sh, backend);
    let (cpaths, cbytes) = load_content(sh);
    let account_id: AccountId = tpl.account_id.parse().unwrap();
    let (root_dir, root_model) = if root == "P" { (PathBuf::from(&tpl.dir_p), tpl.model_p.clone()) } else { (PathBuf::from(&tpl.dir_e), tpl.model_e.clone()) };
    let mut stack: Vec<(PathBuf, Model, Vec<Op>)> = vec![(root_dir.clone(), root_model, vec![])];
    let mut seq = 0usize;
    while let Some((dir, model, hist)) = stack.pop() {
        if hist.len() < depth {
            let ops = model.enabled(tier);
            for (oi, op) in ops.iter().enumerate() {
                if hist.is_empty() && first.map(|f| f != oi).unwrap_or(false) {
                    continue;
                }
                if let Some(p) = only {
                    if p.get(hist.len()) != Some(op) {
                        continue;
                    }
                }
                seq += 1;
                let child = wd.join(format!("n{}", seq));
                let _ = std::fs::remove_dir_all(&child);
                if let Err(e) = fsutil::copy_dir(&dir, &child) {
                    out.error = Some(format!("copy: {}", e));
                    return out;
                }
                let mut m = model.clone();
                let mut h2 = hist.clone();
                h2.push(op.clone());
                let mut fails = Fails::default();
                let t_open = Instant::now();
                let opened = Dev::open(&child, backend, account_id, vkit::acct::password()).await;
                *out.cnt.t_ms.entry("open".into()).or_default() += t_open.elapsed().as_millis() as u64;
                let mut dev = match opened {
                    Ok(d) => d,
                    Err(e) => {
                        // the account must re-open after any history
                        let what = format!("the account does not re-open after {:?}: {}", hist.iter().map(|o| o.kind()).collect::<Vec<_>>(), e);
                        out.fails.push(json!({"sig": format!("history:account_does_not_reopen:after_{}:{}", hist.last().map(|o| o.kind()).unwrap_or("template"), backend.name()), "what": what, "witness": {"engine": "filex", "part": "a", "backend": backend, "root": root, "history": hist}}));
                        continue;
                    }
                };
                if !hist.is_empty() {
                    // the state as a fresh sign-in sees it
                    check_device(&dev.account, &mut m, &cbytes, "history", "", hist.last().unwrap().kind(), backend.name(), false, &mut fails, &mut out.cnt).await;
                    for f in fails.0.iter_mut() {
                        f["detail"]["phase"] = json!("after re-opening the account");
                    }
                }
                let t0 = Instant::now();
                let r = apply(&mut dev.account, &mut m, op, &cpaths).await;
                *out.cnt.t_ms.entry(format!("op:{}", op.kind())).or_default() += t0.elapsed().as_millis() as u64;
                *out.cnt.t_ms.entry(format!("n:{}", op.kind())).or_default() += 1;
                out.cnt.transitions += 1;
                out.histories += 1;
                if let Err(e) = &r {
                    *out.cnt.op_errors.entry(format!("{}:{}: {}", backend.name(), op.kind(), e.chars().take(80).collect::<String>())).or_default() += 1;
                }
                check_device(&dev.account, &mut m, &cbytes, "history", "", op.kind(), backend.name(), true, &mut fails, &mut out.cnt).await;
                dev.close().await;
                out.states.insert(format!("{}|{}|{}", backend.name(), m.canon(), if m.known { "" } else { "op failed" }));
                for f in fails.0 {
                    out.fails.push(json!({"sig": f["sig"], "what": format!("{} backend, history {:?}: {}", backend.name(), h2.iter().map(|o| o.kind()).collect::<Vec<_>>(), f["what"].as_str().unwrap_or("")), "witness": {"engine": "filex", "part": "a", "backend": backend, "root": root, "history": h2, "detail": f["detail"], "op_result": r.as_ref().err()}}));
                }
                if out.samples.len() < 2 && h2.len() == depth && !matches!(op, Op::Create { .. }) {
                    out.samples.push(json!({"part": "a", "backend": backend.name(), "start": if root == "P" { "template account + one file secret" } else { "template account (second folder holds a note secret = slot 0)" }, "history": h2, "blobs_expected_after": m.expected().len(), "op_result": r.as_ref().err()}));
                }
                stack.push((child, m, h2));
            }
        }
        if dir != root_dir {
            let _ = std::fs::remove_dir_all(&dir);
        }
    }
    out
}

// ---------------------------------------------------------------------
// part (b): transfers through the real NetworkAccount queue
// ---------------------------------------------------------------------

async fn net_open(dir: &Path, backend: Backend, account_id: AccountId, conn: &str) -> Result<NetworkAccount> {
    let target = target_for(dir, backend).await?.with_account_id(&account_id);
    let mut a = NetworkAccount::new_unauthenticated(account_id, target, NetworkAccountOptions::default()).await?;
    a.set_connection_id(Some(conn.to_string()));
    let key: sos_core::crypto::AccessKey = vkit::acct::password().into();
    a.sign_in(&key).await?;
    Ok(a)
}

/// Wait until no transfer is in flight and nothing has been notified for
/// SETTLE_QUIET (longer than the queue's retry interval), or the horizon.
async fn settle(a: &NetworkAccount) -> bool {
    let Ok(inflight) = a.inflight_transfers() else { return false };
    let mut rx = inflight.notifications().subscribe();
    let start = Instant::now();
    let mut last = Instant::now();
    loop {
        tokio::select! {
            ev = rx.recv() => {
                if ev.is_ok() { last = Instant::now(); }
            }
            _ = tokio::time::sleep(Duration::from_millis(40)) => {
                if inflight.is_empty().await {
                    if last.elapsed() >= SETTLE_QUIET { return true; }
                } else {
                    last = Instant::now();
                }
                if start.elapsed() > SETTLE_HORIZON { return false; }
            }
        }
    }
}

/// A blob that was left behind by an earlier step stays on disc; it is
/// attributed to the step that left it, not reported again after every
/// later step.
fn forget_known_leftovers(disk: &mut Disk, expected: &BTreeSet<String>, known: &mut BTreeSet<String>) {
    let now: BTreeSet<String> = disk.blobs.difference(expected).cloned().collect();
    for k in known.iter() {
        if !expected.contains(k) {
            disk.blobs.remove(k);
        }
    }
    known.extend(now);
}

/// Poll a blob directory until it holds exactly the expected blobs (known
/// leftovers ignored) or the horizon passes: transfers are asynchronous and
/// a loaded machine may start them late.
async fn await_blobs(dir: &Path, expected: &BTreeSet<String>, known: &BTreeSet<String>) {
    let start = Instant::now();
    loop {
        let disk = walk_blobs(dir);
        let now: BTreeSet<String> = disk.blobs.iter().filter(|b| expected.contains(*b) || !known.contains(*b)).cloned().collect();
        if &now == expected || start.elapsed() > CONVERGE_HORIZON {
            return;
        }
        tokio::time::sleep(Duration::from_millis(250)).await;
    }
}

async fn check_server(server: &ServerProc, account_id: &AccountId, after: &str, suffix: &str, expected: &BTreeSet<String>, known: &mut BTreeSet<String>, fails: &mut Fails, cnt: &mut Counters) {
    let Some(sa) = server.account(account_id).await else {
        fails.push(format!("transfer:server_has_no_account:after_{}", after), "the account is not on the server".into(), json!({}));
        return;
    };
    let paths = {
        let sa = sa.read().await;
        sa.paths()
    };
    await_blobs(&paths.into_files_dir(), expected, known).await;
    let sa = sa.read().await;
    let mut disk = walk_blobs(&paths.into_files_dir());
    cnt.store_checks += 1;
    cnt.blobs_hashed += disk.blobs.len() as u64;
    forget_known_leftovers(&mut disk, expected, known);
    let log = log_set(&*sa).await;
    check_store("transfer", "server", after, suffix, &disk, log.as_ref().ok(), None, expected, fails);
}

async fn run_transfer(sh: &Shared, backend: Backend, path: &[Op], wd: &Path) -> ItemOut {
    let mut out = ItemOut::new();
    let tpl = tpl_of(sh, backend);
    let (cpaths, cbytes) = load_content(sh);
    let account_id: AccountId = tpl.account_id.parse().unwrap();
    // signatures of the sqlite world carry the backend, the fs world's do not
    let sfx = if backend == Backend::Db { "sqlite" } else { "" };
    let res: Result<()> = async {
        let _ = std::fs::remove_dir_all(wd);
        let (d1, d2) = (wd.join("d1"), wd.join("d2"));
        fsutil::copy_dir(Path::new(&tpl.dir_e), &d1)?;
        fsutil::copy_dir(Path::new(&tpl.dir_e), &d2)?;
        let server = start_server(&wd.join("server"), backend == Backend::Db, None, None).await?;
        let mut dev1 = net_open(&d1, backend, account_id, "device_1").await?;
        if let Some(r) = dev1.add_server(server.origin.clone()).await? {
            if let Err(e) = r.result {
                return Err(anyhow!("initial sync of device 1: {}", e));
            }
        }
        let mut dev2 = net_open(&d2, backend, account_id, "device_2").await?;
        if let Some(r) = dev2.add_server(server.origin.clone()).await? {
            if let Err(e) = r.result {
                return Err(anyhow!("initial sync of device 2: {}", e));
            }
        }
        let mut m = tpl.model_e.clone();
        let mut fails = Fails::default();
        let mut done: Vec<Op> = vec![];
        let (mut known_server, mut known_dev2): (BTreeSet<String>, BTreeSet<String>) = Default::default();
        for op in path {
            let r = apply(&mut dev1, &mut m, op, &cpaths).await;
            out.cnt.transitions += 1;
            done.push(op.clone());
            if let Err(e) = &r {
                *out.cnt.op_errors.entry(format!("network:{}: {}", op.kind(), e.chars().take(80).collect::<String>())).or_default() += 1;
            }
            let before = fails.0.len();
            if !settle(&dev1).await {
                fails.push(format!("transfer:device1_transfers_do_not_settle:after_{}", op.kind()), format!("the transfer queue of the editing device is still busy {:?} after the operation", SETTLE_HORIZON), json!({}));
            }
            // editing device (same oracle as part a, no decryption here)
            check_device(&dev1, &mut m, &cbytes, "transfer", "device1", op.kind(), sfx, false, &mut fails, &mut out.cnt).await;
            let expected = m.expected();
            if m.known {
                check_server(&server, &account_id, op.kind(), sfx, &expected, &mut known_server, &mut fails, &mut out.cnt).await;
            }
            // second device: sync (merges the logs, queues downloads)
            // a sync that reports an error is repeated; a device whose sync
            // keeps failing is not judged (the property speaks about synced
            // devices), the failure is counted in the evidence
            let mut dev2_synced = false;
            for _attempt in 0..3 {
                let sr = dev2.sync().await;
                out.cnt.syncs += 1;
                match sr.first_error() {
                    None => {
                        dev2_synced = true;
                        break;
                    }
                    Some(e) => {
                        *out.cnt.op_errors.entry(format!("device2 sync after {}: {}", op.kind(), e.to_string().chars().take(80).collect::<String>())).or_default() += 1;
                        tokio::time::sleep(Duration::from_millis(500)).await;
                    }
                }
            }
            if !dev2_synced {
                *out.cnt.op_errors.entry(format!("device2 not judged after {}: its sync failed 3 times", op.kind())).or_default() += 1;
                continue;
            }
            if !settle(&dev2).await {
                fails.push(format!("transfer:device2_transfers_do_not_settle:after_{}", op.kind()), format!("the transfer queue of the second device is still busy {:?} after its sync", SETTLE_HORIZON), json!({}));
            }
            if m.known {
                let paths = dev2.paths();
                await_blobs(&paths.into_files_dir(), &expected, &known_dev2).await;
                let mut disk = walk_blobs(&paths.into_files_dir());
                out.cnt.store_checks += 1;
                out.cnt.blobs_hashed += disk.blobs.len() as u64;
                forget_known_leftovers(&mut disk, &expected, &mut known_dev2);
                let log = log_set(&dev2).await;
                check_store("transfer", "device2", op.kind(), sfx, &disk, log.as_ref().ok(), None, &expected, &mut fails);
            }
            for f in fails.0[before..].iter_mut() {
                f["detail"]["history"] = json!(done);
            }
            out.states.insert(format!("net-{}|{}|{}", backend.name(), m.canon(), if m.known { "" } else { "op failed" }));
        }
        if m.known {
            decrypt_on(&dev2, &m, &cbytes, path, &mut fails, &mut out.cnt).await;
        }
        out.histories += 1;
        let _ = dev1.sign_out().await;
        let _ = dev2.sign_out().await;
        server.stop().await;
        for f in fails.0 {
            out.fails.push(json!({"sig": f["sig"], "what": format!("history {:?}: {}", f["detail"]["history"].as_array().map(|a| a.iter().map(|o| serde_json::from_value::<Op>(o.clone()).map(|o| o.kind()).unwrap_or("?")).collect::<Vec<_>>()).unwrap_or_default(), f["what"].as_str().unwrap_or("")), "witness": {"engine": "filex", "part": "b", "backend": backend, "path": path, "detail": f["detail"]}}));
        }
        out.samples.push(json!({"part": "b", "backend": backend.name(), "history": path, "blobs_expected_after": m.expected().len()}));
        Ok(())
    }
    .await;
    if let Err(e) = res {
        out.error = Some(format!("transfer world: {}", e));
    }
    out
}

/// Part (b), second mode: the editing device performs the whole history
/// with no server configured, then adds the server (account creation +
/// `sync_file_transfers`), then the second device adds the server.
async fn run_transfer_late(sh: &Shared, backend: Backend, path: &[Op], wd: &Path) -> ItemOut {
    let mut out = ItemOut::new();
    let tpl = tpl_of(sh, backend);
    let (cpaths, cbytes) = load_content(sh);
    let account_id: AccountId = tpl.account_id.parse().unwrap();
    let sfx = if backend == Backend::Db { "offline_then_connected:sqlite" } else { "offline_then_connected" };
    let last = path.last().map(|o| o.kind()).unwrap_or("nothing");
    let res: Result<()> = async {
        let _ = std::fs::remove_dir_all(wd);
        let (d1, d2) = (wd.join("d1"), wd.join("d2"));
        fsutil::copy_dir(Path::new(&tpl.dir_e), &d1)?;
        fsutil::copy_dir(Path::new(&tpl.dir_e), &d2)?;
        let mut m = tpl.model_e.clone();
        let mut fails = Fails::default();
        let mut dev1 = net_open(&d1, backend, account_id, "device_1").await?;
        for op in path {
            let r = apply(&mut dev1, &mut m, op, &cpaths).await;
            out.cnt.transitions += 1;
            if let Err(e) = &r {
                *out.cnt.op_errors.entry(format!("network(offline):{}: {}", op.kind(), e.chars().take(80).collect::<String>())).or_default() += 1;
            }
            out.states.insert(format!("late-{}|{}|{}", backend.name(), m.canon(), if m.known { "" } else { "op failed" }));
        }
        let server = start_server(&wd.join("server"), backend == Backend::Db, None, None).await?;
        if let Some(r) = dev1.add_server(server.origin.clone()).await? {
            if let Err(e) = r.result {
                *out.cnt.op_errors.entry(format!("device1 add_server: {}", e.to_string().chars().take(80).collect::<String>())).or_default() += 1;
            }
        }
        if !settle(&dev1).await {
            fails.push(format!("transfer:device1_transfers_do_not_settle:after_{}:{}", last, sfx), format!("the transfer queue of the editing device is still busy {:?} after the server was added", SETTLE_HORIZON), json!({}));
        }
        check_device(&dev1, &mut m, &cbytes, "transfer", "device1", last, sfx, false, &mut fails, &mut out.cnt).await;
        let expected = m.expected();
        if m.known {
            check_server(&server, &account_id, last, sfx, &expected, &mut BTreeSet::new(), &mut fails, &mut out.cnt).await;
        }
        let mut dev2 = net_open(&d2, backend, account_id, "device_2").await?;
        if let Some(r) = dev2.add_server(server.origin.clone()).await? {
            if let Err(e) = r.result {
                *out.cnt.op_errors.entry(format!("device2 add_server: {}", e.to_string().chars().take(80).collect::<String>())).or_default() += 1;
            }
        }
        out.cnt.syncs += 1;
        if !settle(&dev2).await {
            fails.push(format!("transfer:device2_transfers_do_not_settle:after_{}:{}", last, sfx), format!("the transfer queue of the second device is still busy {:?} after the server was added", SETTLE_HORIZON), json!({}));
        }
        if m.known {
            let paths = dev2.paths();
            await_blobs(&paths.into_files_dir(), &expected, &BTreeSet::new()).await;
            let disk = walk_blobs(&paths.into_files_dir());
            out.cnt.store_checks += 1;
            out.cnt.blobs_hashed += disk.blobs.len() as u64;
            let log = log_set(&dev2).await;
            check_store("transfer", "device2", last, sfx, &disk, log.as_ref().ok(), None, &expected, &mut fails);
            decrypt_on(&dev2, &m, &cbytes, path, &mut fails, &mut out.cnt).await;
        }
        out.histories += 1;
        let _ = dev1.sign_out().await;
        let _ = dev2.sign_out().await;
        server.stop().await;
        let kinds: Vec<&str> = path.iter().map(|o| o.kind()).collect();
        for f in fails.0 {
            out.fails.push(json!({"sig": f["sig"], "what": format!("history {:?} performed offline, then the server is added: {}", kinds, f["what"].as_str().unwrap_or("")), "witness": {"engine": "filex", "part": "b-late", "backend": backend, "path": path, "detail": f["detail"]}}));
        }
        out.samples.push(json!({"part": "b (offline, then connected)", "backend": backend.name(), "history": path, "blobs_expected_after": m.expected().len()}));
        Ok(())
    }
    .await;
    if let Err(e) = res {
        out.error = Some(format!("transfer world (late): {}", e));
    }
    out
}

/// Part (b), third mode ("second device syncs late"): both devices and the
/// server hold the template's file secret. Device 1 performs the whole
/// history, letting its own transfers settle after every step; device 2
/// syncs only once at the end, so the file-log patch it merges carries
/// several events about blobs it already holds (move then delete, move
/// then move back, move then replace, attach then move, ...).
async fn run_transfer_lazy(sh: &Shared, backend: Backend, path: &[Op], wd: &Path) -> ItemOut {
    let mut out = ItemOut::new();
    let tpl = tpl_of(sh, backend);
    let (cpaths, cbytes) = load_content(sh);
    let account_id: AccountId = tpl.account_id.parse().unwrap();
    let sfx = if backend == Backend::Db { "late_sync:sqlite" } else { "late_sync" };
    let last = path.last().map(|o| o.kind()).unwrap_or("nothing");
    let res: Result<()> = async {
        let _ = std::fs::remove_dir_all(wd);
        let (d1, d2) = (wd.join("d1"), wd.join("d2"));
        fsutil::copy_dir(Path::new(&tpl.dir_p), &d1)?;
        fsutil::copy_dir(Path::new(&tpl.dir_p), &d2)?;
        let server = start_server(&wd.join("server"), backend == Backend::Db, None, None).await?;
        let mut dev1 = net_open(&d1, backend, account_id, "device_1").await?;
        if let Some(r) = dev1.add_server(server.origin.clone()).await? {
            if let Err(e) = r.result {
                return Err(anyhow!("initial sync of device 1: {}", e));
            }
        }
        let _ = settle(&dev1).await;
        let dev2 = net_open(&d2, backend, account_id, "device_2").await?;
        let mut dev2 = dev2;
        if let Some(r) = dev2.add_server(server.origin.clone()).await? {
            if let Err(e) = r.result {
                return Err(anyhow!("initial sync of device 2: {}", e));
            }
        }
        let _ = settle(&dev2).await;
        let mut m = tpl.model_p.clone();
        let mut fails = Fails::default();
        let mut known_server: BTreeSet<String> = BTreeSet::new();
        // starting point: server and both devices hold the template's blob
        let start = m.expected();
        check_server(&server, &account_id, "template", sfx, &start, &mut known_server, &mut fails, &mut out.cnt).await;
        if walk_blobs(&dev2.paths().into_files_dir()).blobs != start {
            return Err(anyhow!("the second device does not start with the template's blob"));
        }
        let mut done: Vec<Op> = vec![];
        for op in path {
            let r = apply(&mut dev1, &mut m, op, &cpaths).await;
            out.cnt.transitions += 1;
            done.push(op.clone());
            if let Err(e) = &r {
                *out.cnt.op_errors.entry(format!("network(lazy):{}: {}", op.kind(), e.chars().take(80).collect::<String>())).or_default() += 1;
            }
            let before = fails.0.len();
            if !settle(&dev1).await {
                fails.push(format!("transfer:device1_transfers_do_not_settle:after_{}:{}", op.kind(), sfx), format!("the transfer queue of the editing device is still busy {:?} after the operation", SETTLE_HORIZON), json!({}));
            }
            check_device(&dev1, &mut m, &cbytes, "transfer", "device1", op.kind(), sfx, false, &mut fails, &mut out.cnt).await;
            if m.known {
                check_server(&server, &account_id, op.kind(), sfx, &m.expected(), &mut known_server, &mut fails, &mut out.cnt).await;
            }
            for f in fails.0[before..].iter_mut() {
                f["detail"]["history"] = json!(done);
            }
            out.states.insert(format!("lazy-{}|{}|{}", backend.name(), m.canon(), if m.known { "" } else { "op failed" }));
        }
        // only now the second device syncs: one merge of the whole history
        let before = fails.0.len();
        let mut dev2_synced = false;
        for _attempt in 0..3 {
            let sr = dev2.sync().await;
            out.cnt.syncs += 1;
            match sr.first_error() {
                None => {
                    dev2_synced = true;
                    break;
                }
                Some(e) => {
                    *out.cnt.op_errors.entry(format!("device2 late sync after {}: {}", last, e.to_string().chars().take(80).collect::<String>())).or_default() += 1;
                    tokio::time::sleep(Duration::from_millis(500)).await;
                }
            }
        }
        if !dev2_synced {
            *out.cnt.op_errors.entry(format!("device2 not judged after {}: its sync failed 3 times", last)).or_default() += 1;
            m.known = false;
        }
        if !settle(&dev2).await {
            fails.push(format!("transfer:device2_transfers_do_not_settle:after_{}:{}", last, sfx), format!("the transfer queue of the second device is still busy {:?} after its sync", SETTLE_HORIZON), json!({}));
        }
        if m.known {
            let expected = m.expected();
            let paths = dev2.paths();
            await_blobs(&paths.into_files_dir(), &expected, &BTreeSet::new()).await;
            let disk = walk_blobs(&paths.into_files_dir());
            out.cnt.store_checks += 1;
            out.cnt.blobs_hashed += disk.blobs.len() as u64;
            let log = log_set(&dev2).await;
            check_store("transfer", "device2", last, sfx, &disk, log.as_ref().ok(), None, &expected, &mut fails);
            decrypt_on(&dev2, &m, &cbytes, path, &mut fails, &mut out.cnt).await;
        }
        for f in fails.0[before..].iter_mut() {
            f["detail"]["history"] = json!(path);
        }
        out.histories += 1;
        let _ = dev1.sign_out().await;
        let _ = dev2.sign_out().await;
        server.stop().await;
        let kinds: Vec<&str> = path.iter().map(|o| o.kind()).collect();
        for f in fails.0 {
            out.fails.push(json!({"sig": f["sig"], "what": format!("both devices hold a file secret, device 1 performs {:?}, device 2 syncs once afterwards: {}", kinds, f["what"].as_str().unwrap_or("")), "witness": {"engine": "filex", "part": "b-lazy", "backend": backend, "path": path, "detail": f["detail"]}}));
        }
        out.samples.push(json!({"part": "b (second device syncs late)", "backend": backend.name(), "start": "template account + one file secret on both devices and the server", "history": path, "blobs_expected_after": m.expected().len()}));
        out.extra = json!({"lazy": 1});
        Ok(())
    }
    .await;
    if let Err(e) = res {
        out.error = Some(format!("transfer world (late sync): {}", e));
    }
    out
}

/// The second device decrypts what it holds to the original content.
async fn decrypt_on(dev2: &NetworkAccount, m: &Model, cbytes: &[Vec<u8>; 2], path: &[Op], fails: &mut Fails, cnt: &mut Counters) {
    let paths = dev2.paths();
    for s in m.secrets.iter().filter(|s| s.alive) {
        let mut blobs: Vec<(String, u8)> = vec![];
        if s.is_file {
            blobs.push((s.name.clone(), s.content));
        }
        blobs.extend(s.fields.iter().map(|f| (f.name.clone(), f.content)));
        for (bname, content) in blobs {
            let name: ExternalFileName = bname.parse().expect("name");
            let p = paths.into_file_path_parts(&vid(&m.folders[s.folder as usize]), &sid(&s.id), &name);
            if !p.exists() {
                continue;
            }
            cnt.decrypts += 1;
            match robust_download(dev2, &vid(&m.folders[s.folder as usize]), &sid(&s.id), &name, cnt).await {
                Ok(b) if b == cbytes[content as usize] => {}
                Ok(_) => fails.push("transfer:device2_decrypt_mismatch".into(), "the second device decrypts a transferred blob to other bytes than the original file".into(), json!({"history": path})),
                Err(e) => fails.push("transfer:device2_decrypt_failed".into(), format!("download_file on the second device: {}", e), json!({"history": path})),
            }
        }
    }
}

// ---------------------------------------------------------------------
// part (c): upload inputs
// ---------------------------------------------------------------------

async fn token(signer: &[u8; 32], msg: &[u8]) -> String {
    let s: DeviceSigner = (*signer).try_into().unwrap();
    let sig = s.signing_key().sign(msg).await.unwrap();
    let b: BinaryEd25519Signature = sig.into();
    bs58::encode(encode(&b).await.unwrap()).into_string()
}

#[derive(Clone, Debug)]
struct Case {
    kind: &'static str,
    label: String,
    body: Vec<u8>,
    /// name in the URL (None = the blob's true name)
    name: Option<String>,
}

fn upload_cases(blob: &[u8], tier: Tier) -> Vec<Case> {
    let mut v = vec![];
    let n = blob.len();
    for i in 0..n {
        let vals: Vec<u8> = match tier {
            Tier::Quick => vec![blob[i] ^ 0x01, blob[i] ^ 0x80, !blob[i]],
            Tier::Thorough => (0..=255u8).filter(|x| *x != blob[i]).collect(),
        };
        for x in vals {
            let mut b = blob.to_vec();
            b[i] = x;
            v.push(Case { kind: "byte_flip", label: format!("byte {} -> {:#04x}", i, x), body: b, name: None });
        }
    }
    for l in 1..n {
        v.push(Case { kind: "truncated", label: format!("first {} of {} bytes", l, n), body: blob[..l].to_vec(), name: None });
    }
    v.push(Case { kind: "empty", label: "no bytes".into(), body: vec![], name: None });
    for (extra, label) in [(vec![0u8], "one zero byte appended"), (blob.to_vec(), "body sent twice"), (vec![0xAA; 300], "300 bytes appended")] {
        let mut b = blob.to_vec();
        b.extend(extra);
        v.push(Case { kind: "extended", label: label.into(), body: b, name: None });
    }
    let true_name = hex::encode(Sha256::digest(blob));
    let mut flipped = hex::decode(&true_name).unwrap();
    flipped[0] ^= 1;
    v.push(Case { kind: "wrong_name", label: "correct body, one bit of the name flipped".into(), body: blob.to_vec(), name: Some(hex::encode(flipped)) });
    v.push(Case { kind: "wrong_name", label: "correct body under the name of other bytes".into(), body: blob.to_vec(), name: Some(hex::encode(Sha256::digest(b"other bytes"))) });
    let step = tier.pick(16, 1);
    for l in (0..n).step_by(step) {
        v.push(Case { kind: "aborted_midway", label: format!("connection closed after {} of {} announced bytes", l, n), body: blob[..l].to_vec(), name: None });
    }
    v.push(Case { kind: "repeated", label: "the correct body uploaded three times".into(), body: blob.to_vec(), name: None });
    v
}

struct UploadWorld {
    server: ServerProc,
    base: String,
    account: String,
    signer: [u8; 32],
    vault: String,
    files_dir: PathBuf,
    client: reqwest::Client,
}

impl UploadWorld {
    fn path(&self, secret: &str, name: &str) -> String {
        format!("/api/v1/sync/file/{}/{}/{}", self.vault, secret, name)
    }
    async fn req(&self, method: reqwest::Method, secret: &str, name: &str, body: Option<Vec<u8>>) -> std::result::Result<(u16, Vec<u8>), String> {
        let path = self.path(secret, name);
        let mut r = self.client.request(method, format!("{}{}?connection_id=filex", self.base, path)).header("x-sos-account-id", &self.account).header("authorization", format!("Bearer {}", token(&self.signer, path.as_bytes()).await));
        if let Some(b) = body {
            r = r.header("content-type", "application/octet-stream").body(b);
        }
        match tokio::time::timeout(Duration::from_secs(20), async {
            let resp = r.send().await.map_err(|e| e.to_string())?;
            let st = resp.status().as_u16();
            let b = resp.bytes().await.map_err(|e| e.to_string())?;
            Ok::<_, String>((st, b.to_vec()))
        })
        .await
        {
            Ok(x) => x,
            Err(_) => Err("timeout".into()),
        }
    }
    fn secret_files(&self, secret: &str) -> Vec<String> {
        fsutil::walk_files(&self.files_dir.join(&self.vault).join(secret)).into_iter().map(|p| p.file_name().unwrap().to_string_lossy().to_string()).collect()
    }
}

async fn upload_world(sh: &Shared, wd: &Path) -> Result<UploadWorld> {
    let tpl = tpl_of(sh, Backend::Fs);
    let account_id: AccountId = tpl.account_id.parse().unwrap();
    let _ = std::fs::remove_dir_all(wd);
    let d = wd.join("client");
    fsutil::copy_dir(Path::new(&tpl.dir_e), &d)?;
    let server = start_server(&wd.join("server"), false, None, None).await?;
    let dev = Dev::open(&d, Backend::Fs, account_id, vkit::acct::password()).await?;
    let signer = dev.account.device_signer().await?.to_bytes();
    let device = Device::connect(dev, 0, &server.origin).await?;
    match device.sync().await {
        SyncResult::Ok => {}
        o => return Err(anyhow!("account creation on the server failed: {:?}", o)),
    }
    device.close().await;
    let files_dir = {
        let sa = server.account(&account_id).await.ok_or_else(|| anyhow!("account not on server"))?;
        let sa = sa.read().await;
        sa.paths().into_files_dir()
    };
    Ok(UploadWorld { base: format!("http://{}", server.addr), server, account: tpl.account_id.clone(), signer, vault: tpl.model_e.folders[0].clone(), files_dir, client: reqwest::Client::builder().build()? })
}

async fn run_upload(sh: &Shared, part: usize, parts: usize, tier: Tier, wd: &Path, only: Option<&str>) -> ItemOut {
    let mut out = ItemOut::new();
    let blob = std::fs::read(&sh.upload_blob).expect("upload blob");
    let true_name = hex::encode(Sha256::digest(&blob));
    let w = match upload_world(sh, wd).await {
        Ok(w) => w,
        Err(e) => {
            out.error = Some(format!("upload world: {}", e));
            return out;
        }
    };
    let cases = upload_cases(&blob, tier);
    let mut fails = Fails::default();
    let mut by_status: BTreeMap<String, u64> = BTreeMap::new();
    let mut refused = 0u64;
    let mut accepted = 0u64;
    let mut lock_waits = 0u64;
    for (ci, c) in cases.iter().enumerate() {
        if ci % parts != part {
            continue;
        }
        if let Some(o) = only {
            if o != c.label {
                continue;
            }
        }
        let secret = uuid::Uuid::new_v4().to_string();
        let name = c.name.clone().unwrap_or_else(|| true_name.clone());
        let target = w.files_dir.join(&w.vault).join(&secret).join(&name);
        let wit = json!({"engine": "filex", "part": "c", "case": c.kind, "label": c.label});
        let mut fail = |sig: String, what: String| fails.push(sig, format!("upload input [{}: {}]: {}", c.kind, c.label, what), wit.clone());
        out.histories += 1;
        match c.kind {
            "repeated" => {
                for round in 0..3 {
                    let r = w.req(reqwest::Method::PUT, &secret, &name, Some(c.body.clone())).await;
                    out.cnt.requests += 1;
                    let st = r.as_ref().map(|x| x.0).unwrap_or(0);
                    *by_status.entry(format!("repeated#{}:{}", round, st)).or_default() += 1;
                    if round == 0 && !(200..300).contains(&st) {
                        fail("upload:correct_upload_refused:first".into(), format!("the correct body was answered {}", st));
                    }
                    if st >= 500 || st == 0 {
                        fail("upload:repeated_upload_server_error".into(), format!("upload #{} of the same correct body was answered {}", round + 1, st));
                    }
                    if std::fs::read(&target).ok().as_deref() != Some(&blob[..]) {
                        fail("upload:stored_bytes_wrong:repeated".into(), format!("after upload #{} the stored file is not the uploaded bytes", round + 1));
                    }
                    if w.secret_files(&secret).iter().any(|f| f != &name) {
                        fail("upload:temp_file_left_behind:repeated".into(), format!("files next to the blob after upload #{}: {:?}", round + 1, w.secret_files(&secret)));
                    }
                }
                continue;
            }
            "aborted_midway" => {
                // announce the full length, send a prefix, look, hang up
                use tokio::io::AsyncWriteExt;
                let path = w.path(&secret, &name);
                let head = format!("PUT {}?connection_id=filex HTTP/1.1\r\nhost: {}\r\nx-sos-account-id: {}\r\nauthorization: Bearer {}\r\ncontent-type: application/octet-stream\r\ncontent-length: {}\r\n\r\n", path, w.server.addr, w.account, token(&w.signer, path.as_bytes()).await, blob.len());
                match tokio::net::TcpStream::connect(w.server.addr).await {
                    Err(e) => fail("upload:request_failed".into(), format!("connect: {}", e)),
                    Ok(mut s) => {
                        let _ = s.write_all(head.as_bytes()).await;
                        let _ = s.write_all(&c.body).await;
                        let _ = s.flush().await;
                        out.cnt.requests += 1;
                        tokio::time::sleep(Duration::from_millis(30)).await;
                        // while the upload is incomplete nothing is served
                        if target.exists() {
                            fail("upload:partial_file_exposed:aborted_midway".into(), "the target path exists while the body is incomplete".into());
                        }
                        let g = w.req(reqwest::Method::GET, &secret, &name, None).await;
                        out.cnt.requests += 1;
                        if let Ok((st, b)) = &g {
                            if (200..300).contains(st) {
                                fail("upload:partial_file_exposed:aborted_midway".into(), format!("a download during the incomplete upload was answered {} with {} bytes", st, b.len()));
                            }
                        }
                        drop(s);
                        let t0 = Instant::now();
                        loop {
                            let left = w.secret_files(&secret);
                            if left.is_empty() {
                                break;
                            }
                            if t0.elapsed() > Duration::from_secs(8) {
                                if target.exists() {
                                    fail("upload:wrong_bytes_stored:aborted_midway".into(), "the target path exists after the connection was closed midway".into());
                                } else {
                                    fail("upload:temp_file_left_behind:aborted_midway".into(), format!("8 s after the connection was closed the directory holds {:?}", left));
                                }
                                break;
                            }
                            tokio::time::sleep(Duration::from_millis(20)).await;
                        }
                        refused += 1;
                    }
                }
            }
            _ => {
                let r = w.req(reqwest::Method::PUT, &secret, &name, Some(c.body.clone())).await;
                out.cnt.requests += 1;
                match r {
                    Err(e) if e == "timeout" => fail(format!("upload:request_hangs:{}", c.kind), "no answer within 20 s".into()),
                    Err(e) => fail(format!("upload:request_failed:{}", c.kind), e),
                    Ok((st, _)) => {
                        *by_status.entry(format!("{}:{}", c.kind, st)).or_default() += 1;
                        if (200..300).contains(&st) {
                            fail(format!("upload:wrong_body_accepted:{}", c.kind), format!("answered {} although the body does not hash to the requested name", st));
                        } else {
                            refused += 1;
                        }
                    }
                }
                if target.exists() {
                    fail(format!("upload:wrong_bytes_stored:{}", c.kind), "the target path exists after the refused upload".into());
                }
                let left = w.secret_files(&secret);
                if left.iter().any(|f| f.ends_with(".upload")) {
                    fail(format!("upload:temp_file_left_behind:{}", c.kind), format!("after the request the directory holds {:?}", left));
                } else if !left.is_empty() && !target.exists() {
                    fail(format!("upload:stray_file:{}", c.kind), format!("after the request the directory holds {:?}", left));
                }
            }
        }
        // a subsequent correct upload succeeds and downloads byte-exact
        // 409 = the server still holds the per-file operation lock of the
        // previous request (an aborted upload ends when the server notices
        // the closed connection): wait for it, a lock that is never
        // released is a failure
        let mut r = w.req(reqwest::Method::PUT, &secret, &true_name, Some(blob.clone())).await;
        out.cnt.requests += 1;
        let t_lock = Instant::now();
        while matches!(r, Ok((409, _))) && t_lock.elapsed() < Duration::from_secs(8) {
            tokio::time::sleep(Duration::from_millis(50)).await;
            r = w.req(reqwest::Method::PUT, &secret, &true_name, Some(blob.clone())).await;
            out.cnt.requests += 1;
            lock_waits += 1;
        }
        match r {
            Ok((409, _)) => fail(format!("upload:file_lock_not_released:after_{}", c.kind), "8 s after the request ended the server still answers 409 (operation in progress) for the file".into()),
            Ok((st, _)) if (200..300).contains(&st) => accepted += 1,
            Ok((st, _)) => fail(format!("upload:correct_upload_refused:after_{}", c.kind), format!("the correct body sent afterwards was answered {}", st)),
            Err(e) => fail(format!("upload:correct_upload_refused:after_{}", c.kind), e),
        }
        let g = w.req(reqwest::Method::GET, &secret, &true_name, None).await;
        out.cnt.requests += 1;
        match g {
            Ok((200, b)) if b == blob => {}
            Ok((st, b)) => fail(format!("upload:download_differs:after_{}", c.kind), format!("download answered {} with {} bytes (uploaded {})", st, b.len(), blob.len())),
            Err(e) => fail(format!("upload:download_differs:after_{}", c.kind), e),
        }
        let left = w.secret_files(&secret);
        if left.iter().any(|f| f.ends_with(".upload")) {
            fail(format!("upload:temp_file_left_behind:after_correct_upload_following_{}", c.kind), format!("directory holds {:?}", left));
        }
        if out.samples.len() < 2 && ci % 97 == part {
            out.samples.push(json!({"part": "c", "case": c.kind, "input": c.label, "body_len": c.body.len()}));
        }
    }
    // the account's blob store on the server: every file is content addressed
    let disk = walk_blobs(&w.files_dir);
    out.cnt.blobs_hashed += disk.blobs.len() as u64;
    if !disk.bad_name.is_empty() {
        fails.push("upload:server_stores_name_not_sha256".into(), format!("{} accepted files whose name is not the SHA-256 of their bytes", disk.bad_name.len()), json!({"files": disk.bad_name.iter().take(3).collect::<Vec<_>>()}));
    }
    if !disk.stray.is_empty() {
        fails.push("upload:temp_file_left_behind:at_end".into(), format!("files in the server's blob store that are not blobs: {:?}", disk.stray.iter().take(3).collect::<Vec<_>>()), json!({}));
    }
    w.server.stop().await;
    out.extra = json!({"by_status": by_status, "refused": refused, "accepted_correct": accepted, "lock_waits": lock_waits});
    for f in fails.0 {
        out.fails.push(json!({"sig": f["sig"], "what": f["what"], "witness": f["detail"]}));
    }
    out
}

// ---------------------------------------------------------------------
// driver
// ---------------------------------------------------------------------

fn symbolic_root(p: bool) -> Model {
    let host = MSecret { folder: 1, id: String::new(), is_file: false, content: 0, name: String::new(), alive: true, verified: true, fields: vec![] };
    let mut m = Model { folders: ["F0".into(), "F1".into(), "A".into()], f1_alive: true, secrets: vec![host], known: true };
    if p {
        m.step(&Op::Create { c: 0, f: 0 });
    }
    m
}

/// Histories of part (b): the maximal histories from the template account
/// that contain at most one attach operation; in the quick tier those whose
/// last operation is not a create (a create as last step only repeats the
/// upload / download every history already begins with; the states after
/// it are covered by part (a) and by the thorough tier).
fn transfer_paths(tier: Tier) -> Vec<Vec<Op>> {
    let mut paths = enumerate_paths(&symbolic_root(false), depth_b(tier), tier);
    paths.retain(|p| p.iter().filter(|o| matches!(o, Op::Attach { .. })).count() <= 1);
    if tier == Tier::Quick {
        paths.retain(|p| !matches!(p.last(), Some(Op::Create { .. })));
    }
    paths
}

/// Does `op` write a file event about the existing file secret (slot 1 of
/// the template with one file secret) or about the folder it is in?
fn touches_existing(m: &Model, op: &Op) -> bool {
    match op {
        Op::Replace { s } | Op::Move { s } | Op::Delete { s } | Op::Archive { s } | Op::Attach { s } | Op::Detach { s } => *s == 1,
        Op::DeleteFolder => m.secrets[1].alive && m.secrets[1].folder == 1,
        _ => false,
    }
}

/// Histories of the "second device syncs late" mode, from the template
/// account that holds one file secret. `focused`: the first operation is
/// move / archive / replace content / attach on that secret and every
/// later one writes another file event about it (or deletes the folder it
/// is in), i.e. exactly the histories that put several events about one
/// existing blob into a single merged patch. Otherwise: all maximal
/// histories of that depth with at most one attach.
fn lazy_paths(depth: usize, focused: bool, tier: Tier) -> Vec<Vec<Op>> {
    let root = symbolic_root(true);
    if !focused {
        let mut p = enumerate_paths(&root, depth, tier);
        p.retain(|p| p.iter().filter(|o| matches!(o, Op::Attach { .. })).count() <= 1);
        return p;
    }
    fn rec(m: &Model, d: usize, tier: Tier, cur: &mut Vec<Op>, out: &mut Vec<Vec<Op>>) {
        let ops: Vec<Op> = m
            .enabled(tier)
            .into_iter()
            .filter(|o| touches_existing(m, o))
            .filter(|o| !cur.is_empty() || matches!(o, Op::Move { .. } | Op::Archive { .. } | Op::Replace { .. } | Op::Attach { .. }))
            .collect();
        if d == 0 || ops.is_empty() {
            if cur.len() >= 2 {
                out.push(cur.clone());
            }
            return;
        }
        for op in ops {
            let mut m2 = m.clone();
            m2.step(&op);
            cur.push(op);
            rec(&m2, d - 1, tier, cur, out);
            cur.pop();
        }
    }
    let mut out = vec![];
    rec(&root, depth, tier, &mut vec![], &mut out);
    out
}

fn items(tier: Tier) -> (Vec<Item>, Vec<Vec<Op>>) {
    let mut v = vec![];
    let mut paths = transfer_paths(tier);
    let n_online = paths.len();
    // offline-then-connected mode (thorough): only the final state is
    // transferred, all depth 2 histories
    if tier == Tier::Thorough {
        paths.extend(enumerate_paths(&symbolic_root(false), 2, tier));
    }
    let n_late = paths.len();
    // second-device-syncs-late mode: focused histories of the tier's depth
    // (both worlds in thorough), and in thorough all depth 2 histories on
    // the file-system world
    let focused = lazy_paths(depth_b(tier), true, tier);
    paths.extend(focused.iter().cloned());
    let n_focused = paths.len();
    if tier == Tier::Thorough {
        let all2 = lazy_paths(2, false, tier);
        paths.extend(all2.into_iter().filter(|p| !focused.contains(p)));
    }
    // longest items first: sub-trees below the account that already holds
    // a file secret (thorough only, see `rule`)
    for root in ["P", "E"] {
        for backend in [Backend::Fs, Backend::Db] {
            // the deeper tree: thorough tier, file-system backend
            if root == "P" && (tier == Tier::Quick || backend == Backend::Db) {
                continue;
            }
            let n = symbolic_root(root == "P").enabled(tier).len();
            for first in 0..n {
                v.push(Item::Hist { backend, root: root.into(), first });
            }
        }
        if root == "P" {
            for backend in [Backend::Fs, Backend::Db] {
                // quick: file-system devices and server only
                if tier == Tier::Quick && backend == Backend::Db {
                    continue;
                }
                for i in 0..n_online {
                    // the sqlite world skips the histories that end with
                    // a create (see transfer_paths)
                    if backend == Backend::Db && matches!(paths[i].last(), Some(Op::Create { .. })) {
                        continue;
                    }
                    v.push(Item::Transfer { backend, path: i });
                }
                for i in n_online..n_late {
                    v.push(Item::TransferLate { backend, path: i });
                }
                for i in n_late..paths.len() {
                    if i >= n_focused && backend == Backend::Db {
                        continue;
                    }
                    v.push(Item::TransferLazy { backend, path: i });
                }
            }
        }
    }
    let parts = tier.pick(4, 16);
    for part in 0..parts {
        v.push(Item::Upload { part, parts });
    }
    // debugging aid: VKIT_FILEX_PARTS=a|b|c restricts the run (the
    // registered command never sets it)
    if let Ok(p) = std::env::var("VKIT_FILEX_PARTS") {
        v.retain(|i| match i {
            Item::Hist { .. } => p.contains('a'),
            Item::Transfer { .. } | Item::TransferLate { .. } => p.contains('b'),
            // L: the second-device-syncs-late mode alone
            Item::TransferLazy { .. } => p.contains('b') || p.contains('L'),
            Item::Upload { .. } => p.contains('c'),
        });
    }
    (v, paths)
}

fn rt() -> tokio::runtime::Runtime {
    tokio::runtime::Builder::new_multi_thread().worker_threads(2).enable_all().build().unwrap()
}

async fn build_shared(base: &Path, seed: u64) -> Result<Shared> {
    let cdir = base.join("content");
    std::fs::create_dir_all(&cdir)?;
    let c0 = cdir.join("large.bin");
    let c1 = cdir.join("small.txt");
    std::fs::write(&c0, det_bytes(C_LARGE, seed, "filex-large"))?;
    std::fs::write(&c1, hex::encode(det_bytes(C_SMALL / 2, seed, "filex-small")))?;
    let content = [c0.clone(), c1.clone()];
    // a real encrypted blob of the small content (what a client uploads)
    let bdir = base.join("upload-blob");
    std::fs::create_dir_all(&bdir)?;
    let c1b = c1.clone();
    let bdir2 = bdir.clone();
    let enc = tokio::spawn(async move { sos_client_storage::files::FileStorage::encrypt_file_passphrase(&c1b, &bdir2, secrecy::SecretString::new("filex upload blob password".to_string().into())).await.map_err(|e| e.to_string()) });
    let cfs = content.clone();
    let b2 = base.to_path_buf();
    let t_fs = std::thread::spawn(move || rt().block_on(build_tpl(&b2, Backend::Fs, &cfs)).map_err(|e| e.to_string()));
    let cdb = content.clone();
    let b3 = base.to_path_buf();
    let t_db = std::thread::spawn(move || rt().block_on(build_tpl(&b3, Backend::Db, &cdb)).map_err(|e| e.to_string()));
    let (digest, _) = enc.await?.map_err(|e| anyhow!("encrypting the upload blob: {}", e))?;
    let upload_blob = bdir.join(hex::encode(digest));
    let mut tpls = vec![];
    for t in [t_fs, t_db] {
        tpls.push(t.join().map_err(|_| anyhow!("template thread panicked"))?.map_err(|e| anyhow!("template: {}", e))?);
    }
    Ok(Shared { content: [c0.to_string_lossy().into(), c1.to_string_lossy().into()], upload_blob: upload_blob.to_string_lossy().into(), tpls })
}

async fn run_item(sh: &Shared, it: &Item, paths: &[Vec<Op>], tier: Tier, wd: &Path) -> Value {
    let _ = std::fs::remove_dir_all(wd);
    let _ = std::fs::create_dir_all(wd);
    let out = match it {
        Item::Hist { backend, root, first } => explore(sh, *backend, root, Some(*first), None, depth_a(tier), tier, wd).await,
        Item::Transfer { backend, path } => run_transfer(sh, *backend, &paths[*path], wd).await,
        Item::TransferLate { backend, path } => run_transfer_late(sh, *backend, &paths[*path], wd).await,
        Item::TransferLazy { backend, path } => run_transfer_lazy(sh, *backend, &paths[*path], wd).await,
        Item::Upload { part, parts } => run_upload(sh, *part, *parts, tier, wd, None).await,
    };
    let _ = std::fs::remove_dir_all(wd);
    out.json()
}

fn replay(args: &Args, path: &Path) -> ! {
    let v: Value = serde_json::from_slice(&std::fs::read(path).expect("read replay")).expect("json");
    let wit = v["witness"].clone();
    let want = v["signature"].as_str().unwrap_or("").to_string();
    let rt = rt();
    let mut obs = vec![];
    for round in 0..2 {
        let base = fsutil::WorkDir::new(&format!("filex-r{}", round));
        let sh = rt.block_on(build_shared(base.path(), args.seed)).expect("templates");
        let wd = base.path().join("w");
        let out = match wit["part"].as_str() {
            Some("a") => {
                let backend: Backend = serde_json::from_value(wit["backend"].clone()).expect("backend");
                let hist: Vec<Op> = serde_json::from_value(wit["history"].clone()).expect("history");
                let root = wit["root"].as_str().unwrap_or("E").to_string();
                std::fs::create_dir_all(&wd).unwrap();
                rt.block_on(explore(&sh, backend, &root, None, Some(&hist), hist.len(), Tier::Thorough, &wd))
            }
            Some("b-lazy") => {
                let p: Vec<Op> = serde_json::from_value(wit["path"].clone()).expect("path");
                let backend: Backend = serde_json::from_value(wit["backend"].clone()).unwrap_or(Backend::Fs);
                rt.block_on(run_transfer_lazy(&sh, backend, &p, &wd))
            }
            Some("b-late") => {
                let p: Vec<Op> = serde_json::from_value(wit["path"].clone()).expect("path");
                let backend: Backend = serde_json::from_value(wit["backend"].clone()).unwrap_or(Backend::Fs);
                rt.block_on(run_transfer_late(&sh, backend, &p, &wd))
            }
            Some("b") => {
                let p: Vec<Op> = serde_json::from_value(wit["path"].clone()).expect("path");
                let backend: Backend = serde_json::from_value(wit["backend"].clone()).unwrap_or(Backend::Fs);
                rt.block_on(run_transfer(&sh, backend, &p, &wd))
            }
            _ => rt.block_on(run_upload(&sh, 0, 1, args.tier, &wd, wit["label"].as_str())),
        };
        let mut sigs: Vec<String> = out.fails.iter().map(|f| f["sig"].as_str().unwrap_or("").to_string()).collect();
        sigs.sort();
        sigs.dedup();
        for f in &out.fails {
            println!("run {}: {} {}", round, f["sig"], f["what"]);
        }
        if let Some(e) = &out.error {
            eprintln!("MACHINERY-ERROR {}", e);
            std::process::exit(2);
        }
        obs.push(sigs);
    }
    fsutil::cleanup_all();
    if obs[0] != obs[1] {
        eprintln!("MACHINERY-ERROR replay is not deterministic: {:?} vs {:?}", obs[0], obs[1]);
        std::process::exit(2);
    }
    if obs[0].contains(&want) {
        println!("VIOLATION property=C17 replay={}", path.display());
        std::process::exit(1);
    }
    std::process::exit(0);
}

fn main() {
    let args = Args::parse();
    let (its, paths) = items(args.tier);
    if pool::worker_stage().is_some() {
        let base = PathBuf::from(std::env::var("VKIT_FILEX_DIR").expect("VKIT_FILEX_DIR"));
        let sh: Shared = serde_json::from_slice(&std::fs::read(base.join("shared.json")).expect("shared")).expect("shared json");
        let rt = rt();
        let wd = fsutil::WorkDir::new("filex-w");
        let tier = args.tier;
        pool::worker_loop(|idx| rt.block_on(run_item(&sh, &its[idx], &paths, tier, &wd.path().join("w"))));
    }
    if let Some(p) = args.replay.clone() {
        replay(&args, &p);
    }
    if args.rest.iter().any(|a| a == "--plan") {
        // size of the enumeration, nothing is executed
        let nodes = |root: bool| -> usize { (1..=depth_a(args.tier)).map(|d| enumerate_paths(&symbolic_root(root), d, args.tier).len()).sum() };
        let count = |f: &dyn Fn(&Item) -> bool| its.iter().filter(|i| f(i)).count();
        println!("work items {}; part a histories per backend: from the template account {}, from the template account + one file secret {} (thorough tier only); part b histories: connected fs {}, connected sqlite {}, offline-then-connected {}", its.len(), nodes(false), nodes(true), count(&|i| matches!(i, Item::Transfer { backend: Backend::Fs, .. })), count(&|i| matches!(i, Item::Transfer { backend: Backend::Db, .. })), count(&|i| matches!(i, Item::TransferLate { .. })));
        println!("part b, second device syncs late: fs {}, sqlite {}", count(&|i| matches!(i, Item::TransferLazy { backend: Backend::Fs, .. })), count(&|i| matches!(i, Item::TransferLazy { backend: Backend::Db, .. })));
        std::process::exit(0);
    }
    let mut run = Run::new("C17", "model_checking", &args);
    let base = fsutil::WorkDir::new("filex-build");
    let sh = match rt().block_on(build_shared(base.path(), args.seed)) {
        Ok(s) => s,
        Err(e) => {
            run.machinery(format!("templates: {}", e));
            std::process::exit(run.finish(Map::new()));
        }
    };
    std::fs::write(base.path().join("shared.json"), serde_json::to_vec(&sh).unwrap()).expect("write shared");
    let mut opts = PoolOpts::default();
    opts.item_timeout = Duration::from_secs(args.tier.pick(900, 5400));
    opts.env.push(("VKIT_FILEX_DIR".into(), base.path().to_string_lossy().to_string()));
    let res = pool::run_stage("filex", its.len(), &opts);
    let mut states: BTreeSet<String> = BTreeSet::new();
    let mut cnt = Counters::default();
    let mut histories = [0u64; 3];
    let mut samples: [Vec<Value>; 3] = [vec![], vec![], vec![]];
    let mut upload_status: BTreeMap<String, u64> = BTreeMap::new();
    let (mut refused, mut accepted, mut lock_waits) = (0u64, 0u64, 0u64);
    let mut lazy_histories = 0u64;
    for (i, r) in res.into_iter().enumerate() {
        match r {
            pool::ItemResult::Crashed(w) => run.machinery(format!("item {:?}: {}", its[i], w)),
            pool::ItemResult::Done(v) => {
                if let Some(e) = v["error"].as_str() {
                    run.machinery(format!("item {:?}: {}", its[i], e));
                    continue;
                }
                let k = match its[i] {
                    Item::Hist { .. } => 0,
                    Item::Transfer { .. } | Item::TransferLate { .. } | Item::TransferLazy { .. } => 1,
                    Item::Upload { .. } => 2,
                };
                histories[k] += v["histories"].as_u64().unwrap_or(0);
                for s in v["states"].as_array().cloned().unwrap_or_default() {
                    states.insert(s.as_str().unwrap_or("").to_string());
                }
                if let Ok(c) = serde_json::from_value::<Counters>(v["cnt"].clone()) {
                    cnt.transitions += c.transitions;
                    cnt.store_checks += c.store_checks;
                    cnt.blobs_hashed += c.blobs_hashed;
                    cnt.decrypts += c.decrypts;
                    cnt.requests += c.requests;
                    cnt.syncs += c.syncs;
                    cnt.decrypt_retries += c.decrypt_retries;
                    cnt.decrypt_fallbacks += c.decrypt_fallbacks;
                    for (k, n) in c.op_errors {
                        *cnt.op_errors.entry(k).or_default() += n;
                    }
                    for (k, n) in c.t_ms {
                        *cnt.t_ms.entry(k).or_default() += n;
                    }
                }
                if let Some(m) = v["extra"]["by_status"].as_object() {
                    for (k, n) in m {
                        *upload_status.entry(k.clone()).or_default() += n.as_u64().unwrap_or(0);
                    }
                }
                refused += v["extra"]["refused"].as_u64().unwrap_or(0);
                accepted += v["extra"]["accepted_correct"].as_u64().unwrap_or(0);
                lock_waits += v["extra"]["lock_waits"].as_u64().unwrap_or(0);
                lazy_histories += v["extra"]["lazy"].as_u64().unwrap_or(0);
                for f in v["fails"].as_array().cloned().unwrap_or_default() {
                    run.fail(f["sig"].as_str().unwrap_or("?"), f["what"].as_str().unwrap_or(""), f["witness"].clone());
                }
                for s in v["samples"].as_array().cloned().unwrap_or_default() {
                    // the late-sync mode gets sample slots of its own
                    let cap = if matches!(its[i], Item::TransferLazy { .. } | Item::TransferLate { .. }) { 5 } else { 3 };
                    push_sample(&mut samples[k], s, cap);
                }
            }
        }
    }
    if histories[0] == 0 || histories[1] == 0 || refused == 0 || accepted == 0 {
        run.machinery(format!("vacuous: histories {:?}, uploads refused {} accepted {}", histories, refused, accepted));
    }
    run.assume("SHA-256 and the age passphrase encryption are trusted; content-addressing lets a blob whose name equals the SHA-256 of its bytes be decrypted once per name");
    run.assume("part (b): the transfer queue's task scheduling is not controlled; 'settled' = no transfer in flight and no notification for 600 ms (the queue retries failures every 250 ms), horizon 10 s");
    let all_samples: Vec<Value> = samples.iter().flatten().cloned().collect();
    let mut cov = Map::new();
    cov.insert("states".into(), json!(states.len()));
    cov.insert("transitions".into(), json!(cnt.transitions + cnt.requests));
    cov.insert("traces_validated_against_impl".into(), json!(histories[0] + histories[1] + histories[2]));
    cov.insert("samples".into(), json!(all_samples));
    cov.insert("exhaustive".into(), json!(true));
    cov.insert("rule".into(), json!(format!("The template account has a default folder, a second folder holding one plain note secret, and an archive. (a) every history up to depth {da} over {{create file secret (6000-byte content in the default folder | 100-byte content in the second folder; the other combinations arise through replace and move), replace content (Account::update_file; the fresh secret has no fields), update meta only, move to the other folder, delete secret, delete the second folder, archive, attach an external-file field made from a real file (to a file secret, which then owns two blobs, or to the note secret), remove the field again (update_secret without it)}} x every live secret (the note only takes part while it owns a blob, at most one file field per secret), from the template account{pb}, on the file-system and sqlite client backends, explored as a tree with directory snapshots; each file encryption / decryption costs about 1 s (age scrypt), hence the shallow depth. (b) maximal histories of depth {db} from the template account that contain at most one attach operation{bq}, through the real NetworkAccount (sync + file transfer queue) against an in-process server, second device = real NetworkAccount on a copy of the template that syncs after every step{late}. Third mode, 'second device syncs late': server and both devices start with the template account that already holds one file secret (blob present everywhere); device 1 performs the history, its transfers settling after every step, and device 2 syncs only once at the end, so that one merged file-log patch carries several events about a blob the device already holds; histories: {lazy}. (c) a {blen}-byte real encrypted blob: every single-byte alteration ({vals} per position), truncation at every length, empty, 3 extended bodies, 2 wrong names, connection closed midway at {ab} length, repeated upload; each followed by a correct upload and a download. A state is the id-free model state (folder liveness; per secret: folder, kind, content, contents of its file fields) per backend", da = depth_a(args.tier), pb = args.tier.pick(String::new(), format!(" and, on the file-system backend, from the template account that already holds one file secret (i.e. depth {} histories that begin with a create)", depth_a(args.tier) + 1)), db = depth_b(args.tier), lazy = args.tier.pick(format!("depth 2, first operation move / archive / replace content / attach on the existing file secret, second operation another one that writes a file event about that secret or deletes the folder it is in (file-system world)"), format!("up to depth 3 with the first operation move / archive / replace content / attach on the existing file secret and every later one writing another file event about it (file-system and sqlite worlds), plus every depth 2 history from that account with at most one attach (file-system world)")), bq = args.tier.pick(" and do not end with a create (a create as last step only repeats the upload / download every history begins with), file-system devices and server", " (file-system world: all of them; sqlite world: those that do not end with a create)"), late = args.tier.pick("", "; and all depth 2 histories performed with no server configured, after which first the editing device and then the second device add the server (both worlds)"), blen = std::fs::metadata(&sh.upload_blob).map(|m| m.len()).unwrap_or(0), vals = args.tier.pick("3 values", "all 255 values"), ab = args.tier.pick("every 16th", "every"))));
    cov.insert("part_a_histories_one_device".into(), json!({"histories": histories[0], "depth": depth_a(args.tier), "backends": ["fs", "sqlite"], "work_items": its.iter().filter(|i| matches!(i, Item::Hist { .. })).count()}));
    cov.insert("part_b_transfer".into(), json!({"machinery": "real sos_net::NetworkAccount on both devices (add_server, automatic sync after every operation, its own file transfer queue); not the bare HttpClient file API", "maximal_histories": histories[1], "depth": depth_b(args.tier), "device_and_server_backends": args.tier.pick("fs", "fs and sqlite"), "second_device_syncs": cnt.syncs, "of_which_second_device_syncs_late_(one_merge_of_the_whole_history)": lazy_histories}));
    cov.insert("part_c_upload_inputs".into(), json!({"inputs": histories[2], "http_requests": cnt.requests, "wrong_bodies_refused": refused, "correct_uploads_accepted_afterwards": accepted, "retries_while_the_server_held_the_file_lock_of_an_aborted_upload": lock_waits, "responses": upload_status}));
    cov.insert("store_checks".into(), json!(cnt.store_checks));
    cov.insert("blobs_hashed".into(), json!(cnt.blobs_hashed));
    cov.insert("blobs_decrypted_and_compared".into(), json!(cnt.decrypts));
    cov.insert("operation_errors_observed".into(), json!(cnt.op_errors));
    cov.insert("decrypt_refused_by_age_speed_bound".into(), json!({"retries": cnt.decrypt_retries, "decrypted_without_the_bound_instead": cnt.decrypt_fallbacks, "note": "age refuses scrypt work factors above a bound calibrated from the current machine speed; on a loaded machine this hits files encrypted moments earlier. Not a verdict of this check (environment dependent), but the same refusal would meet a blob encrypted on a fast device and downloaded on a much slower one"}));
    cov.insert("time_ms_part_a".into(), json!(cnt.t_ms));
    drop(base);
    std::process::exit(run.finish(cov));
}
