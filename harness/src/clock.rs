//! Logical clocks installed through hook H1 (`sos_core::verif_clock`).
//!
//! Every "device" d has its own clock `T0 + skew[d] + tick[d] * step[d]`;
//! `tick[d]` advances by one on every timestamp drawn while d is the
//! current device. The harness selects the current device before each
//! device step, so timestamps are a function of the driving history only.
use std::sync::atomic::{AtomicI64, AtomicUsize, Ordering};

pub const MAX_DEV: usize = 8;
/// 2024-01-01T00:00:00Z
pub const T0: i64 = 1_704_067_200;

static CUR: AtomicUsize = AtomicUsize::new(0);
#[allow(clippy::declare_interior_mutable_const)]
const Z: AtomicI64 = AtomicI64::new(0);
static TICK: [AtomicI64; MAX_DEV] = [Z; MAX_DEV];
/// skew in nanoseconds
static SKEW: [AtomicI64; MAX_DEV] = [Z; MAX_DEV];
/// step in nanoseconds
static STEP: [AtomicI64; MAX_DEV] = [Z; MAX_DEV];
static FROZEN: AtomicI64 = AtomicI64::new(0);

fn now() -> (i64, u32) {
    let d = CUR.load(Ordering::SeqCst);
    let k = if FROZEN.load(Ordering::SeqCst) != 0 {
        TICK[d].load(Ordering::SeqCst)
    } else {
        TICK[d].fetch_add(1, Ordering::SeqCst)
    };
    let step = STEP[d].load(Ordering::SeqCst);
    let total: i128 = SKEW[d].load(Ordering::SeqCst) as i128
        + (k as i128) * (step as i128);
    let secs = T0 as i128 + total.div_euclid(1_000_000_000);
    let nanos = total.rem_euclid(1_000_000_000);
    (secs as i64, nanos as u32)
}

/// Install the logical clock (all devices: skew 0, step 1 ms + 1 ns so
/// that sub-second digits are exercised).
pub fn install() {
    for d in 0..MAX_DEV {
        TICK[d].store(0, Ordering::SeqCst);
        SKEW[d].store(0, Ordering::SeqCst);
        STEP[d].store(1_000_001, Ordering::SeqCst);
    }
    CUR.store(0, Ordering::SeqCst);
    sos_core::verif_clock::set_clock(Some(now));
}

pub fn uninstall() {
    sos_core::verif_clock::set_clock(None);
}

pub fn set_device(d: usize) {
    CUR.store(d, Ordering::SeqCst);
}

pub fn configure(d: usize, skew_nanos: i64, step_nanos: i64) {
    SKEW[d].store(skew_nanos, Ordering::SeqCst);
    STEP[d].store(step_nanos, Ordering::SeqCst);
}

pub fn set_tick(d: usize, k: i64) {
    TICK[d].store(k, Ordering::SeqCst);
}

pub fn tick(d: usize) -> i64 {
    TICK[d].load(Ordering::SeqCst)
}

/// While frozen, drawing a timestamp does not advance the clock.
pub fn freeze(on: bool) {
    FROZEN.store(on as i64, Ordering::SeqCst);
}
