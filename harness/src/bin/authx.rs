//! C11 — the server acts only for requests signed by a trusted device.
//!
//! Explicit exploration of (server state x access config x route x
//! credential form) with raw HTTP requests against a real in-process
//! server. States are reached by real client operations (device trust /
//! revoke synced through the real bridge).
use anyhow::{anyhow, Result};
use serde::{Deserialize, Serialize};
use serde_json::{json, Map, Value};
use sos_account::Account;
use sos_core::{
    commit::{CommitProof, CommitTree},
    device::TrustedDevice,
    encode,
    events::{
        patch::{DeviceDiff, Patch},
        DeviceEvent, EventLog, EventLogType,
    },
    AccountId,
};
use sos_login::device::DeviceSigner;
use sos_protocol::{
    DiffRequest, PatchRequest, ScanRequest, WireEncodeDecode,
};
use sos_server::AccessControlConfig;
use sos_signer::ed25519::BinaryEd25519Signature;
use sos_protocol::RemoteSync;
use sos_sync::{StorageEventLogs, SyncPacket, SyncStorage, UpdateSet};
use std::collections::{BTreeMap, HashSet};
use std::path::Path;
use vkit::acct::{Backend, Dev};
use vkit::pool::{self, PoolOpts};
use vkit::run::{push_sample, Args, Run, Tier};
use vkit::world::{start_server, status_view, Device, ServerProc, SyncResult};
use vkit::{clock, fsutil};

#[derive(Clone, Serialize, Deserialize)]
struct Prepared {
    dir: String,
    account_a: String,
    account_b: String,
    d1: [u8; 32],
    d2: [u8; 32],
    db1: [u8; 32],
    /// names of the server snapshots
    states: Vec<String>,
    /// encoded request bodies
    bodies: BTreeMap<String, Vec<u8>>,
    default_folder: String,
    s0: String,
}

async fn signer_bytes(dev: &Dev) -> Result<[u8; 32]> {
    Ok(dev.account.device_signer().await?.to_bytes())
}

/// Forced account update whose device diff holds only the first record of
/// the client's device log (Trust(D1)): the server's device log is rewritten
/// and D2 is no longer in it.
async fn force_drop_d2(dev: &Device) -> Result<()> {
    let diff = {
        let acc = dev.account.lock().await;
        let log = acc.device_log().await?;
        let log = log.read().await;
        let all = log.diff_unchecked().await?;
        let first = all.patch.records().first().cloned().ok_or_else(|| anyhow!("empty device log"))?;
        match first.decode_event::<DeviceEvent>().await? {
            DeviceEvent::Trust(_) => {}
            _ => return Err(anyhow!("first device event is not a trust event")),
        }
        let mut t = CommitTree::new();
        t.insert(first.commit().0);
        t.commit();
        DeviceDiff::new(Patch::new(vec![first.clone()]), t.head()?, Some(*first.commit()))
    };
    clock::set_device(dev.idx);
    let r = dev.bridge.force_update(UpdateSet { device: Some(diff), ..Default::default() }).await;
    if let Err(e) = r.result {
        return Err(anyhow!("forced update failed: {}", e));
    }
    Ok(())
}

async fn prepare(dir: &Path, server_db: bool) -> Result<Prepared> {
    clock::install();
    let srv_dir = dir.join("server");
    let server = start_server(&srv_dir, server_db, None, None).await?;
    // account A with one secret, account B
    let mut a = Dev::create(&dir.join("a"), Backend::Fs, "account-a", false).await?;
    let default = a.account.default_folder().await.unwrap();
    let (m, s) = vkit::gen::secret("note", 0, "a0");
    let s0 = a.account.create_secret(m, s, Default::default()).await?.id;
    let d1 = signer_bytes(&a).await?;
    let account_a = a.account_id;
    let b = Dev::create(&dir.join("b"), Backend::Fs, "account-b", false).await?;
    let db1 = signer_bytes(&b).await?;
    let account_b = b.account_id;
    let dev_a = Device::connect(a, 0, &server.origin).await?;
    let dev_b = Device::connect(b, 1, &server.origin).await?;
    for d in [&dev_a, &dev_b] {
        if d.sync().await != SyncResult::Ok {
            return Err(anyhow!("initial sync failed"));
        }
    }
    // request bodies (valid encodings)
    let mut bodies = BTreeMap::new();
    {
        let acc = dev_a.account.lock().await;
        let status = acc.sync_status().await?;
        let packet = SyncPacket { status, diff: Default::default(), compare: None };
        bodies.insert("sync_packet".to_string(), packet.encode().await?);
        let cs = acc.create_set().await?;
        bodies.insert("create_set".to_string(), cs.encode().await?);
        let us = sos_sync::UpdateSet::default();
        bodies.insert("update_set".to_string(), us.encode().await?);
    }
    bodies.insert("scan".into(), ScanRequest { log_type: EventLogType::Account, limit: 8, offset: 0 }.encode().await?);
    bodies.insert("diff".into(), DiffRequest { log_type: EventLogType::Account, from_hash: None }.encode().await?);
    {
        // a patch request with a stale (made up) checkpoint: refused as a
        // conflict even with valid credentials, so never state changing
        let mut t = CommitTree::new();
        t.insert(CommitTree::hash(b"made up"));
        t.commit();
        let proof: CommitProof = t.head()?;
        bodies.insert("patch".into(), PatchRequest { log_type: EventLogType::Account, commit: None, proof, patch: vec![] }.encode().await?);
    }
    bodies.insert("file_set".into(), sos_protocol::transfer::FileSet(Default::default()).encode().await?);
    bodies.insert("file_bytes".into(), b"not the right content".to_vec());
    let snap = |name: &str| -> Result<()> {
        fsutil::copy_dir(&srv_dir, &dir.join(format!("state-{}", name)))?;
        Ok(())
    };
    let mut states = vec![];
    snap("d1")?;
    states.push("d1".to_string());
    // client snapshot at the same point (states are re-reached LIVE from
    // here in every item so that the server's in-memory state is the one
    // produced by the requests, not one rebuilt from disc at start-up)
    fsutil::copy_dir(&dir.join("a"), &dir.join("a-d1"))?;
    // trust D2
    let d2 = DeviceSigner::random();
    let d2_bytes = d2.to_bytes();
    let d2_dev = TrustedDevice::new(d2.public_key(), None, None);
    {
        let mut acc = dev_a.account.lock().await;
        acc.patch_devices_unchecked(&[DeviceEvent::Trust(d2_dev.clone())]).await?;
    }
    if dev_a.sync().await != SyncResult::Ok {
        return Err(anyhow!("sync after trust failed"));
    }
    snap("d1_d2")?;
    states.push("d1_d2".to_string());
    // state reached by a patch [Trust(D2) again, Revoke(D2)] in one sync
    {
        // keep the d1_d2 client state to branch from it
        fsutil::copy_dir(&dir.join("a"), &dir.join("a-branch"))?;
    }
    // revoke D2 (plain)
    {
        let mut acc = dev_a.account.lock().await;
        acc.revoke_device(&d2.public_key()).await?;
    }
    if dev_a.sync().await != SyncResult::Ok {
        return Err(anyhow!("sync after revoke failed"));
    }
    snap("d2_revoked")?;
    states.push("d2_revoked".to_string());
    dev_a.close().await;
    dev_b.close().await;
    server.stop().await;
    // branch: server at d1_d2, client a-branch: re-trust + revoke in one patch
    {
        let srv2 = dir.join("server-branch");
        fsutil::copy_dir(&dir.join("state-d1_d2"), &srv2)?;
        let server = start_server(&srv2, server_db, None, None).await?;
        let a2 = Dev::open(&dir.join("a-branch"), Backend::Fs, account_a, vkit::acct::password()).await?;
        let dev = Device::connect(a2, 0, &server.origin).await?;
        {
            let mut acc = dev.account.lock().await;
            let again = TrustedDevice::new(d2.public_key(), None, Some(time::OffsetDateTime::from_unix_timestamp(1_800_000_000).unwrap()));
            acc.patch_devices_unchecked(&[DeviceEvent::Trust(again)]).await?;
            acc.revoke_device(&d2.public_key()).await?;
        }
        if dev.sync().await != SyncResult::Ok {
            return Err(anyhow!("sync of retrust+revoke failed"));
        }
        dev.close().await;
        server.stop().await;
        fsutil::copy_dir(&srv2, &dir.join("state-d2_retrusted_then_revoked"))?;
        states.push("d2_retrusted_then_revoked".to_string());
    }
    // branch: from d1_d2, every device revoked in one patch
    {
        let srv3 = dir.join("server-branch-none");
        fsutil::copy_dir(&dir.join("state-d1_d2"), &srv3)?;
        let server = start_server(&srv3, server_db, None, None).await?;
        fsutil::copy_dir(&dir.join("a-branch"), &dir.join("a-branch-none"))?;
        let a3 = Dev::open(&dir.join("a-branch-none"), Backend::Fs, account_a, vkit::acct::password()).await?;
        let dev = Device::connect(a3, 0, &server.origin).await?;
        {
            let d1s: DeviceSigner = d1.try_into().map_err(|_| anyhow!("d1 key"))?;
            let mut acc = dev.account.lock().await;
            acc.patch_devices_unchecked(&[DeviceEvent::Revoke(d2.public_key()), DeviceEvent::Revoke(d1s.public_key())]).await?;
        }
        if dev.sync().await != SyncResult::Ok {
            return Err(anyhow!("sync of revoke-all failed"));
        }
        dev.close().await;
        server.stop().await;
        fsutil::copy_dir(&srv3, &dir.join("state-no_trusted_device"))?;
        states.push("no_trusted_device".to_string());
    }
    // branch: from d1_d2, a forced account update rewrites the device log to [Trust(D1)]
    {
        let srv4 = dir.join("server-branch-forced");
        fsutil::copy_dir(&dir.join("state-d1_d2"), &srv4)?;
        let server = start_server(&srv4, server_db, None, None).await?;
        fsutil::copy_dir(&dir.join("a-branch"), &dir.join("a-branch-forced"))?;
        let a4 = Dev::open(&dir.join("a-branch-forced"), Backend::Fs, account_a, vkit::acct::password()).await?;
        let dev = Device::connect(a4, 0, &server.origin).await?;
        force_drop_d2(&dev).await?;
        dev.close().await;
        server.stop().await;
        fsutil::copy_dir(&srv4, &dir.join("state-d2_dropped_by_forced_update"))?;
        states.push("d2_dropped_by_forced_update".to_string());
    }
    Ok(Prepared {
        dir: dir.to_string_lossy().to_string(),
        account_a: account_a.to_string(),
        account_b: account_b.to_string(),
        d1,
        d2: d2_bytes,
        db1,
        states,
        bodies,
        default_folder: default.id().to_string(),
        s0: s0.to_string(),
    })
}

#[derive(Clone, Debug, Serialize, Deserialize, PartialEq, Eq)]
enum Cred {
    None,
    Garbage,
    WrongLength,
    LegacyDotted,
    UnknownKey,
    D2,
    D1OtherBytes,
    OtherAccountsDevice,
    D1NoAccountHeader,
    D1BadAccountHeader,
    D1ForAccountB,
    Valid,
}
const CREDS: [Cred; 12] = [
    Cred::None,
    Cred::Garbage,
    Cred::WrongLength,
    Cred::LegacyDotted,
    Cred::UnknownKey,
    Cred::D2,
    Cred::D1OtherBytes,
    Cred::OtherAccountsDevice,
    Cred::D1NoAccountHeader,
    Cred::D1BadAccountHeader,
    Cred::D1ForAccountB,
    Cred::Valid,
];

#[derive(Clone, Debug, Serialize, Deserialize)]
struct Route {
    method: String,
    path: String,
    body: Option<String>,
    /// body-signed (true) or path-signed
    sign_body: bool,
    /// state changing when accepted: only sent with non-valid credentials
    destructive: bool,
}

fn routes(p: &Prepared) -> Vec<Route> {
    let r = |m: &str, path: &str, body: Option<&str>, sign_body: bool, destructive: bool| Route { method: m.into(), path: path.into(), body: body.map(|s| s.into()), sign_body, destructive };
    let file = format!("/api/v1/sync/file/{}/{}/{}", p.default_folder, p.s0, "ab".repeat(32));
    vec![
        r("HEAD", "/api/v1/sync/account", None, false, false),
        r("GET", "/api/v1/sync/account", None, false, false),
        r("PUT", "/api/v1/sync/account", Some("create_set"), true, false),
        r("POST", "/api/v1/sync/account", Some("update_set"), true, true),
        r("PATCH", "/api/v1/sync/account", Some("sync_packet"), true, false),
        r("DELETE", "/api/v1/sync/account", None, false, true),
        r("GET", "/api/v1/sync/account/status", None, false, false),
        r("GET", "/api/v1/sync/account/events", Some("scan"), true, false),
        r("POST", "/api/v1/sync/account/events", Some("diff"), true, false),
        r("PATCH", "/api/v1/sync/account/events", Some("patch"), true, false),
        r("POST", "/api/v1/sync/files", Some("file_set"), true, false),
        r("PUT", &file, Some("file_bytes"), false, false),
        r("GET", &file, None, false, false),
        r("DELETE", &file, None, false, false),
        r("POST", &file, None, false, false),
        // the change-notification feed (websocket upgrade, signed over the path)
        r("WS", "/api/v1/sync/changes", None, false, false),
    ]
}

#[derive(Clone, Debug, Serialize, Deserialize, PartialEq, Eq)]
enum Access {
    Open,
    AllowA,
    AllowB,
    DenyA,
    DenyB,
    AllowAndDenyA,
}
// An account that is on BOTH lists is outside the property's quantifier
// ({none, allow, deny}); the implementation lets the allow list win there.
const ACCESS: [Access; 5] = [
    Access::Open,
    Access::AllowA,
    Access::AllowB,
    Access::DenyA,
    Access::DenyB,
];

fn access_cfg(a: &Access, p: &Prepared) -> Option<AccessControlConfig> {
    let ida: AccountId = p.account_a.parse().unwrap();
    let idb: AccountId = p.account_b.parse().unwrap();
    let set = |x: AccountId| -> Option<HashSet<AccountId>> { Some([x].into_iter().collect()) };
    match a {
        Access::Open => None,
        Access::AllowA => Some(AccessControlConfig { allow: set(ida), deny: None }),
        Access::AllowB => Some(AccessControlConfig { allow: set(idb), deny: None }),
        Access::DenyA => Some(AccessControlConfig { allow: None, deny: set(ida) }),
        Access::DenyB => Some(AccessControlConfig { allow: None, deny: set(idb) }),
        Access::AllowAndDenyA => Some(AccessControlConfig { allow: set(ida), deny: set(ida) }),
    }
}

/// Is account A allowed by the configuration (per the property: on a deny
/// list, or absent from a configured allow list => refused everywhere)?
fn a_allowed(a: &Access) -> bool {
    matches!(a, Access::Open | Access::AllowA | Access::DenyB)
}

async fn token(signer: &[u8; 32], msg: &[u8]) -> String {
    let s: DeviceSigner = (*signer).try_into().unwrap();
    let sig = s.signing_key().sign(msg).await.unwrap();
    let b: BinaryEd25519Signature = sig.into();
    bs58::encode(encode(&b).await.unwrap()).into_string()
}

#[derive(Clone, Debug, Serialize, Deserialize)]
struct Item {
    state: String,
    access: Access,
    server_db: bool,
}

fn items(p_states: &[String], tier: Tier) -> Vec<Item> {
    let mut v = vec![];
    let dbs: Vec<bool> = match tier {
        Tier::Quick => vec![false],
        Tier::Thorough => vec![false, true],
    };
    for db in dbs {
        for s in p_states {
            for a in ACCESS.iter() {
                // access configurations are explored in every state in
                // thorough; quick: all configs in the richest state, the
                // open config in all states
                if tier == Tier::Quick && *a != Access::Open && s != "d2_revoked" {
                    continue;
                }
                v.push(Item { state: s.clone(), access: a.clone(), server_db: db });
            }
        }
    }
    v
}

fn server_digest(dir: &Path) -> BTreeMap<String, String> {
    fsutil::tree_digest(dir)
        .into_iter()
        .filter(|(k, _)| !k.contains("logs/") && !k.ends_with(".log") && !k.contains("-wal") && !k.contains("-shm"))
        .collect()
}

async fn statuses(server: &ServerProc, p: &Prepared) -> Value {
    let mut out = vec![];
    for id in [&p.account_a, &p.account_b] {
        let id: AccountId = id.parse().unwrap();
        out.push(match server.sync_status(&id).await {
            Ok(s) => status_view(&s),
            Err(e) => json!({"error": e.to_string()}),
        });
    }
    json!(out)
}

async fn run_item(p: &Prepared, it: &Item, work: &Path) -> Value {
    let mut fails: Vec<Value> = vec![];
    let res: Result<Value> = async {
        let _ = std::fs::remove_dir_all(work);
        let sdir = work.join("server");
        let live = a_allowed(&it.access);
        let from = if live { "d1".to_string() } else { it.state.clone() };
        fsutil::copy_dir(&Path::new(&p.dir).join(format!("state-{}", from)), &sdir)?;
        let server = start_server(&sdir, it.server_db, access_cfg(&it.access, p), None).await?;
        if live && it.state != "d1" {
            // reach the state on THIS server process through real syncs
            clock::install();
            clock::set_tick(0, 900_000);
            let cdir = work.join("client-a");
            fsutil::copy_dir(&Path::new(&p.dir).join("a-d1"), &cdir)?;
            let account_a: AccountId = p.account_a.parse().unwrap();
            let a = Dev::open(&cdir, Backend::Fs, account_a, vkit::acct::password()).await?;
            let dev = Device::connect(a, 0, &server.origin).await?;
            let d2: DeviceSigner = p.d2.try_into().map_err(|_| anyhow!("d2 key"))?;
            {
                let mut acc = dev.account.lock().await;
                acc.patch_devices_unchecked(&[DeviceEvent::Trust(TrustedDevice::new(d2.public_key(), None, None))]).await?;
            }
            if dev.sync().await != SyncResult::Ok {
                return Err(anyhow!("live sync after trust failed"));
            }
            if it.state == "d2_revoked" {
                let mut acc = dev.account.lock().await;
                acc.revoke_device(&d2.public_key()).await?;
            }
            if it.state == "d2_retrusted_then_revoked" {
                let mut acc = dev.account.lock().await;
                let again = TrustedDevice::new(d2.public_key(), None, Some(time::OffsetDateTime::from_unix_timestamp(1_800_000_000).unwrap()));
                acc.patch_devices_unchecked(&[DeviceEvent::Trust(again)]).await?;
                acc.revoke_device(&d2.public_key()).await?;
            }
            if it.state == "no_trusted_device" {
                // the account's last devices revoke themselves: D2, then D1
                let d1: DeviceSigner = p.d1.try_into().map_err(|_| anyhow!("d1 key"))?;
                let mut acc = dev.account.lock().await;
                acc.patch_devices_unchecked(&[DeviceEvent::Revoke(d2.public_key()), DeviceEvent::Revoke(d1.public_key())]).await?;
            }
            if it.state == "d2_dropped_by_forced_update" {
                force_drop_d2(&dev).await?;
            } else if it.state != "d1_d2" && dev.sync().await != SyncResult::Ok {
                return Err(anyhow!("live sync after revoke failed"));
            }
            dev.close().await;
        }
        let base = format!("http://{}", server.addr);
        let client = reqwest::Client::builder().build()?;
        let d2_trusted = it.state == "d1_d2";
        let mut sent = 0u64;
        let mut accepted = 0u64;
        let mut refused = 0u64;
        let mut by_status: BTreeMap<String, u64> = BTreeMap::new();
        let mut samples = vec![];
        // non-valid credentials first, valid ones last
        for cred in CREDS.iter() {
            for r in routes(p) {
                let d1_trusted = it.state != "no_trusted_device";
                let should_be_valid = a_allowed(&it.access) && ((*cred == Cred::Valid && d1_trusted) || (*cred == Cred::D2 && d2_trusted));
                if r.destructive && should_be_valid {
                    continue;
                }
                let body: Vec<u8> = r.body.as_ref().map(|b| p.bodies[b].clone()).unwrap_or_default();
                let signed: Vec<u8> = if r.sign_body { body.clone() } else { r.path.as_bytes().to_vec() };
                let is_ws = r.method == "WS";
                let url = if is_ws { format!("{}{}?connection_id=authx-{}", base, r.path, sent) } else { format!("{}{}?connection_id=authx", base, r.path) };
                let method = reqwest::Method::from_bytes(if is_ws { b"GET" } else { r.method.as_bytes() }).unwrap();
                let mut req = client.request(method, &url);
                if is_ws {
                    req = req
                        .header("connection", "Upgrade")
                        .header("upgrade", "websocket")
                        .header("sec-websocket-version", "13")
                        .header("sec-websocket-key", "dGhlIHNhbXBsZSBub25jZQ==");
                }
                if r.body.is_some() {
                    req = req.header("content-type", if r.body.as_deref() == Some("file_bytes") { "application/octet-stream" } else { "application/x-protobuf" }).body(body.clone());
                }
                let acct_a = p.account_a.clone();
                req = match cred {
                    Cred::None => req.header("x-sos-account-id", &acct_a),
                    Cred::Garbage => req.header("x-sos-account-id", &acct_a).header("authorization", "Bearer !!!not-base58!!!"),
                    Cred::WrongLength => req.header("x-sos-account-id", &acct_a).header("authorization", format!("Bearer {}", bs58::encode(vec![7u8; 20]).into_string())),
                    Cred::LegacyDotted => {
                        let t = token(&p.d1, &signed).await;
                        req.header("x-sos-account-id", &acct_a).header("authorization", format!("Bearer {}.{}", t, t))
                    }
                    Cred::UnknownKey => {
                        let k = DeviceSigner::random().to_bytes();
                        req.header("x-sos-account-id", &acct_a).header("authorization", format!("Bearer {}", token(&k, &signed).await))
                    }
                    Cred::D2 => req.header("x-sos-account-id", &acct_a).header("authorization", format!("Bearer {}", token(&p.d2, &signed).await)),
                    Cred::D1OtherBytes => {
                        let mut other = signed.clone();
                        other.push(b'x');
                        req.header("x-sos-account-id", &acct_a).header("authorization", format!("Bearer {}", token(&p.d1, &other).await))
                    }
                    Cred::OtherAccountsDevice => req.header("x-sos-account-id", &acct_a).header("authorization", format!("Bearer {}", token(&p.db1, &signed).await)),
                    Cred::D1NoAccountHeader => req.header("authorization", format!("Bearer {}", token(&p.d1, &signed).await)),
                    Cred::D1BadAccountHeader => req.header("x-sos-account-id", "0xnot-an-account-id").header("authorization", format!("Bearer {}", token(&p.d1, &signed).await)),
                    Cred::D1ForAccountB => req.header("x-sos-account-id", &p.account_b).header("authorization", format!("Bearer {}", token(&p.d1, &signed).await)),
                    Cred::Valid => req.header("x-sos-account-id", &acct_a).header("authorization", format!("Bearer {}", token(&p.d1, &signed).await)),
                };
                let before_digest = server_digest(&sdir);
                let before_status = statuses(&server, p).await;
                let resp = tokio::time::timeout(std::time::Duration::from_secs(90), req.send()).await;
                sent += 1;
                let status: u16 = match resp {
                    Ok(Ok(r)) => r.status().as_u16(),
                    Ok(Err(_)) => 0,
                    Err(_) => {
                        fails.push(json!({"sig": format!("request_hangs:{}", r.method), "what": "a request did not get an answer within 90 s"}));
                        0
                    }
                };
                *by_status.entry(status.to_string()).or_default() += 1;
                // an accepted websocket upgrade (101) is an accepted request
                let success = (200..300).contains(&status) || status == 101;
                let cname = format!("{:?}", cred);
                let rname = format!("{} {}", r.method, if r.path.contains("/sync/file/") { "/sync/file/.." } else { r.path.trim_start_matches("/api/v1") });
                if samples.len() < 4 && (sent % 37 == 1) {
                    samples.push(json!({"state": it.state, "access": it.access, "request": rname, "credential": cname, "status": status}));
                }
                if should_be_valid {
                    if success {
                        accepted += 1;
                    }
                    continue;
                }
                refused += 1;
                if success {
                    let why = if !a_allowed(&it.access) {
                        format!("account_not_allowed_by_config({:?})", it.access)
                    } else {
                        format!("credential_{}", cname)
                    };
                    fails.push(json!({"sig": format!("accepted:{}:{}", why, rname.replace(' ', "_")), "what": format!("{} answered {} in state {} with credential form {:?} under access config {:?}", rname, status, it.state, cred, it.access), "detail": {"state": it.state, "access": it.access, "route": rname, "credential": cname, "status": status}}));
                }
                // state untouched by a refused request
                let after_digest = server_digest(&sdir);
                let after_status = statuses(&server, p).await;
                if after_digest != before_digest || after_status != before_status {
                    let changed: Vec<String> = after_digest.iter().filter(|(k, v)| before_digest.get(*k) != Some(v)).map(|(k, _)| k.clone()).chain(before_digest.keys().filter(|k| !after_digest.contains_key(*k)).cloned()).take(4).collect();
                    fails.push(json!({"sig": format!("refused_but_state_changed:{}:{}", cname, rname.replace(' ', "_")), "what": format!("{} with credential form {:?} was answered {} but the server's state changed ({:?})", rname, cred, status, changed), "detail": {"state": it.state, "access": it.access, "status": status}}));
                }
            }
        }
        server.stop().await;
        Ok(json!({"sent": sent, "accepted_valid": accepted, "refused_expected": refused, "by_status": by_status, "samples": samples}))
    }
    .await;
    let mut v = match res {
        Ok(v) => v,
        Err(e) => json!({"error": e.to_string()}),
    };
    v["fails"] = json!(fails);
    v
}

fn rt() -> tokio::runtime::Runtime {
    tokio::runtime::Builder::new_multi_thread().worker_threads(3).enable_all().build().unwrap()
}

const STATES: [&str; 6] = ["d1", "d1_d2", "d2_revoked", "d2_retrusted_then_revoked", "no_trusted_device", "d2_dropped_by_forced_update"];

fn main() {
    let args = Args::parse();
    let st: Vec<String> = STATES.iter().map(|s| s.to_string()).collect();
    let its = items(&st, args.tier);
    if pool::worker_stage().is_some() {
        let wd = fsutil::WorkDir::new("authx-w");
        let rt = rt();
        let mut prep: std::collections::HashMap<bool, std::result::Result<Prepared, String>> = Default::default();
        pool::worker_loop(|idx| {
            let it = &its[idx];
            let p = prep.entry(it.server_db).or_insert_with(|| rt.block_on(prepare(&wd.path().join(format!("p{}", it.server_db)), it.server_db)).map_err(|e| e.to_string()));
            match p {
                Ok(p) => rt.block_on(run_item(p, it, &wd.path().join("w"))),
                Err(e) => json!({"error": format!("prepare: {}", e), "fails": []}),
            }
        });
    }
    if let Some(path) = &args.replay {
        let v: Value = serde_json::from_slice(&std::fs::read(path).expect("read")).unwrap();
        let it: Item = serde_json::from_value(v["witness"]["item"].clone()).expect("item");
        let want = v["signature"].as_str().unwrap_or("").to_string();
        let rt = rt();
        let mut obs = vec![];
        for round in 0..2 {
            let wd = fsutil::WorkDir::new(&format!("authx-r{}", round));
            let p = rt.block_on(prepare(&wd.path().join("p"), it.server_db)).expect("prepare");
            let r = rt.block_on(run_item(&p, &it, &wd.path().join("w")));
            let mut sigs: Vec<String> = r["fails"].as_array().unwrap().iter().map(|f| f["sig"].as_str().unwrap().to_string()).collect();
            sigs.sort();
            for f in r["fails"].as_array().unwrap() {
                println!("run {}: {} {}", round, f["sig"], f["what"]);
            }
            obs.push(sigs);
        }
        if obs[0] != obs[1] {
            eprintln!("MACHINERY-ERROR replay is not deterministic");
            std::process::exit(2);
        }
        if obs[0].contains(&want) {
            println!("VIOLATION property=C11 replay={}", path.display());
            std::process::exit(1);
        }
        std::process::exit(0);
    }
    let mut run = Run::new("C11", "model_checking", &args);
    let mut opts = PoolOpts::default();
    opts.item_timeout = std::time::Duration::from_secs(600);
    opts.workers = opts.workers.min(its.len()).min(12);
    let res = pool::run_stage("auth", its.len(), &opts);
    let mut sent = 0u64;
    let mut accepted = 0u64;
    let mut refused = 0u64;
    let mut samples = vec![];
    let mut by_status: BTreeMap<String, u64> = BTreeMap::new();
    for (i, r) in res.into_iter().enumerate() {
        match r {
            pool::ItemResult::Crashed(w) => run.machinery(format!("item {:?}: {}", its[i], w)),
            pool::ItemResult::Done(v) => {
                if let Some(e) = v.get("error").and_then(|e| e.as_str()) {
                    run.machinery(format!("item {:?}: {}", its[i], e));
                    continue;
                }
                sent += v["sent"].as_u64().unwrap_or(0);
                accepted += v["accepted_valid"].as_u64().unwrap_or(0);
                refused += v["refused_expected"].as_u64().unwrap_or(0);
                if let Some(m) = v["by_status"].as_object() {
                    for (k, n) in m {
                        *by_status.entry(k.clone()).or_default() += n.as_u64().unwrap_or(0);
                    }
                }
                for f in v["fails"].as_array().unwrap() {
                    run.fail(f["sig"].as_str().unwrap(), f["what"].as_str().unwrap(), json!({"engine":"authx","item": its[i], "detail": f.get("detail")}));
                }
                for s in v["samples"].as_array().unwrap() {
                    push_sample(&mut samples, s.clone(), 8);
                }
            }
        }
    }
    if accepted == 0 || refused == 0 {
        run.machinery("vacuous: no accepted valid request or no refused request");
    }
    run.assume("Ed25519 signature verification and base58 are trusted; requests are sent one at a time");
    let mut cov = Map::new();
    cov.insert("states".into(), json!(its.len()));
    cov.insert("transitions".into(), json!(sent));
    cov.insert("traces_validated_against_impl".into(), json!(sent));
    cov.insert("samples".into(), json!(samples));
    cov.insert("valid_requests_answered_2xx".into(), json!(accepted));
    cov.insert("requests_that_must_be_refused".into(), json!(refused));
    cov.insert("responses_by_status".into(), json!(by_status));
    cov.insert("exhaustive".into(), json!(true));
    cov.insert("rule".into(), json!("server state in {D1 trusted; D1+D2 trusted; D2 revoked; D2 re-trusted and revoked in one patch; every device revoked; D2 dropped by a forced account update that rewrites the device log} x access config in {none, allow A, allow B, deny A, deny B} (quick: all configs in one state, open config in all states) x 16 route/method pairs (incl. the websocket change feed) x 12 credential forms; every request that must be refused must not be answered 2xx and must leave the server directory (digest of every file) and both accounts' sync status unchanged"));
    std::process::exit(run.finish(cov));
}
