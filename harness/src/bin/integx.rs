//! C16 (completeness half) — every single-byte corruption of the content
//! regions of vault rows, event records and external file blobs, and every
//! removal of a vault, log or blob, is flagged by the integrity reports.
//!
//! Several account variants (different histories, hence different storage
//! shapes) are built with real API calls on both backends; the byte
//! ranges are computed by this engine's own parser of the file formats
//! and cross-checked against the repository's `FormatStream`. Every
//! mutation is applied one at a time to a private copy of the data
//! directory (restored afterwards, restoration is verified), then
//! `sos_integrity::account_integrity` over all folders and
//! `sos_integrity::file_integrity` over the account's external files are
//! run and must contain a `Failure` for the affected folder / file.
use anyhow::{anyhow, Result};
use indexmap::IndexSet;
use serde::{Deserialize, Serialize};
use serde_json::{json, Map, Value};
use sos_account::Account;
use sos_backend::BackendTarget;
use sos_client_storage::{AccessOptions, NewFolderOptions};
use sos_core::{
    constants::{FOLDER_EVENT_LOG_IDENTITY, VAULT_IDENTITY},
    crypto::{AccessKey, Cipher},
    AccountId, ExternalFile, SecretId, VaultFlags,
};
use sos_filesystem::formats::{
    EventLogRecord, FileItem, FormatStream, FormatStreamIterator, VaultRecord,
};
use sos_integrity::{
    account_integrity, file_integrity, FileIntegrityEvent,
    FolderIntegrityEvent,
};
use sos_sync::StorageEventLogs;
use sos_vault::{
    secret::{Secret, SecretMeta, SecretRow},
    Header, Summary,
};
use std::collections::{BTreeMap, HashSet};
use std::ops::Range;
use std::os::unix::fs::FileExt;
use std::path::{Path, PathBuf};
use std::sync::atomic::{AtomicU64, Ordering};
use std::time::Duration;
use vkit::acct::{close_target, target_for, Backend, Dev};
use vkit::fsutil;
use vkit::pool::{self, PoolOpts};
use vkit::run::{push_sample, Args, Run, Tier};

static PANICS: AtomicU64 = AtomicU64::new(0);
static T_ACCOUNT_US: AtomicU64 = AtomicU64::new(0);
static T_FILE_US: AtomicU64 = AtomicU64::new(0);
const REPORT_HORIZON: Duration = Duration::from_secs(10);
const LARGE_LEN: usize = 20 * 1024;
const SMALL_LEN: usize = 100;

// ---------------------------------------------------------------------
// targets
// ---------------------------------------------------------------------

#[derive(Clone, Debug, Serialize, Deserialize, PartialEq)]
struct Target {
    /// "fs_byte" | "db_cell" | "remove"
    kind: String,
    /// signature region, e.g. "vault_row.meta", "event_record.payload",
    /// "blob_byte", "secret_row.secret", "remove_vault_file"
    region: String,
    /// named by the property (true) or recorded as an observation only
    in_scope: bool,
    /// extra signature detail ("large_blob" / "small_blob" / "")
    detail: String,
    /// path relative to the data directory (fs_byte, file removals)
    file: String,
    offset: u64,
    /// sqlite location (db_cell, row removals)
    table: String,
    column: String,
    rowid: i64,
    /// affected folder / external file (one of them is set)
    folder: Option<String>,
    blob: Option<String>,
    /// build-independent coordinates (for replays)
    coord: String,
}

impl Target {
    fn blank(kind: &str, region: &str) -> Target {
        Target {
            kind: kind.into(),
            region: region.into(),
            in_scope: true,
            detail: String::new(),
            file: String::new(),
            offset: 0,
            table: String::new(),
            column: String::new(),
            rowid: 0,
            folder: None,
            blob: None,
            coord: String::new(),
        }
    }
}

const MUTS: [&str; 3] = ["xor01", "xor80", "not"];
fn mutate(name: &str, b: u8) -> u8 {
    match name {
        "xor01" => b ^ 0x01,
        "xor80" => b ^ 0x80,
        _ => !b,
    }
}

#[derive(Clone, Debug, Serialize, Deserialize)]
struct Built {
    dir: String,
    backend: Backend,
    /// which history produced the account (see `VARIANTS`)
    variant: u8,
    /// account password after the history
    password: String,
    account_id: String,
    /// (folder id, name) in list_folders order
    folders: Vec<(String, String)>,
    /// canonical external files ("vault/secret/name", length on disk)
    files: Vec<(String, u64)>,
    targets: Vec<Target>,
    /// byte ranges the parser found vs FormatStream
    cross_checked_records: u64,
    stats: Value,
}

// ---------------------------------------------------------------------
// own parser of the file formats
// ---------------------------------------------------------------------

fn rd_u32(b: &[u8], at: usize) -> Result<u32> {
    let s = b
        .get(at..at + 4)
        .ok_or_else(|| anyhow!("u32 at {} outside the file", at))?;
    Ok(u32::from_le_bytes([s[0], s[1], s[2], s[3]]))
}

struct AeadRanges {
    nonce: Range<u64>,
    ciphertext: Range<u64>,
    framing: Vec<u64>,
    end: usize,
}

/// u8 nonce size | nonce | u32 ciphertext length | ciphertext
fn parse_aead(b: &[u8], at: usize) -> Result<AeadRanges> {
    let ns = *b.get(at).ok_or_else(|| anyhow!("aead outside file"))? as usize;
    if ns != 12 && ns != 24 {
        return Err(anyhow!("nonce size {} at {}", ns, at));
    }
    let nonce = (at + 1) as u64..(at + 1 + ns) as u64;
    let lpos = at + 1 + ns;
    let cl = rd_u32(b, lpos)? as usize;
    let cs = lpos + 4;
    if cs + cl > b.len() {
        return Err(anyhow!("ciphertext outside the file"));
    }
    let mut framing = vec![at as u64];
    framing.extend((lpos as u64)..(lpos as u64 + 4));
    Ok(AeadRanges {
        nonce,
        ciphertext: cs as u64..(cs + cl) as u64,
        framing,
        end: cs + cl,
    })
}

struct VaultRow {
    offset: Range<u64>,
    commit: Range<u64>,
    value: Range<u64>,
    commit_bytes: [u8; 32],
    meta: AeadRanges,
    secret: AeadRanges,
}

/// identity(4) | u32 header length | header | rows; row = u32 len | id(16)
/// | commit(32) | u32 value length | meta aead | secret aead | u32 len
fn parse_vault(b: &[u8]) -> Result<(u64, Vec<VaultRow>)> {
    if b.len() < 8 || b[..4] != VAULT_IDENTITY {
        return Err(anyhow!("not a vault file"));
    }
    let hl = rd_u32(b, 4)? as usize;
    let content = 8 + hl;
    let mut rows = vec![];
    let mut pos = content;
    while pos < b.len() {
        let rl = rd_u32(b, pos)? as usize;
        let row_end = pos + 4 + rl + 4;
        if row_end > b.len() {
            return Err(anyhow!("vault row outside the file"));
        }
        let commit = (pos + 4 + 16) as u64..(pos + 4 + 16 + 32) as u64;
        let vl = rd_u32(b, pos + 4 + 16 + 32)? as usize;
        let vs = pos + 4 + 16 + 32 + 4;
        if rl != 16 + 32 + 4 + vl {
            return Err(anyhow!("vault row length {} vs value length {}", rl, vl));
        }
        if rd_u32(b, vs + vl)? as usize != rl {
            return Err(anyhow!("vault row trailer differs"));
        }
        let meta = parse_aead(b, vs)?;
        let secret = parse_aead(b, meta.end)?;
        if secret.end != vs + vl {
            return Err(anyhow!("vault row value is not meta || secret"));
        }
        let mut cb = [0u8; 32];
        cb.copy_from_slice(&b[commit.start as usize..commit.end as usize]);
        rows.push(VaultRow {
            offset: pos as u64..row_end as u64,
            commit,
            value: vs as u64..(vs + vl) as u64,
            commit_bytes: cb,
            meta,
            secret,
        });
        pos = row_end;
    }
    Ok((content as u64, rows))
}

struct EventRow {
    offset: Range<u64>,
    last_commit: Range<u64>,
    commit: Range<u64>,
    value: Range<u64>,
    commit_bytes: [u8; 32],
}

/// identity(4) | records; record = u32 len | time(8+4) | last commit(32) |
/// commit(32) | u32 value length | value | u32 len
fn parse_events(b: &[u8]) -> Result<Vec<EventRow>> {
    if b.len() < 4 || b[..4] != FOLDER_EVENT_LOG_IDENTITY {
        return Err(anyhow!("not a folder event log"));
    }
    let mut rows = vec![];
    let mut pos = 4usize;
    while pos < b.len() {
        let rl = rd_u32(b, pos)? as usize;
        let row_end = pos + 4 + rl + 4;
        if row_end > b.len() {
            return Err(anyhow!("event record outside the file"));
        }
        let lc = pos + 4 + 12;
        let c = lc + 32;
        let vl = rd_u32(b, c + 32)? as usize;
        let vs = c + 32 + 4;
        if rl != 12 + 32 + 32 + 4 + vl {
            return Err(anyhow!("event record length {} vs value length {}", rl, vl));
        }
        if rd_u32(b, vs + vl)? as usize != rl {
            return Err(anyhow!("event record trailer differs"));
        }
        let mut cb = [0u8; 32];
        cb.copy_from_slice(&b[c..c + 32]);
        rows.push(EventRow {
            offset: pos as u64..row_end as u64,
            last_commit: lc as u64..c as u64,
            commit: c as u64..(c + 32) as u64,
            value: vs as u64..(vs + vl) as u64,
            commit_bytes: cb,
        });
        pos = row_end;
    }
    Ok(rows)
}

/// Cross-check against the repository's FormatStream record ranges.
async fn cross_check_vault(path: &Path, content: u64, rows: &[VaultRow]) -> Result<u64> {
    let off = Header::read_content_offset(path).await?;
    if off != content {
        return Err(anyhow!("content offset {} vs parser {}", off, content));
    }
    let f = sos_vfs::File::open(path).await?;
    let mut it = FormatStream::<VaultRecord, sos_vfs::File>::new_file(f, &VAULT_IDENTITY, true, Some(off), false).await?;
    let mut n = 0usize;
    while let Some(r) = it.next().await? {
        let mine = rows.get(n).ok_or_else(|| anyhow!("FormatStream yields more vault rows than the parser"))?;
        if r.offset() != &mine.offset || r.value() != &mine.value || r.commit() != mine.commit_bytes {
            return Err(anyhow!("vault row {} ranges differ: {:?}/{:?} vs {:?}/{:?}", n, r.offset(), r.value(), mine.offset, mine.value));
        }
        n += 1;
    }
    if n != rows.len() {
        return Err(anyhow!("FormatStream yields {} vault rows, parser {}", n, rows.len()));
    }
    Ok(n as u64)
}

async fn cross_check_events(path: &Path, rows: &[EventRow]) -> Result<u64> {
    let f = sos_vfs::File::open(path).await?;
    let mut it = FormatStream::<EventLogRecord, sos_vfs::File>::new_file(f, &FOLDER_EVENT_LOG_IDENTITY, true, None, false).await?;
    let mut n = 0usize;
    while let Some(r) = it.next().await? {
        let mine = rows.get(n).ok_or_else(|| anyhow!("FormatStream yields more event records than the parser"))?;
        if r.offset() != &mine.offset || r.value() != &mine.value || r.commit() != mine.commit_bytes {
            return Err(anyhow!("event record {} ranges differ", n));
        }
        n += 1;
    }
    if n != rows.len() {
        return Err(anyhow!("FormatStream yields {} event records, parser {}", n, rows.len()));
    }
    Ok(n as u64)
}

// ---------------------------------------------------------------------
// account construction (real API calls)
// ---------------------------------------------------------------------

fn det_bytes(len: usize, seed: u64, tag: &str) -> Vec<u8> {
    use sha2::{Digest, Sha256};
    let mut out = Vec::with_capacity(len + 32);
    let mut ctr = 0u64;
    while out.len() < len {
        let mut h = Sha256::new();
        h.update(tag.as_bytes());
        h.update(seed.to_le_bytes());
        h.update(ctr.to_le_bytes());
        out.extend_from_slice(&h.finalize());
        ctr += 1;
    }
    out.truncate(len);
    out
}

fn rel(base: &Path, p: &Path) -> Result<String> {
    Ok(p.strip_prefix(base)
        .map_err(|_| anyhow!("{} is not under {}", p.display(), base.display()))?
        .to_string_lossy()
        .to_string())
}

fn blob_offsets(len: u64, tier: Tier) -> Vec<u64> {
    if tier == Tier::Thorough || len <= 256 {
        return (0..len).collect();
    }
    let mut s: Vec<u64> = (0..64).collect();
    s.extend(len - 64..len);
    s.extend((0..len).step_by(97));
    s.sort();
    s.dedup();
    s
}

/// Account variants: the history that produces the account.
const VARIANTS: [&str; 3] = [
    "v0: default + archive + folder-one; note/login/card/link created, one note updated, the link deleted, a 20 KiB file secret in the default folder, a small file attached to the login in folder-one",
    "v1: the v0 history, then compact_folder(default), change_folder_password(folder-one), the note archived, folder-one renamed + description set + flags updated",
    "v2: folder-one created, given a note and a file secret, then deleted; a second user folder with cipher AES-GCM-256 holding a login (with a small file attached) and a card; a note and a 20 KiB file secret in the default folder; change_account_password",
];

/// Quick tier on the variants after the first: first / middle / last
/// position of a region only.
fn sample(all: Vec<u64>, every: bool) -> Vec<u64> {
    if every || all.len() <= 3 {
        return all;
    }
    vec![all[0], all[all.len() / 2], all[all.len() - 1]]
}

fn secret_string(s: &str) -> secrecy::SecretString {
    secrecy::SecretString::new(s.to_string().into())
}

async fn build(dir: &Path, backend: Backend, variant: u8, tier: Tier, seed: u64) -> Result<Built> {
    let content = dir.join("content");
    std::fs::create_dir_all(&content)?;
    let large = content.join("large.bin");
    let small = content.join("small.txt");
    std::fs::write(&large, det_bytes(LARGE_LEN, seed, "large"))?;
    std::fs::write(&small, hex::encode(det_bytes(SMALL_LEN / 2, seed, "small")))?;
    let adir = dir.join("acct");
    let mut dev = Dev::create(&adir, backend, "integx-account", true).await?;
    let default = dev.account.default_folder().await.ok_or_else(|| anyhow!("no default folder"))?;
    let opt = |f: &Summary| AccessOptions { folder: Some(*f.id()), ..Default::default() };
    let mut password = vkit::acct::PASSWORD.to_string();
    let file_secret = |p: &Path, label: &str| -> Result<(SecretMeta, Secret)> {
        let secret: Secret = p.to_path_buf().try_into()?;
        Ok((SecretMeta::new(label.to_string(), secret.kind()), secret))
    };
    if variant <= 1 {
        let f1 = dev.account.create_folder(NewFolderOptions::new("folder-one".to_string())).await?.folder;
        let (m, s) = vkit::gen::secret("note", 0, "n0");
        let n0 = dev.account.create_secret(m, s, opt(&default)).await?.id;
        let (m, s) = vkit::gen::secret("login", 1, "l0");
        let l0 = dev.account.create_secret(m, s, opt(&f1)).await?.id;
        let (m, s) = vkit::gen::secret("card", 0, "c0");
        dev.account.create_secret(m, s, opt(&default)).await?;
        let (m, s) = vkit::gen::secret("link", 0, "k0");
        let k0 = dev.account.create_secret(m, s, opt(&f1)).await?.id;
        // an update and a delete so logs hold all three secret event kinds
        let (m, s) = vkit::gen::secret("note", 1, "n0b");
        dev.account.update_secret(&n0, m, Some(s), opt(&default)).await?;
        dev.account.delete_secret(&k0, opt(&f1)).await?;
        // external files: a 20 KiB file secret and a small attachment
        let (meta, secret) = file_secret(&large, "large-file")?;
        dev.account.create_secret(meta, secret, opt(&default)).await?;
        let (mut row, _) = dev.account.read_secret(&l0, Some(f1.id())).await?;
        let (ameta, asecret) = file_secret(&small, "small-attachment")?;
        row.secret_mut().add_field(SecretRow::new(SecretId::new_v4(), ameta, asecret));
        dev.account.update_secret(&l0, row.meta().clone(), Some(row.secret().clone()), opt(&f1)).await?;
        if variant == 1 {
            dev.account.compact_folder(default.id()).await?;
            dev.account.change_folder_password(f1.id(), AccessKey::Password(secret_string("integx-second-folder-password-long-enough"))).await?;
            dev.account.archive(default.id(), &n0, Default::default()).await?;
            dev.account.rename_folder(f1.id(), "folder-one-renamed".to_string()).await?;
            dev.account.set_folder_description(f1.id(), "a description set by integx").await?;
            dev.account.update_folder_flags(f1.id(), VaultFlags::NO_SYNC).await?;
        }
    } else {
        // a folder that held a file secret and was deleted
        let f1 = dev.account.create_folder(NewFolderOptions::new("folder-one".to_string())).await?.folder;
        let (m, s) = vkit::gen::secret("note", 0, "gone");
        dev.account.create_secret(m, s, opt(&f1)).await?;
        let (meta, secret) = file_secret(&small, "small-file-in-deleted-folder")?;
        dev.account.create_secret(meta, secret, opt(&f1)).await?;
        dev.account.delete_folder(f1.id()).await?;
        // a user folder with the other cipher
        let aes = dev.account.create_folder(NewFolderOptions { cipher: Some(Cipher::AesGcm256), ..NewFolderOptions::new("aes-folder".to_string()) }).await?.folder;
        let (m, s) = vkit::gen::secret("login", 1, "l0");
        let l0 = dev.account.create_secret(m, s, opt(&aes)).await?.id;
        let (m, s) = vkit::gen::secret("card", 0, "c0");
        dev.account.create_secret(m, s, opt(&aes)).await?;
        let (mut row, _) = dev.account.read_secret(&l0, Some(aes.id())).await?;
        let (ameta, asecret) = file_secret(&small, "small-attachment")?;
        row.secret_mut().add_field(SecretRow::new(SecretId::new_v4(), ameta, asecret));
        dev.account.update_secret(&l0, row.meta().clone(), Some(row.secret().clone()), opt(&aes)).await?;
        let (m, s) = vkit::gen::secret("note", 0, "n0");
        dev.account.create_secret(m, s, opt(&default)).await?;
        let (meta, secret) = file_secret(&large, "large-file")?;
        dev.account.create_secret(meta, secret, opt(&default)).await?;
        dev.account.change_account_password(secret_string(vkit::acct::PASSWORD2)).await?;
        password = vkit::acct::PASSWORD2.to_string();
    }

    let summaries = dev.account.list_folders().await?;
    let files: IndexSet<ExternalFile> = dev.account.canonical_files().await?;
    let account_id = dev.account_id;
    let paths = dev.target.paths();
    let mut nsecrets = 0usize;
    for s in &summaries {
        nsecrets += dev.account.list_secret_ids(s.id()).await?.len();
    }
    dev.close().await;
    if summaries.len() < 2 || nsecrets < 3 || files.len() < 2 {
        return Err(anyhow!("built account too small: {} folders {} secrets {} files", summaries.len(), nsecrets, files.len()));
    }
    // quick: every byte on variant 0 (as before), first / middle / last
    // byte of every region on the other variants; thorough: every byte
    let every = tier == Tier::Thorough || variant == 0;

    let mut targets: Vec<Target> = vec![];
    let mut cross = 0u64;
    let mut stats = Map::new();
    let folders: Vec<(String, String)> = summaries.iter().map(|s| (s.id().to_string(), s.name().to_string())).collect();
    // blobs (both backends keep them on disc)
    let mut file_list = vec![];
    let mut have_large = false;
    let mut have_small = false;
    for (bi, f) in files.iter().enumerate() {
        let p = paths.into_file_path(f);
        let len = std::fs::metadata(&p).map_err(|e| anyhow!("blob {}: {}", p.display(), e))?.len();
        let label = if len > 4096 { have_large = true; "large_blob" } else { have_small = true; "small_blob" };
        file_list.push((f.to_string(), len));
        let offs = if variant == 0 { blob_offsets(len, tier) } else { sample((0..len).collect(), every) };
        for o in offs {
            let mut t = Target::blank("fs_byte", "blob_byte");
            t.detail = label.into();
            t.file = rel(&adir, &p)?;
            t.offset = o;
            t.blob = Some(f.to_string());
            t.coord = format!("blob{}+{}", bi, o);
            targets.push(t);
        }
        let mut t = Target::blank("remove", "remove_blob");
        t.detail = label.into();
        t.file = rel(&adir, &p)?;
        t.blob = Some(f.to_string());
        t.coord = format!("blob{}", bi);
        targets.push(t);
    }
    if !have_large || !have_small {
        return Err(anyhow!("need one blob > 4 KiB and one small blob"));
    }
    match backend {
        Backend::Fs => {
            let mut vault_rows = 0usize;
            let mut event_rows = 0usize;
            let mut nonce_sizes: HashSet<u64> = HashSet::new();
            for (fi, s) in summaries.iter().enumerate() {
                let fid = s.id().to_string();
                let vp = paths.vault_path(s.id());
                let ep = paths.event_log_path(s.id());
                let vb = std::fs::read(&vp)?;
                let (content_off, rows) = parse_vault(&vb)?;
                cross += cross_check_vault(&vp, content_off, &rows).await?;
                vault_rows += rows.len();
                let vrel = rel(&adir, &vp)?;
                let mut push = |region: &str, in_scope: bool, o: u64, coord: String, file: &str| {
                    let mut t = Target::blank("fs_byte", region);
                    t.in_scope = in_scope;
                    t.file = file.to_string();
                    t.offset = o;
                    t.folder = Some(fid.clone());
                    t.coord = coord;
                    targets.push(t);
                };
                for (ri, r) in rows.iter().enumerate() {
                    for o in sample(r.commit.clone().collect(), every) {
                        push("vault_row.commit_hash", true, o, format!("F{}/row{}/commit+{}", fi, ri, o - r.commit.start), &vrel);
                    }
                    for (nm, a) in [("meta", &r.meta), ("secret", &r.secret)] {
                        nonce_sizes.insert(a.nonce.end - a.nonce.start);
                        for o in sample(a.nonce.clone().chain(a.ciphertext.clone()).collect(), every) {
                            push(&format!("vault_row.{}", nm), true, o, format!("F{}/row{}/{}@{}", fi, ri, nm, o - r.value.start), &vrel);
                        }
                        for o in sample(a.framing.clone(), every) {
                            push(&format!("vault_row.{}_framing", nm), false, o, format!("F{}/row{}/{}framing@{}", fi, ri, nm, o - r.value.start), &vrel);
                        }
                    }
                }
                let eb = std::fs::read(&ep)?;
                let erows = parse_events(&eb)?;
                cross += cross_check_events(&ep, &erows).await?;
                event_rows += erows.len();
                let erel = rel(&adir, &ep)?;
                for (ri, r) in erows.iter().enumerate() {
                    for o in sample(r.commit.clone().collect(), every) {
                        push("event_record.commit_hash", true, o, format!("F{}/ev{}/commit+{}", fi, ri, o - r.commit.start), &erel);
                    }
                    for o in sample(r.value.clone().collect(), every) {
                        push("event_record.payload", true, o, format!("F{}/ev{}/payload+{}", fi, ri, o - r.value.start), &erel);
                    }
                    for o in sample(r.last_commit.clone().collect(), every) {
                        push("event_record.last_commit", false, o, format!("F{}/ev{}/last+{}", fi, ri, o - r.last_commit.start), &erel);
                    }
                }
                for (region, file) in [("remove_vault_file", &vrel), ("remove_events_file", &erel)] {
                    let mut t = Target::blank("remove", region);
                    t.file = file.clone();
                    t.folder = Some(fid.clone());
                    t.coord = format!("F{}", fi);
                    targets.push(t);
                }
            }
            stats.insert("vault_rows".into(), json!(vault_rows));
            stats.insert("event_records".into(), json!(event_rows));
            let mut ns: Vec<u64> = nonce_sizes.into_iter().collect();
            ns.sort();
            stats.insert("nonce_sizes_in_vault_rows".into(), json!(ns));
        }
        Backend::Db => {
            let target = target_for(&adir, Backend::Db).await?;
            let BackendTarget::Database(_, client) = &target else { return Err(anyhow!("not a database target")) };
            let ids: Vec<String> = folders.iter().map(|f| f.0.clone()).collect();
            let ids2 = ids.clone();
            // (row id, folder identifier, folder name, cell lengths)
            type Rows = Vec<(i64, String, String, Vec<u64>)>;
            let (srows, erows): (Rows, Rows) = client
                .conn(move |c| {
                    let mut s = c.prepare("SELECT s.secret_id, f.identifier, f.name, length(s.commit_hash), length(s.meta), length(s.secret) FROM folder_secrets s JOIN folders f ON f.folder_id = s.folder_id ORDER BY s.secret_id")?;
                    let sr: Rows = s
                        .query_map([], |r| Ok((r.get::<_, i64>(0)?, r.get::<_, String>(1)?, r.get::<_, String>(2)?, vec![r.get::<_, i64>(3)? as u64, r.get::<_, i64>(4)? as u64, r.get::<_, i64>(5)? as u64])))?
                        .collect::<std::result::Result<_, _>>()?;
                    let mut e = c.prepare("SELECT e.event_id, f.identifier, f.name, length(e.commit_hash), length(e.event) FROM folder_events e JOIN folders f ON f.folder_id = e.folder_id ORDER BY e.event_id")?;
                    let er: Rows = e
                        .query_map([], |r| Ok((r.get::<_, i64>(0)?, r.get::<_, String>(1)?, r.get::<_, String>(2)?, vec![r.get::<_, i64>(3)? as u64, r.get::<_, i64>(4)? as u64])))?
                        .collect::<std::result::Result<_, _>>()?;
                    Ok((sr, er))
                })
                .await?;
            close_target(&target).await;
            // variant 0 quick keeps first / middle / last of every cell
            let every_db = tier == Tier::Thorough;
            let mut nsec = 0;
            let mut nev = 0;
            let mut system: BTreeMap<String, (String, u64, u64)> = BTreeMap::new();
            for (table, region, cols, rows) in [
                ("folder_secrets", "secret_row", vec!["commit_hash", "meta", "secret"], &srows),
                ("folder_events", "event_row", vec!["commit_hash", "event"], &erows),
            ] {
                let mut per_folder: BTreeMap<String, usize> = BTreeMap::new();
                for (rowid, fid, fname, lens) in rows.iter() {
                    let ri = *per_folder.entry(fid.clone()).and_modify(|n| *n += 1).or_insert(0);
                    // the account's folders as list_folders returns them
                    // are what an application hands to account_integrity;
                    // the identity (login) and device folders of the
                    // account live in the same tables but are not part of
                    // that list: mutated too, recorded as observations
                    let (in_scope, fkey, rname) = match ids2.iter().position(|x| x == fid) {
                        Some(fi) => {
                            if table == "folder_secrets" { nsec += 1 } else { nev += 1 }
                            (true, format!("F{}", fi), region.to_string())
                        }
                        None => {
                            let tag: String = fname.chars().map(|c| if c.is_ascii_alphanumeric() { c.to_ascii_lowercase() } else { '_' }).collect();
                            let e = system.entry(fid.clone()).or_insert_with(|| (fname.clone(), 0, 0));
                            if table == "folder_secrets" { e.1 += 1 } else { e.2 += 1 }
                            (false, format!("SYS[{}]", tag), format!("system_folder[{}].{}", tag, region))
                        }
                    };
                    for (ci, col) in cols.iter().enumerate() {
                        for pos in sample((0..lens[ci]).collect(), every_db) {
                            let mut t = Target::blank("db_cell", &format!("{}.{}", rname, col));
                            t.in_scope = in_scope;
                            t.table = table.into();
                            t.column = col.to_string();
                            t.rowid = *rowid;
                            t.offset = pos;
                            t.folder = Some(fid.clone());
                            t.coord = format!("{}/{}{}/{}+{}", fkey, region, ri, col, pos);
                            targets.push(t);
                        }
                    }
                }
            }
            for (fi, fid) in ids.iter().enumerate() {
                for (region, in_scope) in [("remove_folder_row", true), ("remove_event_rows", true), ("remove_secret_rows", false)] {
                    let mut t = Target::blank("remove", region);
                    t.in_scope = in_scope;
                    t.folder = Some(fid.clone());
                    t.coord = format!("F{}", fi);
                    targets.push(t);
                }
            }
            stats.insert("secret_rows".into(), json!(nsec));
            stats.insert("event_rows".into(), json!(nev));
            stats.insert("system_folders_(identity,_device)_rows".into(), json!(system.values().map(|v| json!({"name": v.0, "secret_rows": v.1, "event_rows": v.2})).collect::<Vec<_>>()));
        }
    }
    // distinct targets only
    let mut seen = HashSet::new();
    targets.retain(|t| seen.insert((t.kind.clone(), t.region.clone(), t.file.clone(), t.offset, t.table.clone(), t.column.clone(), t.rowid, t.folder.clone())));
    stats.insert("folders".into(), json!(folders.iter().map(|f| f.1.clone()).collect::<Vec<_>>()));
    stats.insert("secrets".into(), json!(nsecrets));
    stats.insert("external_files".into(), json!(file_list));
    stats.insert("positions".into(), json!(if tier == Tier::Thorough { "every byte of every region" } else if variant == 0 { "every byte of vault rows and event records (fs), sampled 20 KiB blob, first / middle / last of sqlite cells" } else { "first / middle / last byte of every region" }));
    Ok(Built {
        dir: adir.to_string_lossy().to_string(),
        backend,
        variant,
        password,
        account_id: account_id.to_string(),
        folders,
        files: file_list,
        targets,
        cross_checked_records: cross,
        stats: Value::Object(stats),
    })
}

// ---------------------------------------------------------------------
// running the reports
// ---------------------------------------------------------------------

struct World {
    dir: PathBuf,
    backend: Backend,
    variant: u8,
    account_id: AccountId,
    target: BackendTarget,
    folders: Vec<Summary>,
    files: IndexSet<ExternalFile>,
}

impl World {
    /// Open a private copy: sign in once to learn the folder summaries
    /// and the canonical file set (as an application would), sign out.
    async fn open(dir: &Path, b: &Built) -> Result<World> {
        let account_id: AccountId = b.account_id.parse()?;
        let dev = Dev::open(dir, b.backend, account_id, secret_string(&b.password)).await?;
        let folders = dev.account.list_folders().await?;
        let files = dev.account.canonical_files().await?;
        dev.close().await;
        Self::attach(dir, b.backend, b.variant, account_id, folders, files).await
    }

    async fn attach(dir: &Path, backend: Backend, variant: u8, account_id: AccountId, folders: Vec<Summary>, files: IndexSet<ExternalFile>) -> Result<World> {
        let target = target_for(dir, backend).await?.with_account_id(&account_id);
        Ok(World { dir: dir.to_path_buf(), backend, variant, account_id, target, folders, files })
    }

    async fn close(self) {
        close_target(&self.target).await;
    }
}

#[derive(Default, Debug)]
struct Outcome {
    folder_fail: Vec<(String, String)>,
    file_fail: Vec<(String, String)>,
    complete: bool,
    error: Option<String>,
    panicked: bool,
    /// flagged by the sequential report but not with one task per folder
    concurrent_miss: bool,
}

fn short(s: String) -> String {
    s.chars().take(140).collect()
}

async fn run_account(w: &World, out: &mut Outcome, deadline: tokio::time::Instant) -> bool {
    run_account_with(w, out, deadline, 1).await
}

async fn run_account_with(w: &World, out: &mut Outcome, deadline: tokio::time::Instant, concurrency: usize) -> bool {
    let t0 = std::time::Instant::now();
    let mut complete = false;
    match account_integrity(&w.target, &w.account_id, w.folders.clone(), concurrency).await {
        Err(e) => out.error = Some(format!("account_integrity: {}", e)),
        Ok((mut rx, _cancel)) => loop {
            match tokio::time::timeout_at(deadline, rx.recv()).await {
                Err(_) => break,
                Ok(None) => {
                    complete = true;
                    break;
                }
                Ok(Some(FolderIntegrityEvent::Failure(id, f))) => out.folder_fail.push((id.to_string(), short(format!("{:?}", f)))),
                Ok(Some(FolderIntegrityEvent::Complete)) => {
                    complete = true;
                    break;
                }
                Ok(Some(_)) => {}
            }
        },
    }
    T_ACCOUNT_US.fetch_add(t0.elapsed().as_micros() as u64, Ordering::Relaxed);
    complete
}

async fn run_files(w: &World, out: &mut Outcome, deadline: tokio::time::Instant) -> bool {
    if w.files.is_empty() {
        return true;
    }
    let t1 = std::time::Instant::now();
    let mut complete = false;
    match file_integrity(&w.target, w.files.clone(), 1).await {
        Err(e) => out.error = Some(format!("file_integrity: {}", e)),
        Ok((mut rx, _cancel)) => loop {
            match tokio::time::timeout_at(deadline, rx.recv()).await {
                Err(_) => break,
                Ok(None) => {
                    complete = true;
                    break;
                }
                Ok(Some(FileIntegrityEvent::Failure(file, f))) => out.file_fail.push((file.to_string(), short(format!("{:?}", f)))),
                Ok(Some(FileIntegrityEvent::Complete)) => {
                    complete = true;
                    break;
                }
                Ok(Some(_)) => {}
            }
        },
    }
    T_FILE_US.fetch_add(t1.elapsed().as_micros() as u64, Ordering::Relaxed);
    complete
}

fn flagged(t: &Target, o: &Outcome) -> Option<String> {
    match (&t.folder, &t.blob) {
        (Some(f), _) => o.folder_fail.iter().find(|x| &x.0 == f).map(|x| x.1.clone()),
        (_, Some(b)) => o.file_fail.iter().find(|x| &x.0 == b).map(|x| x.1.clone()),
        _ => None,
    }
}

/// Both reports (account_integrity over all folders, file_integrity over
/// all canonical files). With a target: the report that covers the
/// affected item runs first and the other one is only consulted when the
/// first holds no failure for the item (the verdict is the same as
/// running both, an item flagged by either report counts as flagged).
async fn run_reports(w: &World, t: Option<&Target>) -> Outcome {
    let mut out = Outcome::default();
    let p0 = PANICS.load(Ordering::SeqCst);
    let deadline = tokio::time::Instant::now() + REPORT_HORIZON;
    let files_first = t.map(|t| t.blob.is_some()).unwrap_or(false);
    let c1 = if files_first { run_files(w, &mut out, deadline).await } else { run_account(w, &mut out, deadline).await };
    let settled = t.map(|t| flagged(t, &out).is_some()).unwrap_or(false);
    // what the sequential report flags must also be flagged when the
    // folders are checked concurrently (one task per folder)
    if let (Some(t), true, false) = (t, settled, files_first) {
        let mut out2 = Outcome::default();
        let deadline2 = tokio::time::Instant::now() + REPORT_HORIZON;
        run_account_with(w, &mut out2, deadline2, w.folders.len().max(2)).await;
        if flagged(t, &out2).is_none() {
            out.concurrent_miss = true;
        }
    }
    let c2 = if settled {
        true
    } else if files_first {
        run_account(w, &mut out, deadline).await
    } else {
        run_files(w, &mut out, deadline).await
    };
    out.complete = c1 && c2;
    // let a panicking report task finish unwinding before the count is read
    if !out.complete {
        tokio::time::sleep(Duration::from_millis(20)).await;
    }
    out.panicked = PANICS.load(Ordering::SeqCst) != p0;
    out
}

/// verdict of one evaluation
fn verdict(t: &Target, o: &Outcome, removal: bool) -> (&'static str, String) {
    let flagged = flagged(t, o);
    if o.concurrent_miss {
        return ("not_flagged_concurrent", "flagged with concurrency 1 but not when the account report checks the folders concurrently".into());
    }
    if let Some(f) = flagged {
        return ("flagged", f);
    }
    if o.panicked {
        return ("panic", "a task of the integrity report panicked".into());
    }
    if let Some(e) = &o.error {
        // for removals an error of the report call that names the
        // problem is accepted
        if removal {
            return ("flagged", format!("report call failed: {}", e));
        }
        return ("report_error", e.clone());
    }
    if !o.complete {
        return ("hang", format!("the report did not complete within {:?} and holds no failure for the affected item", REPORT_HORIZON));
    }
    let others: Vec<String> = o.folder_fail.iter().map(|x| format!("folder {}: {}", x.0, x.1)).chain(o.file_fail.iter().map(|x| format!("file {}: {}", x.0, x.1))).take(2).collect();
    ("not_flagged", if others.is_empty() { "the reports completed without any failure".into() } else { format!("the reports hold failures only for other items: {:?}", others) })
}

#[derive(Default)]
struct Tally {
    evals: u64,
    nontrivial: u64,
    by_region: BTreeMap<String, (u64, u64)>,
    fails: BTreeMap<String, (u64, String, Value)>,
    out_of_scope: BTreeMap<String, (u64, u64)>,
    flagged_without_complete: u64,
    samples: Vec<Value>,
    /// (in scope evaluations, flagged, observations)
    variant_counts: (u64, u64, u64),
}

impl Tally {
    fn record(&mut self, w: &World, t: &Target, mutation: &str, v: &'static str, why: String) {
        self.evals += 1;
        self.nontrivial += 1;
        let e = if t.in_scope { self.by_region.entry(t.region.clone()).or_default() } else { self.out_of_scope.entry(t.region.clone()).or_default() };
        e.0 += 1;
        if v == "flagged" {
            e.1 += 1;
        }
        if t.in_scope {
            self.variant_counts.0 += 1;
            if v == "flagged" {
                self.variant_counts.1 += 1;
            }
        } else {
            self.variant_counts.2 += 1;
        }
        if self.samples.len() < 3 && (self.evals % 211 == 1) {
            self.samples.push(json!({"backend": w.backend.name(), "account_variant": w.variant, "region": t.region, "where": if t.kind == "db_cell" { format!("{}.{} row {} byte {}", t.table, t.column, t.rowid, t.offset) } else { format!("{} @ {}", t.file, t.offset) }, "mutation": mutation, "verdict": v, "report": why.chars().take(120).collect::<String>()}));
        }
        if v != "flagged" && t.in_scope {
            let mut sig = format!("{}:{}:{}", w.backend.name(), t.region, v);
            if !t.detail.is_empty() {
                sig.push(':');
                sig.push_str(&t.detail);
            }
            let what = format!("{} backend, account variant {}, {} ({}), mutation {}: {}", w.backend.name(), w.variant, t.region, t.coord, mutation, why);
            let e = self.fails.entry(sig).or_insert_with(|| (0, what, json!({"engine": "integx", "backend": w.backend, "variant": w.variant, "coord": t.coord, "region": t.region, "kind": t.kind, "mutation": mutation, "target": t})));
            e.0 += 1;
        }
    }
}

async fn db_cell(w: &World, t: &Target) -> Result<Vec<u8>> {
    let BackendTarget::Database(_, client) = &w.target else { return Err(anyhow!("not a database target")) };
    let sql = format!("SELECT {} FROM {} WHERE {} = ?1", t.column, t.table, if t.table == "folder_secrets" { "secret_id" } else { "event_id" });
    let id = t.rowid;
    Ok(client.conn(move |c| c.query_row(&sql, [id], |r| r.get::<_, Vec<u8>>(0))).await?)
}

async fn db_set(w: &World, t: &Target, v: Vec<u8>) -> Result<()> {
    let BackendTarget::Database(_, client) = &w.target else { return Err(anyhow!("not a database target")) };
    let sql = format!("UPDATE {} SET {} = ?1 WHERE {} = ?2", t.table, t.column, if t.table == "folder_secrets" { "secret_id" } else { "event_id" });
    let id = t.rowid;
    let n = client.conn(move |c| c.execute(&sql, (v, id))).await?;
    if n != 1 {
        return Err(anyhow!("UPDATE changed {} rows", n));
    }
    Ok(())
}

async fn evaluate(w: &World, t: &Target, only: Option<&str>, tally: &mut Tally) -> Result<()> {
    match t.kind.as_str() {
        "fs_byte" => {
            let path = w.dir.join(&t.file);
            let f = std::fs::OpenOptions::new().read(true).write(true).open(&path)?;
            let mut b = [0u8; 1];
            f.read_exact_at(&mut b, t.offset)?;
            let orig = b[0];
            for m in MUTS {
                if only.map(|o| o != m).unwrap_or(false) {
                    continue;
                }
                let nb = mutate(m, orig);
                f.write_all_at(&[nb], t.offset)?;
                let o = run_reports(w, Some(t)).await;
                f.write_all_at(&[orig], t.offset)?;
                let (v, why) = verdict(t, &o, false);
                if v == "flagged" && !o.complete {
                    tally.flagged_without_complete += 1;
                }
                tally.record(w, t, m, v, why);
            }
        }
        "db_cell" => {
            let orig = db_cell(w, t).await?;
            let pos = t.offset as usize;
            if pos >= orig.len() {
                return Err(anyhow!("cell shorter than enumerated"));
            }
            for m in MUTS {
                if only.map(|o| o != m).unwrap_or(false) {
                    continue;
                }
                let mut nb = orig.clone();
                nb[pos] = mutate(m, orig[pos]);
                db_set(w, t, nb).await?;
                let o = run_reports(w, Some(t)).await;
                db_set(w, t, orig.clone()).await?;
                let (v, why) = verdict(t, &o, false);
                if v == "flagged" && !o.complete {
                    tally.flagged_without_complete += 1;
                }
                tally.record(w, t, m, v, why);
            }
        }
        "remove" => {
            if !t.file.is_empty() {
                let path = w.dir.join(&t.file);
                let away = w.dir.join("removed-by-integx");
                std::fs::rename(&path, &away)?;
                let o = run_reports(w, Some(t)).await;
                std::fs::rename(&away, &path)?;
                let (v, why) = verdict(t, &o, true);
                tally.record(w, t, "remove", v, why);
            } else {
                // row removals on a fresh copy of the database
                let wd = fsutil::WorkDir::new("integx-rm");
                let copy = wd.path().join("acct");
                close_and_copy(w, &copy).await?;
                let w2 = World::attach(&copy, w.backend, w.variant, w.account_id, w.folders.clone(), w.files.clone()).await?;
                let BackendTarget::Database(_, client) = &w2.target else { return Err(anyhow!("not a database target")) };
                let fid = t.folder.clone().unwrap_or_default();
                let sql = match t.region.as_str() {
                    "remove_folder_row" => "DELETE FROM folders WHERE identifier = ?1",
                    "remove_event_rows" => "DELETE FROM folder_events WHERE folder_id = (SELECT folder_id FROM folders WHERE identifier = ?1)",
                    _ => "DELETE FROM folder_secrets WHERE folder_id = (SELECT folder_id FROM folders WHERE identifier = ?1)",
                };
                let n = client.conn(move |c| c.execute(sql, [fid])).await?;
                let o = run_reports(&w2, Some(t)).await;
                let (v, mut why) = verdict(t, &o, true);
                why = format!("{} ({} rows deleted)", why, n);
                w2.close().await;
                if n == 0 && t.region != "remove_secret_rows" {
                    return Err(anyhow!("{} deleted no row", t.region));
                }
                if n > 0 {
                    tally.record(w, t, "remove", v, why);
                }
            }
        }
        k => return Err(anyhow!("unknown target kind {}", k)),
    }
    Ok(())
}

/// Copy the world's directory at rest (the sqlite WAL is checkpointed).
async fn close_and_copy(w: &World, to: &Path) -> Result<()> {
    if let BackendTarget::Database(_, client) = &w.target {
        client
            .conn(|c| {
                let _ = c.pragma_update(None, "wal_checkpoint", "TRUNCATE");
                Ok(())
            })
            .await?;
    }
    fsutil::copy_dir(&w.dir, to)?;
    for e in ["-wal", "-shm"] {
        for f in fsutil::walk_files(to) {
            if f.to_string_lossy().ends_with(e) {
                let _ = std::fs::remove_file(f);
            }
        }
    }
    Ok(())
}

fn content_digest(dir: &Path) -> BTreeMap<String, String> {
    fsutil::tree_digest(dir)
        .into_iter()
        .filter(|(k, _)| k.ends_with(".vault") || k.ends_with(".events") || k.contains("/files/") || k.contains("blobs/"))
        .collect()
}

// ---------------------------------------------------------------------
// items
// ---------------------------------------------------------------------

#[derive(Clone, Debug, Serialize, Deserialize)]
struct Item {
    backend: Backend,
    variant: u8,
    start: usize,
    end: usize,
}

fn rt() -> tokio::runtime::Runtime {
    tokio::runtime::Builder::new_current_thread().enable_all().build().unwrap()
}

fn install_panic_hook() {
    let prev = std::panic::take_hook();
    std::panic::set_hook(Box::new(move |info| {
        PANICS.fetch_add(1, Ordering::SeqCst);
        prev(info);
    }));
}

struct Worker {
    wd: fsutil::WorkDir,
    worlds: BTreeMap<String, std::result::Result<(World, Vec<Target>, BTreeMap<String, String>), String>>,
}

fn world_key(backend: Backend, variant: u8) -> String {
    format!("{}-v{}", backend.name(), variant)
}

async fn worker_world(base: &Path, wd: &Path, backend: Backend, variant: u8) -> Result<(World, Vec<Target>, BTreeMap<String, String>)> {
    let b: Built = serde_json::from_slice(&std::fs::read(base.join(format!("built-{}.json", world_key(backend, variant))))?)?;
    let copy = wd.join(format!("acct-{}", world_key(backend, variant)));
    fsutil::copy_dir(Path::new(&b.dir), &copy)?;
    let w = World::open(&copy, &b).await?;
    let digest = content_digest(&copy);
    // soundness on the private copy before anything is touched
    let o = run_reports(&w, None).await;
    if !o.folder_fail.is_empty() || !o.file_fail.is_empty() {
        // soundness half of the property (decided by the hist engine):
        // completeness cannot be judged on an account that is already
        // reported as corrupt
        return Err(anyhow!("FALSE_ALARM the untouched account is reported as corrupt: {:?} {:?}", o.folder_fail.first(), o.file_fail.first()));
    }
    if !o.complete || o.error.is_some() {
        return Err(anyhow!("the report on the untouched copy does not complete: {:?}", o));
    }
    Ok((w, b.targets, digest))
}

async fn run_item(wk: &mut Worker, base: &Path, it: &Item) -> Value {
    let key = world_key(it.backend, it.variant);
    if !wk.worlds.contains_key(&key) {
        let r = worker_world(base, wk.wd.path(), it.backend, it.variant).await.map_err(|e| e.to_string());
        wk.worlds.insert(key.clone(), r);
    }
    let (w, targets, digest) = match wk.worlds.get(&key).unwrap() {
        Ok(x) => x,
        Err(e) if e.starts_with("FALSE_ALARM") => {
            return json!({"evals": 0, "nontrivial": 0, "by_region": {}, "out_of_scope": {}, "flagged_without_complete": 0, "samples": [], "t_account_us": 0, "t_file_us": 0, "variant_counts": [0, 0, 0],
                "fails": [{"sig": format!("{}:clean_account:false_alarm", it.backend.name()), "count": 1, "what": format!("account variant {}: {}", it.variant, e), "witness": {"engine": "integx", "backend": it.backend, "variant": it.variant}}]});
        }
        Err(e) => return json!({"error": format!("worker setup: {}", e)}),
    };
    let mut tally = Tally::default();
    for t in &targets[it.start..it.end] {
        if let Err(e) = evaluate(w, t, None, &mut tally).await {
            return json!({"error": format!("target {:?}: {}", t.coord, e)});
        }
    }
    // every mutation was undone: content files are byte-identical and
    // the report is clean again
    if &content_digest(&w.dir) != digest && it.backend == Backend::Fs {
        return json!({"error": "the private copy was not restored after the mutations"});
    }
    let o = run_reports(w, None).await;
    if !o.folder_fail.is_empty() || !o.file_fail.is_empty() || !o.complete {
        return json!({"error": format!("after restoring all mutations the report is not clean: {:?}", o)});
    }
    json!({
        "evals": tally.evals,
        "nontrivial": tally.nontrivial,
        "by_region": tally.by_region,
        "out_of_scope": tally.out_of_scope,
        "flagged_without_complete": tally.flagged_without_complete,
        "fails": tally.fails.iter().map(|(k, v)| json!({"sig": k, "count": v.0, "what": v.1, "witness": v.2})).collect::<Vec<_>>(),
        "samples": tally.samples,
        "variant_counts": [tally.variant_counts.0, tally.variant_counts.1, tally.variant_counts.2],
        "t_account_us": T_ACCOUNT_US.swap(0, Ordering::Relaxed),
        "t_file_us": T_FILE_US.swap(0, Ordering::Relaxed),
    })
}

fn replay(args: &Args, path: &Path) -> ! {
    let v: Value = serde_json::from_slice(&std::fs::read(path).expect("read replay")).expect("json");
    let wit = &v["witness"];
    let backend: Backend = serde_json::from_value(wit["backend"].clone()).expect("backend");
    let variant = wit["variant"].as_u64().unwrap_or(0) as u8;
    let coord = wit["coord"].as_str().unwrap_or("").to_string();
    let region = wit["region"].as_str().unwrap_or("").to_string();
    let mutation = wit["mutation"].as_str().unwrap_or("").to_string();
    let want = v["signature"].as_str().unwrap_or("").to_string();
    let rt = rt();
    install_panic_hook();
    let mut obs = vec![];
    for round in 0..2 {
        let wd = fsutil::WorkDir::new(&format!("integx-r{}", round));
        // thorough enumeration: the witness may name any byte of a region
        let b = rt.block_on(build(wd.path(), backend, variant, Tier::Thorough, args.seed)).expect("build");
        let Some(t) = b.targets.iter().find(|t| t.coord == coord && t.region == region).cloned() else {
            eprintln!("MACHINERY-ERROR replay target {} {} not found in a rebuilt account (variant {})", region, coord, variant);
            std::process::exit(2);
        };
        let sigs: Vec<String> = rt.block_on(async {
            let w = World::open(Path::new(&b.dir), &b).await.expect("open");
            let mut tally = Tally::default();
            let only = if t.kind == "remove" { None } else { Some(mutation.as_str()) };
            evaluate(&w, &t, only, &mut tally).await.expect("evaluate");
            for (k, f) in &tally.fails {
                println!("run {}: {} {}", round, k, f.1);
            }
            tally.fails.keys().cloned().collect()
        });
        obs.push(sigs);
    }
    if obs[0] != obs[1] {
        eprintln!("MACHINERY-ERROR replay is not deterministic");
        std::process::exit(2);
    }
    fsutil::cleanup_all();
    if obs[0].contains(&want) {
        println!("VIOLATION property=C16 replay={}", path.display());
        std::process::exit(1);
    }
    std::process::exit(0);
}

fn main() {
    let args = Args::parse();
    if pool::worker_stage().is_some() {
        install_panic_hook();
        let base = PathBuf::from(std::env::var("VKIT_INTEGX_DIR").expect("VKIT_INTEGX_DIR"));
        let its: Vec<Item> = serde_json::from_slice(&std::fs::read(base.join("items.json")).expect("items")).expect("items json");
        let rt = rt();
        let mut wk = Worker { wd: fsutil::WorkDir::new("integx-w"), worlds: BTreeMap::new() };
        pool::worker_loop(|idx| rt.block_on(run_item(&mut wk, &base, &its[idx])));
    }
    if let Some(p) = args.replay.clone() {
        replay(&args, &p);
    }
    let mut run = Run::new("C16", "exploration", &args);
    let base = fsutil::WorkDir::new("integx-build");
    // build all accounts (in parallel: the file encryption is slow)
    let mut handles = vec![];
    for variant in 0..VARIANTS.len() as u8 {
        for backend in [Backend::Fs, Backend::Db] {
            let dir = base.path().join(format!("build-{}", world_key(backend, variant)));
            let (tier, seed) = (args.tier, args.seed);
            handles.push(std::thread::spawn(move || rt().block_on(build(&dir, backend, variant, tier, seed)).map_err(|e| format!("{}: {}", world_key(backend, variant), e))));
        }
    }
    let mut builts = vec![];
    for h in handles {
        match h.join() {
            Ok(Ok(b)) => builts.push(b),
            Ok(Err(e)) => run.machinery(format!("building the account: {}", e)),
            Err(_) => run.machinery("building the account panicked"),
        }
    }
    if !run.machinery_errors.is_empty() {
        std::process::exit(run.finish(Map::new()));
    }
    let build_s = run.start.elapsed().as_secs_f64();
    let workers = pool::default_workers();
    let mut its: Vec<Item> = vec![];
    let total: usize = builts.iter().map(|b| b.targets.len()).sum();
    let chunk = (total / (workers * 6)).max(40);
    for b in &builts {
        std::fs::write(base.path().join(format!("built-{}.json", world_key(b.backend, b.variant))), serde_json::to_vec(b).unwrap()).expect("write built");
        // a worker pays one sign-in per world it touches: small worlds
        // (quick tier, variants after the first) are cut into few items
        let chunk = if b.targets.len() <= chunk * 4 { b.targets.len().div_ceil(4).max(1) } else { chunk };
        let mut s = 0;
        while s < b.targets.len() {
            let e = (s + chunk).min(b.targets.len());
            its.push(Item { backend: b.backend, variant: b.variant, start: s, end: e });
            s = e;
        }
    }
    // interleave the backends so every worker sets up at most two worlds
    // and the slow items are spread
    std::fs::write(base.path().join("items.json"), serde_json::to_vec(&its).unwrap()).expect("write items");
    let mut opts = PoolOpts::default();
    opts.item_timeout = Duration::from_secs(args.tier.pick(300, 1800));
    opts.env.push(("VKIT_INTEGX_DIR".into(), base.path().to_string_lossy().to_string()));
    let res = pool::run_stage("mutate", its.len(), &opts);
    let mut evals = 0u64;
    let mut nontrivial = 0u64;
    let mut fwc = 0u64;
    let (mut t_acc, mut t_file) = (0u64, 0u64);
    let mut samples = vec![];
    let mut by_region: BTreeMap<String, BTreeMap<String, (u64, u64)>> = BTreeMap::new();
    let mut oos: BTreeMap<String, BTreeMap<String, (u64, u64)>> = BTreeMap::new();
    let mut per_variant: BTreeMap<String, (u64, u64, u64)> = BTreeMap::new();
    for (i, r) in res.into_iter().enumerate() {
        match r {
            pool::ItemResult::Crashed(w) => run.machinery(format!("item {:?}: {}", its[i], w)),
            pool::ItemResult::Done(v) => {
                if let Some(e) = v.get("error").and_then(|e| e.as_str()) {
                    run.machinery(format!("item {:?}: {}", its[i], e));
                    continue;
                }
                evals += v["evals"].as_u64().unwrap_or(0);
                nontrivial += v["nontrivial"].as_u64().unwrap_or(0);
                fwc += v["flagged_without_complete"].as_u64().unwrap_or(0);
                t_acc += v["t_account_us"].as_u64().unwrap_or(0);
                t_file += v["t_file_us"].as_u64().unwrap_or(0);
                let pv = per_variant.entry(world_key(its[i].backend, its[i].variant)).or_default();
                pv.0 += v["variant_counts"][0].as_u64().unwrap_or(0);
                pv.1 += v["variant_counts"][1].as_u64().unwrap_or(0);
                pv.2 += v["variant_counts"][2].as_u64().unwrap_or(0);
                for (src, dst) in [("by_region", &mut by_region), ("out_of_scope", &mut oos)] {
                    if let Some(m) = v[src].as_object() {
                        for (k, c) in m {
                            let e = dst.entry(its[i].backend.name().to_string()).or_default().entry(k.clone()).or_default();
                            e.0 += c[0].as_u64().unwrap_or(0);
                            e.1 += c[1].as_u64().unwrap_or(0);
                        }
                    }
                }
                for f in v["fails"].as_array().cloned().unwrap_or_default() {
                    run.fail_n(f["sig"].as_str().unwrap(), f["what"].as_str().unwrap(), f["witness"].clone(), f["count"].as_u64().unwrap_or(1));
                }
                for s in v["samples"].as_array().cloned().unwrap_or_default() {
                    push_sample(&mut samples, s, 8);
                }
            }
        }
    }
    if evals == 0 && run.failures.is_empty() {
        run.machinery("vacuous: no mutation was evaluated");
    }
    for b in &builts {
        let k = world_key(b.backend, b.variant);
        if per_variant.get(&k).map(|c| c.0).unwrap_or(0) == 0 && run.failures.is_empty() {
            run.machinery(format!("vacuous: no mutation was evaluated on account {}", k));
        }
    }
    let table = |m: &BTreeMap<String, BTreeMap<String, (u64, u64)>>| -> Value {
        let mut o = Map::new();
        for (b, rs) in m {
            let mut x = Map::new();
            for (r, c) in rs {
                x.insert(r.clone(), json!({"evaluations": c.0, "flagged": c.1}));
            }
            o.insert(b.clone(), Value::Object(x));
        }
        Value::Object(o)
    };
    run.assume("SHA-256 is collision free for single-byte changes; the account report is run with concurrency 1 (as the repository's own tests do) and, for every item it flags, again with one task per folder (task scheduling inside that second run is tokio's, not controlled)");
    run.assume("each report gets 10 s to complete; mutations are applied one at a time to a private copy and undone (restoration verified by digest and by a clean report)");
    let exhaustive = args.tier == Tier::Thorough;
    let mut cov = Map::new();
    cov.insert("evaluations".into(), json!(evals));
    cov.insert("distinct_nontrivial".into(), json!(nontrivial));
    cov.insert("rule".into(), json!(format!("{nv} account variants x 2 backends (file-system, sqlite), each produced by a history of real API calls ({variants}). Regions — fs: each vault row's stored commit hash, encrypted meta and encrypted secret (nonce + ciphertext), each folder event record's stored commit hash and payload, each external blob; sqlite: each folder_secrets (commit_hash, meta, secret) and folder_events (commit_hash, event) cell of the account's folders, plus the blobs; each chosen byte changed to 3 other values (xor 0x01, xor 0x80, bitwise not). Positions — {positions}. Removals (all variants, both tiers): each folder's vault file / events file / each blob (fs), folders row / folder_events rows / each blob (sqlite). A case is distinct by (backend, variant, file or row, offset, value) and non-trivial when the byte really changed and the reports ran on it (all of them; byte ranges come from the engine's own parser, cross-checked on {cross} records against FormatStream)", nv = VARIANTS.len(), variants = VARIANTS.join("; "), positions = if exhaustive { "every byte of every region on every variant" } else { "variant 0: every byte of vault rows and event records (fs), first / middle / last byte of every sqlite cell, small blob every byte, 20 KiB blob first 64 + last 64 + every 97th byte; other variants: first / middle / last byte of every region" }, cross = builts.iter().map(|b| b.cross_checked_records).sum::<u64>())));
    cov.insert("samples".into(), json!(samples));
    cov.insert("exhaustive".into(), json!(exhaustive));
    cov.insert("in_scope_regions".into(), table(&by_region));
    cov.insert("out_of_scope_observations".into(), json!({"note": "bytes inside the hashed value that are framing (nonce size, ciphertext length), the previous-commit field of event records, removal of only the secret rows (sqlite), and the rows of the account's identity (login) and device folders in folder_secrets / folder_events (sqlite: account_integrity checks the folders it is given and an application gives it list_folders(), which does not contain them) are not named by the property or not covered by the report's contract: evaluated, recorded here, never reported as failures", "regions": table(&oos)}));
    cov.insert("per_account_variant".into(), json!(builts.iter().map(|b| { let c = per_variant.get(&world_key(b.backend, b.variant)).copied().unwrap_or_default(); json!({"backend": b.backend.name(), "variant": b.variant, "history": VARIANTS[b.variant as usize], "targets": b.targets.len(), "in_scope_evaluations": c.0, "flagged": c.1, "out_of_scope_observations": c.2, "shape": b.stats}) }).collect::<Vec<_>>()));
    cov.insert("flagged_but_report_never_completed".into(), json!(fwc));
    cov.insert("accounts".into(), json!(builts.iter().map(|b| json!({"backend": b.backend.name(), "variant": b.variant, "targets": b.targets.len(), "stats": b.stats})).collect::<Vec<_>>()));
    cov.insert("work_items".into(), json!(its.len()));
    cov.insert("account_construction_s".into(), json!(build_s));
    cov.insert("mean_report_ms".into(), json!({"account_integrity": t_acc as f64 / 1000.0 / evals.max(1) as f64, "file_integrity": t_file as f64 / 1000.0 / evals.max(1) as f64}));
    drop(base);
    std::process::exit(run.finish(cov));
}
