//! Process pool: the parent hands item indices to worker subprocesses
//! (the same executable, started with `VKIT_WORKER=<stage>`), one at a
//! time over stdin, and reads one JSON result line per item from stdout.
//! A worker that dies (panic=abort, OOM, signal) or exceeds the per-item
//! time cap is attributed to the exact item it was running and replaced.
use serde_json::{json, Value};
use std::io::{BufRead, BufReader, Write};
use std::process::{Command, Stdio};
use std::sync::atomic::{AtomicUsize, Ordering};
use std::sync::{Arc, Mutex};
use std::time::{Duration, Instant};

const TAG: &str = "\u{1}RES ";

pub fn worker_stage() -> Option<String> {
    std::env::var("VKIT_WORKER").ok()
}

pub fn default_workers() -> usize {
    std::env::var("VKIT_JOBS")
        .ok()
        .and_then(|s| s.parse().ok())
        .unwrap_or_else(|| {
            std::thread::available_parallelism()
                .map(|n| n.get())
                .unwrap_or(4)
                .min(16)
        })
}

#[derive(Clone)]
pub struct PoolOpts {
    pub workers: usize,
    pub item_timeout: Duration,
    /// RLIMIT_AS for the workers in bytes (0 = unlimited).
    pub mem_limit: u64,
    pub env: Vec<(String, String)>,
}

impl Default for PoolOpts {
    fn default() -> Self {
        PoolOpts {
            workers: default_workers(),
            item_timeout: Duration::from_secs(900),
            mem_limit: 0,
            env: vec![],
        }
    }
}

/// Result of one item: Ok(value) or a crash/timeout description.
#[derive(Clone, Debug)]
pub enum ItemResult {
    Done(Value),
    Crashed(String),
}

/// Parent side. Returns results indexed by item.
pub fn run_stage(
    stage: &str,
    n_items: usize,
    opts: &PoolOpts,
) -> Vec<ItemResult> {
    let next = Arc::new(AtomicUsize::new(0));
    let results: Arc<Mutex<Vec<Option<ItemResult>>>> =
        Arc::new(Mutex::new(vec![None; n_items]));
    // /proc/self/exe keeps naming this very binary even if the file was
    // replaced by a rebuild while the run is in progress
    let exe = if std::path::Path::new("/proc/self/exe").exists() {
        std::path::PathBuf::from("/proc/self/exe")
    } else {
        std::env::current_exe().expect("current_exe")
    };
    let args: Vec<String> = std::env::args().skip(1).collect();
    let mut threads = vec![];
    let nworkers = opts.workers.max(1).min(n_items.max(1));
    for _w in 0..nworkers {
        let next = next.clone();
        let results = results.clone();
        let exe = exe.clone();
        let args = args.clone();
        let stage = stage.to_string();
        let opts = opts.clone();
        threads.push(std::thread::spawn(move || {
            let spawn = || {
                let mut cmd = Command::new(&exe);
                cmd.args(&args)
                    .env("VKIT_WORKER", &stage)
                    .env("VKIT_MEM_LIMIT", opts.mem_limit.to_string())
                    .stdin(Stdio::piped())
                    .stdout(Stdio::piped())
                    .stderr(Stdio::inherit());
                for (k, v) in &opts.env {
                    cmd.env(k, v);
                }
                cmd.spawn().expect("spawn worker")
            };
            let mut child = spawn();
            let mut stdin = child.stdin.take().unwrap();
            let mut reader = BufReader::new(child.stdout.take().unwrap());
            loop {
                let idx = next.fetch_add(1, Ordering::SeqCst);
                if idx >= n_items {
                    break;
                }
                let started = Instant::now();
                let deadline = Arc::new(Mutex::new(Some(
                    started + opts.item_timeout,
                )));
                // watchdog
                let pid = child.id();
                let dl = deadline.clone();
                let wd = std::thread::spawn(move || loop {
                    std::thread::sleep(Duration::from_millis(50));
                    let g = dl.lock().unwrap();
                    match *g {
                        None => return false,
                        Some(t) if Instant::now() > t => {
                            unsafe {
                                libc::kill(pid as i32, libc::SIGKILL);
                            }
                            return true;
                        }
                        _ => {}
                    }
                });
                let sent = writeln!(stdin, "{}", idx).is_ok()
                    && stdin.flush().is_ok();
                let mut res: Option<Value> = None;
                if sent {
                    let mut line = String::new();
                    loop {
                        line.clear();
                        match reader.read_line(&mut line) {
                            Ok(0) | Err(_) => break,
                            Ok(_) => {
                                if let Some(r) = line.strip_prefix(TAG) {
                                    res = serde_json::from_str(r.trim()).ok();
                                    break;
                                }
                            }
                        }
                    }
                }
                *deadline.lock().unwrap() = None;
                let timed_out = wd.join().unwrap_or(false);
                match res {
                    Some(v) => {
                        results.lock().unwrap()[idx] =
                            Some(ItemResult::Done(v));
                    }
                    None => {
                        let status = child.wait().ok();
                        let why = if timed_out {
                            format!(
                                "timeout after {:?}",
                                opts.item_timeout
                            )
                        } else {
                            format!("worker died: {:?}", status)
                        };
                        results.lock().unwrap()[idx] =
                            Some(ItemResult::Crashed(why));
                        child = spawn();
                        stdin = child.stdin.take().unwrap();
                        reader =
                            BufReader::new(child.stdout.take().unwrap());
                    }
                }
            }
            drop(stdin);
            let _ = child.wait();
        }));
    }
    for t in threads {
        let _ = t.join();
    }
    let r = results.lock().unwrap();
    r.iter()
        .map(|x| {
            x.clone()
                .unwrap_or(ItemResult::Crashed("not run".to_string()))
        })
        .collect()
}

/// Worker side: read item indices from stdin, answer with one result line.
pub fn worker_loop(mut f: impl FnMut(usize) -> Value) -> ! {
    if let Ok(l) = std::env::var("VKIT_MEM_LIMIT") {
        if let Ok(n) = l.parse::<u64>() {
            if n > 0 {
                let lim = libc::rlimit {
                    rlim_cur: n,
                    rlim_max: n,
                };
                unsafe {
                    libc::setrlimit(libc::RLIMIT_AS, &lim);
                }
            }
        }
    }
    let stdin = std::io::stdin();
    let mut line = String::new();
    loop {
        line.clear();
        match stdin.lock().read_line(&mut line) {
            Ok(0) | Err(_) => {
                crate::fsutil::cleanup_all();
                std::process::exit(0)
            }
            Ok(_) => {}
        }
        let Ok(idx) = line.trim().parse::<usize>() else {
            continue;
        };
        let v = f(idx);
        let out = std::io::stdout();
        let mut o = out.lock();
        let _ = writeln!(o, "{}{}", TAG, v);
        let _ = o.flush();
    }
}

/// Convenience: collect Done values, report crashes separately.
pub fn split_results(
    rs: Vec<ItemResult>,
) -> (Vec<(usize, Value)>, Vec<(usize, String)>) {
    let mut ok = vec![];
    let mut bad = vec![];
    for (i, r) in rs.into_iter().enumerate() {
        match r {
            ItemResult::Done(v) => ok.push((i, v)),
            ItemResult::Crashed(s) => bad.push((i, s)),
        }
    }
    (ok, bad)
}

pub fn crash_value(idx: usize, why: &str) -> Value {
    json!({"idx": idx, "crashed": why})
}
