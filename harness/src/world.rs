//! The World: a real in-process server (axum, loopback) plus devices
//! (real `LocalAccount`s bridged with the real `sos_net::RemoteBridge`).
use crate::acct::{Backend, Dev};
use crate::clock;
use anyhow::{anyhow, Result};
use axum_server::Handle;
use futures::StreamExt;
use serde::{Deserialize, Serialize};
use serde_json::{json, Value};
use sos_client_storage::{AccessOptions, NewFolderOptions};
use sos_account::{Account, LocalAccount};
use sos_core::{
    commit::CommitHash,
    events::{EventLog, EventLogType, EventRecord},
    AccountId, Origin, VaultId,
};
use sos_net::RemoteBridge;
use sos_protocol::{
    network_client::HttpClientOptions, AsConflict, RemoteSync,
};
use sos_server::{
    AccessControlConfig, Server, ServerConfig, State, UriOrPath,
};
use sos_server_storage::ServerStorage;
use sos_sync::{StorageEventLogs, SyncStatus, SyncStorage};
use std::net::SocketAddr;
use std::path::{Path, PathBuf};
use std::sync::Arc;
use tokio::sync::{Mutex, RwLock};

pub struct ServerProc {
    pub handle: Handle,
    pub addr: SocketAddr,
    pub origin: Origin,
    pub backend: Arc<RwLock<sos_server::Backend>>,
    pub dir: PathBuf,
    task: tokio::task::JoinHandle<()>,
}

pub async fn start_server(
    dir: &Path,
    use_db: bool,
    access: Option<AccessControlConfig>,
    addr: Option<SocketAddr>,
) -> Result<ServerProc> {
    std::fs::create_dir_all(dir)?;
    let cfg_path = dir.parent().unwrap().join(format!(
        "server-config-{}.toml",
        dir.file_name().unwrap().to_string_lossy()
    ));
    std::fs::write(
        &cfg_path,
        format!("[storage]\npath = \"{}\"\n", dir.display()),
    )?;
    let mut config = ServerConfig::load(&cfg_path).await?;
    if use_db {
        config.storage.database_uri =
            Some(UriOrPath::Path(dir.join("accounts.db")));
    }
    config.access = access;
    config.set_bind_address(
        addr.unwrap_or_else(|| "127.0.0.1:0".parse().unwrap()),
    );
    let backend = Arc::new(RwLock::new(config.backend().await?));
    let state = Arc::new(RwLock::new(State::new(config)));
    let handle = Handle::new();
    let h2 = handle.clone();
    let b2 = backend.clone();
    let task = tokio::spawn(async move {
        let server = Server::new().await.expect("server");
        if let Err(e) = server.start(state, b2, h2).await {
            eprintln!("server stopped with error: {}", e);
        }
    });
    let addr = handle
        .listening()
        .await
        .ok_or_else(|| anyhow!("server did not start listening"))?;
    let url = url::Url::parse(&format!("http://{}:{}", addr.ip(), addr.port()))?;
    Ok(ServerProc {
        handle,
        addr,
        origin: url.into(),
        backend,
        dir: dir.to_path_buf(),
        task,
    })
}

impl ServerProc {
    pub async fn stop(self) {
        self.handle.shutdown();
        let _ = tokio::time::timeout(
            std::time::Duration::from_secs(5),
            self.task,
        )
        .await;
    }

    pub async fn account(
        &self,
        id: &AccountId,
    ) -> Option<Arc<RwLock<ServerStorage>>> {
        let b = self.backend.read().await;
        let accounts = b.accounts();
        let accounts = accounts.read().await;
        accounts.get(id).cloned()
    }

    pub async fn sync_status(&self, id: &AccountId) -> Result<SyncStatus> {
        let acc = self
            .account(id)
            .await
            .ok_or_else(|| anyhow!("account not on server"))?;
        let acc = acc.read().await;
        Ok(acc.sync_status().await?)
    }
}

/// A device: a real LocalAccount plus the real RemoteBridge to the server.
pub struct Device {
    pub idx: usize,
    pub dir: PathBuf,
    pub backend: Backend,
    pub account: Arc<Mutex<LocalAccount>>,
    pub bridge: RemoteBridge,
    pub account_id: AccountId,
    pub target: sos_backend::BackendTarget,
}

#[derive(Debug, Clone, PartialEq, Eq)]
pub enum SyncResult {
    Ok,
    Conflict(String),
    Error(String),
}

impl SyncResult {
    pub fn short(&self) -> &'static str {
        match self {
            SyncResult::Ok => "Ok",
            SyncResult::Conflict(_) => "Conflict",
            SyncResult::Error(_) => "Error",
        }
    }
}

impl Device {
    /// Wrap an opened Dev into a device connected to `origin`.
    pub async fn connect(dev: Dev, idx: usize, origin: &Origin) -> Result<Device> {
        let Dev {
            dir,
            backend,
            account,
            account_id,
            target,
            ..
        } = dev;
        let signer = account.device_signer().await?;
        let options = HttpClientOptions {
            account_id,
            origin: origin.clone(),
            device_signer: signer.into(),
            connection_id: format!("device_{}", idx + 1),
            network_config: Default::default(),
        };
        let account = Arc::new(Mutex::new(account));
        let bridge = RemoteBridge::new(account.clone(), options)?;
        Ok(Device {
            idx,
            dir,
            backend,
            account,
            bridge,
            account_id,
            target,
        })
    }

    pub async fn sync(&self) -> SyncResult {
        clock::set_device(self.idx);
        let r = self.bridge.sync().await;
        match r.result {
            Ok(_) => SyncResult::Ok,
            Err(e) => {
                if e.is_conflict() {
                    SyncResult::Conflict(e.to_string())
                } else {
                    SyncResult::Error(e.to_string())
                }
            }
        }
    }

    pub async fn status(&self) -> Result<SyncStatus> {
        let a = self.account.lock().await;
        Ok(a.sync_status().await?)
    }

    pub async fn close(self) {
        let mut a = self.account.lock().await;
        let _ = a.sign_out().await;
        drop(a);
        crate::acct::close_target(&self.target).await;
    }
}

/// (commit, time, event bytes) of every record of a log.
pub async fn log_records<L, T, E>(log: &L) -> Result<Vec<EventRecord>>
where
    L: EventLog<T, Error = E>,
    T: Default
        + binary_stream::futures::Encodable
        + binary_stream::futures::Decodable
        + Send
        + Sync
        + 'static,
    E: std::error::Error + Send + Sync + 'static,
{
    let mut out = vec![];
    let s = log.record_stream(false).await;
    futures::pin_mut!(s);
    while let Some(r) = s.next().await {
        out.push(r.map_err(|e| anyhow!("{}", e))?);
    }
    Ok(out)
}

/// Comparable projection of a SyncStatus: per log (root, length).
pub fn status_view(s: &SyncStatus) -> Value {
    let cs = |c: &sos_core::commit::CommitState| {
        json!({"last": c.0.to_string(), "root": c.1.root.to_string(), "len": c.1.length})
    };
    let mut folders = serde_json::Map::new();
    let mut ids: Vec<&VaultId> = s.folders.keys().collect();
    ids.sort();
    for id in ids {
        folders.insert(id.to_string(), cs(&s.folders[id]));
    }
    json!({
        "identity": cs(&s.identity),
        "account": cs(&s.account),
        "device": cs(&s.device),
        "files": s.files.as_ref().map(cs),
        "folders": folders,
    })
}

/// Which logs differ between two status views.
pub fn status_diff(a: &Value, b: &Value) -> Vec<String> {
    let mut out = vec![];
    for k in ["identity", "account", "device", "files"] {
        if a[k] != b[k] {
            out.push(k.to_string());
        }
    }
    let fa = a["folders"].as_object().cloned().unwrap_or_default();
    let fb = b["folders"].as_object().cloned().unwrap_or_default();
    let mut keys: Vec<&String> = fa.keys().chain(fb.keys()).collect();
    keys.sort();
    keys.dedup();
    for k in keys {
        if fa.get(k) != fb.get(k) {
            out.push("folder".to_string());
            break;
        }
    }
    out
}

/// Records of the five kinds of logs of an account-like storage.
pub async fn all_logs<S>(s: &S, folders: &[VaultId]) -> Result<Vec<(String, Vec<EventRecord>)>>
where
    S: StorageEventLogs,
    <S as StorageEventLogs>::Error: std::error::Error + Send + Sync + 'static,
{
    let mut out = vec![];
    {
        let l = s.identity_log().await?;
        let l = l.read().await;
        out.push(("identity".to_string(), log_records(&*l).await?));
    }
    {
        let l = s.account_log().await?;
        let l = l.read().await;
        out.push(("account".to_string(), log_records(&*l).await?));
    }
    {
        let l = s.device_log().await?;
        let l = l.read().await;
        out.push(("device".to_string(), log_records(&*l).await?));
    }
    if let Ok(l) = s.file_log().await {
        let l = l.read().await;
        out.push(("files".to_string(), log_records(&*l).await?));
    }
    for f in folders {
        if let Ok(l) = s.folder_log(f).await {
            let l = l.read().await;
            out.push((format!("folder:{}", f), log_records(&*l).await?));
        }
    }
    Ok(out)
}

pub fn commits(recs: &[EventRecord]) -> Vec<CommitHash> {
    recs.iter().map(|r| *r.commit()).collect()
}

pub fn log_type_name(t: &EventLogType) -> String {
    match t {
        EventLogType::Identity => "identity".into(),
        EventLogType::Account => "account".into(),
        EventLogType::Device => "device".into(),
        EventLogType::Files => "files".into(),
        EventLogType::Folder(id) => format!("folder:{}", id),
    }
}

#[derive(Clone, Serialize, Deserialize)]
pub struct Template {
    pub dir: String,
    pub account_id: String,
    pub default_folder: String,
    pub f1: String,
    pub s0: String,
    pub s1: String,
    pub ndev: usize,
}

pub async fn make_template(
    dir: &Path,
    backend: Backend,
    server_db: bool,
    ndev: usize,
) -> Result<Template> {
    clock::install();
    clock::set_device(0);
    let d1 = dir.join("d0");
    let mut dev = Dev::create(&d1, backend, "sync-account", true).await?;
    let default = dev.account.default_folder().await.unwrap();
    let f1 = dev
        .account
        .create_folder(NewFolderOptions::new("folder-one".to_string()))
        .await?
        .folder;
    let (m, s) = crate::gen::secret("note", 0, "s0");
    let s0 = dev
        .account
        .create_secret(
            m,
            s,
            AccessOptions {
                folder: Some(*default.id()),
                ..Default::default()
            },
        )
        .await?
        .id;
    let (m, s) = crate::gen::secret("login", 0, "s1");
    let s1 = dev
        .account
        .create_secret(
            m,
            s,
            AccessOptions {
                folder: Some(*f1.id()),
                ..Default::default()
            },
        )
        .await?
        .id;
    let account_id = dev.account_id;
    // push to a server
    let server = start_server(&dir.join("server"), server_db, None, None).await?;
    let device = Device::connect(dev, 0, &server.origin).await?;
    match device.sync().await {
        SyncResult::Ok => {}
        other => return Err(anyhow!("template sync failed: {:?}", other)),
    }
    device.close().await;
    server.stop().await;
    for k in 1..ndev + 1 {
        // devices 1..ndev-1 are editors, device ndev is the observer
        crate::fsutil::copy_dir(&d1, &dir.join(format!("d{}", k)))?;
    }
    Ok(Template {
        dir: dir.to_string_lossy().to_string(),
        account_id: account_id.to_string(),
        default_folder: default.id().to_string(),
        f1: f1.id().to_string(),
        s0: s0.to_string(),
        s1: s1.to_string(),
        ndev,
    })
}

