//! C15 — malformed bytes are rejected with an error, never a crash.
//!
//! Mutation enumerator over valid encodings (seeds from vkit::vals), run
//! in worker subprocesses (RLIMIT_AS, per-case watchdog). For a seed of
//! length n, per position i: truncation to i bytes; every single-bit
//! flip; byte set to each of a value list; u32 overwrite (little and big
//! endian) with {0, 1, 0x7fffffff, 0xffffffff, n+1, 16 MiB+1}.
//! Oracle: every case ends in Ok or Err; a panic (caught per case), an
//! abort / kill of the worker (attributed to the exact case through a
//! progress file), a case running longer than the cap, or a decode that
//! allocates more than max(64 MiB, 64 x input length) is a violation.
use futures::FutureExt;
use serde_json::{json, Map, Value};
use std::alloc::{GlobalAlloc, Layout, System};
use std::collections::{BTreeMap, BTreeSet, HashSet};
use std::hash::{Hash, Hasher};
use std::os::unix::fs::FileExt;
use std::panic::AssertUnwindSafe;
use std::path::{Path, PathBuf};
use std::sync::atomic::{AtomicU64, AtomicUsize, Ordering};
use std::sync::Mutex;
use vkit::pool::{self, PoolOpts};
use vkit::run::{push_sample, Args, Run, Tier};
use vkit::vals::{self, Case};

// ---------------------------------------------------------- allocator

struct Counting;
static CUR: AtomicUsize = AtomicUsize::new(0);
static PEAK: AtomicUsize = AtomicUsize::new(0);
static BIGGEST: AtomicUsize = AtomicUsize::new(0);

unsafe impl GlobalAlloc for Counting {
    unsafe fn alloc(&self, l: Layout) -> *mut u8 {
        let p = System.alloc(l);
        if !p.is_null() {
            note_alloc(l.size());
        }
        p
    }
    unsafe fn alloc_zeroed(&self, l: Layout) -> *mut u8 {
        let p = System.alloc_zeroed(l);
        if !p.is_null() {
            note_alloc(l.size());
        }
        p
    }
    unsafe fn dealloc(&self, p: *mut u8, l: Layout) {
        System.dealloc(p, l);
        CUR.fetch_sub(l.size(), Ordering::Relaxed);
    }
    unsafe fn realloc(&self, p: *mut u8, l: Layout, new: usize) -> *mut u8 {
        let q = System.realloc(p, l, new);
        if !q.is_null() {
            if new >= l.size() {
                note_alloc(new - l.size());
            } else {
                CUR.fetch_sub(l.size() - new, Ordering::Relaxed);
            }
        }
        q
    }
}

fn note_alloc(n: usize) {
    let c = CUR.fetch_add(n, Ordering::Relaxed) + n;
    PEAK.fetch_max(c, Ordering::Relaxed);
    BIGGEST.fetch_max(n, Ordering::Relaxed);
}

#[global_allocator]
static ALLOC: Counting = Counting;

// ---------------------------------------------------------- panics

static PANICS: Mutex<Vec<(String, String)>> = Mutex::new(Vec::new());

fn install_hook() {
    std::panic::set_hook(Box::new(|info| {
        let msg = if let Some(s) = info.payload().downcast_ref::<&str>() {
            s.to_string()
        } else if let Some(s) = info.payload().downcast_ref::<String>() {
            s.clone()
        } else {
            "panic".to_string()
        };
        let loc = info
            .location()
            .map(|l| format!("{}:{}", l.file(), l.line()))
            .unwrap_or_default();
        if let Ok(mut g) = PANICS.lock() {
            if g.len() < 16 {
                g.push((msg, loc));
            }
        }
    }));
}

fn short_loc(loc: &str) -> String {
    if let Some(r) = loc.strip_prefix("/repo/") {
        return r.trim_start_matches("crates/").to_string();
    }
    if let Some(i) = loc.find("/registry/src/") {
        let rest = &loc[i + 14..];
        // index-xxxx/<crate>-<ver>/src/...
        if let Some(j) = rest.find('/') {
            return rest[j + 1..].to_string();
        }
    }
    loc.to_string()
}

fn norm_msg(m: &str) -> String {
    let mut out = String::new();
    let mut last_digit = false;
    for ch in m.chars().take(70) {
        if ch.is_ascii_digit() {
            if !last_digit {
                out.push('N');
            }
            last_digit = true;
        } else {
            last_digit = false;
            out.push(if ch.is_ascii_alphanumeric() { ch } else { '_' });
        }
    }
    while out.contains("__") {
        out = out.replace("__", "_");
    }
    out.trim_matches('_').to_string()
}

// ---------------------------------------------------------- seeds

#[derive(Clone)]
struct Seed {
    group: &'static str,
    entry: String,
    label: String,
    bytes: Vec<u8>,
}

/// Quick: the cases flagged as seeds (one per variant). Thorough: for
/// types with at most 40 enumerated values, every value is a seed.
fn pick<T>(cases: Vec<Case<T>>) -> Vec<Case<T>> {
    let all = vals::deep() && cases.len() <= 40;
    cases.into_iter().filter(|c| all || c.seed).collect()
}

async fn add_bin<T: binary_stream::futures::Encodable>(out: &mut Vec<Seed>, ty: &str, cases: Vec<Case<T>>) {
    for cs in pick(cases) {
        let bytes = sos_core::encode(&cs.value).await.expect("seed encodes");
        if !cs.seed && bytes.len() > 2048 {
            continue;
        }
        out.push(Seed { group: "binary", entry: format!("decode<{}>", ty), label: cs.label, bytes });
    }
}

async fn add_event<T: binary_stream::futures::Encodable>(out: &mut Vec<Seed>, ty: &str, cases: Vec<Case<T>>, take: usize) {
    for cs in cases.into_iter().filter(|c| c.seed).take(take) {
        let body = sos_core::encode(&cs.value).await.expect("seed encodes");
        let rec = sos_core::events::EventRecord::new(vals::t_nanos(), vals::hash(1), sos_core::commit::CommitHash(sos_core::commit::CommitTree::hash(&body)), body);
        let bytes = sos_core::encode(&rec).await.expect("record encodes");
        out.push(Seed { group: "binary", entry: format!("EventRecord::decode_event<{}>", ty), label: cs.label, bytes });
    }
}

async fn add_wire<T: sos_protocol::WireEncodeDecode>(out: &mut Vec<Seed>, ty: &str, cases: Vec<Case<T>>) {
    for cs in pick(cases) {
        let flagged = cs.seed;
        let bytes = cs.value.encode().await.expect("wire seed encodes");
        if !flagged && bytes.len() > 2048 {
            continue;
        }
        out.push(Seed { group: "wire", entry: format!("WireEncodeDecode::decode<{}>", ty), label: cs.label, bytes });
    }
}

const FOLDER_LOG_ENTRIES: &[&str] = &[
    "FormatStream<EventLogRecord>::forward",
    "FormatStream<EventLogRecord>::reverse",
    "FileSystemEventLog::load_tree",
    "FileSystemEventLog::diff_records",
];
const VAULT_FILE_ENTRIES: &[&str] = &[
    "FormatStream<VaultRecord>::forward",
    "FormatStream<VaultRecord>::reverse",
    "Header::read_header_file",
    "Header::read_summary_file",
    "Header::read_content_offset",
];

async fn log_bytes(identity: &[u8], version: Option<u16>, bodies: Vec<Vec<u8>>) -> Vec<u8> {
    use sos_core::commit::{CommitHash, CommitTree};
    let mut out = identity.to_vec();
    if let Some(v) = version {
        out.extend_from_slice(&v.to_le_bytes());
    }
    let mut last = CommitHash([0; 32]);
    for (i, body) in bodies.into_iter().enumerate() {
        let commit = CommitHash(CommitTree::hash(&body));
        let time = if i % 2 == 0 { vals::t_nanos() } else { vals::t_other() };
        let rec = sos_core::events::EventRecord::new(time, last, commit, body);
        out.extend(sos_core::encode(&rec).await.expect("record"));
        last = commit;
    }
    out
}

async fn build_seeds() -> Vec<Seed> {
    use sos_core::events::{AccountEvent, WriteEvent};
    let mut out = vec![];
    let o = &mut out;
    add_bin(o, "UtcDateTime", vals::times()).await;
    add_bin(o, "Cipher", vals::ciphers()).await;
    add_bin(o, "KeyDerivation", vals::kdfs()).await;
    add_bin(o, "AeadPack", vals::packs()).await;
    add_bin(o, "VaultEntry", vals::entries()).await;
    add_bin(o, "VaultCommit", vals::vault_commits()).await;
    add_bin(o, "CommitHash", vals::hashes()).await;
    add_bin(o, "CommitProof", vals::proofs()).await;
    add_bin(o, "CommitState", vals::states()).await;
    add_bin(o, "Comparison", vals::comparisons()).await;
    add_bin(o, "EventRecord", vals::records()).await;
    add_bin(o, "WriteEvent", vals::write_events()).await;
    add_bin(o, "AccountEvent", vals::account_events()).await;
    add_bin(o, "DeviceEvent", vals::device_events()).await;
    add_bin(o, "FileEvent", vals::file_events()).await;
    add_bin(o, "Summary", vals::summaries()).await;
    add_bin(o, "Header", vals::headers()).await;
    add_bin(o, "Vault", vals::vaults()).await;
    add_bin(o, "VaultMeta", vals::vault_metas()).await;
    add_bin(o, "SecretMeta", vals::metas()).await;
    add_bin(o, "Secret", vals::secrets()).await;
    add_bin(o, "SecretRow", vals::secret_rows()).await;
    add_bin(o, "AuditEvent", vals::audit_events()).await;
    out.push(Seed { group: "binary", entry: "decode<BinaryEd25519Signature>".into(), label: "signature".into(), bytes: vals::blob(64, 7) });
    let o = &mut out;
    add_event(o, "WriteEvent", vals::write_events(), 3).await;
    add_event(o, "AccountEvent", vals::account_events(), 2).await;
    add_event(o, "DeviceEvent", vals::device_events(), 2).await;
    add_event(o, "FileEvent", vals::file_events(), 2).await;
    // wire
    add_wire(o, "UtcDateTime", vals::times()).await;
    add_wire(o, "CommitHash", vals::hashes()).await;
    add_wire(o, "CommitProof", vals::proofs()).await;
    add_wire(o, "CommitState", vals::states()).await;
    add_wire(o, "EventRecord", vals::records()).await;
    add_wire(o, "CheckedPatch", vals::checked_patches()).await;
    add_wire(o, "EventLogType", vals::log_types()).await;
    add_wire(o, "Origin", vals::origins()).await;
    add_wire(o, "Comparison", vals::comparisons()).await;
    add_wire(o, "SyncStatus", vals::sync_statuses()).await;
    add_wire(o, "Patch", vals::patches()).await;
    add_wire(o, "Diff", vals::diffs()).await;
    add_wire(o, "MaybeDiff", vals::maybe_diffs()).await;
    add_wire(o, "SyncDiff", vals::sync_diffs()).await;
    add_wire(o, "SyncCompare", vals::sync_compares()).await;
    add_wire(o, "SyncPacket", vals::sync_packets()).await;
    add_wire(o, "CreateSet", vals::create_sets()).await;
    add_wire(o, "UpdateSet", vals::update_sets()).await;
    add_wire(o, "TrackedChanges", vals::tracked_changes()).await;
    add_wire(o, "MergeOutcome", vals::merge_outcomes()).await;
    add_wire(o, "NetworkChangeEvent", vals::network_changes()).await;
    add_wire(o, "DiffRequest", vals::diff_requests()).await;
    add_wire(o, "DiffResponse", vals::diff_responses()).await;
    add_wire(o, "PatchRequest", vals::patch_requests()).await;
    add_wire(o, "PatchResponse", vals::patch_responses()).await;
    add_wire(o, "ScanRequest", vals::scan_requests()).await;
    add_wire(o, "ScanResponse", vals::scan_responses()).await;
    add_wire(o, "ExternalFile", vals::external_files()).await;
    add_wire(o, "FileSet", vals::file_sets()).await;
    add_wire(o, "FileTransfersSet", vals::file_transfers()).await;
    // relay packets (pairing)
    {
        use sos_protocol::{ProtoMessage, RelayHeader, RelayPacket, RelayPayload};
        let mk = || RelayPacket {
            header: Some(RelayHeader { to_public_key: vals::blob(32, 1), from_public_key: vals::blob(32, 2) }),
            payload: Some(RelayPayload::new_handshake(48, vals::blob(48, 3))),
        };
        out.push(Seed { group: "wire", entry: "RelayPacket::decode_proto+is_handshake".into(), label: "handshake".into(), bytes: mk().encode_proto().await.expect("relay") });
        out.push(Seed { group: "wire", entry: "RelayPacket::decode_split".into(), label: "prefixed".into(), bytes: mk().encode_prefixed().await.expect("relay") });
        let transport = RelayPacket {
            header: Some(RelayHeader { to_public_key: vals::blob(32, 4), from_public_key: vals::blob(32, 5) }),
            payload: Some(RelayPayload::new_transport(16, vals::blob(16, 6))),
        };
        out.push(Seed { group: "wire", entry: "RelayPacket::decode_proto+is_handshake".into(), label: "transport".into(), bytes: transport.encode_proto().await.expect("relay") });
    }
    // files
    {
        use sos_core::constants::{ACCOUNT_EVENT_LOG_IDENTITY, FOLDER_EVENT_LOG_IDENTITY};
        let vc = sos_core::VaultCommit(vals::hash(3), sos_core::VaultEntry(vals::pack12(1, 1), vals::pack24(2, 2)));
        let bodies = vec![
            sos_core::encode(&WriteEvent::SetVaultName("n".into())).await.unwrap(),
            sos_core::encode(&WriteEvent::CreateSecret(vals::uid(1), vc.clone())).await.unwrap(),
            sos_core::encode(&WriteEvent::DeleteSecret(vals::uid(1))).await.unwrap(),
        ];
        let folder = log_bytes(&FOLDER_EVENT_LOG_IDENTITY, None, bodies).await;
        for e in FOLDER_LOG_ENTRIES {
            out.push(Seed { group: "file", entry: format!("{}[folder log]", e), label: "folder_log_3_records".into(), bytes: folder.clone() });
        }
        let bodies = vec![
            sos_core::encode(&AccountEvent::RenameAccount("a".into())).await.unwrap(),
            sos_core::encode(&AccountEvent::DeleteFolder(vals::uid(2))).await.unwrap(),
        ];
        let account = log_bytes(&ACCOUNT_EVENT_LOG_IDENTITY, Some(sos_core::encoding::VERSION), bodies).await;
        for e in FOLDER_LOG_ENTRIES {
            out.push(Seed { group: "file", entry: format!("{}[account log]", e), label: "account_log_2_records".into(), bytes: account.clone() });
        }
        let sum = sos_vault::Summary::new(1, vals::uid(5), "v".into(), sos_core::crypto::Cipher::AesGcm256, sos_core::crypto::KeyDerivation::Argon2Id, sos_core::VaultFlags::DEFAULT);
        let h = vals::header(&sum, Some(vals::pack12(4, 4)), Some("c2FsdA".into()), None, &sos_vault::SharedAccess::WriteAccess(vec![]));
        let mut v: sos_vault::Vault = h.into();
        v.insert_entry(vals::uid(7), vc.clone());
        v.insert_entry(vals::uid(6), sos_core::VaultCommit(vals::hash(4), sos_core::VaultEntry(vals::pack24(3, 3), vals::pack12(0, 5))));
        let vb = sos_core::encode(&v).await.unwrap();
        for e in VAULT_FILE_ENTRIES {
            out.push(Seed { group: "file", entry: e.to_string(), label: "vault_file_2_rows".into(), bytes: vb.clone() });
        }
    }
    // strings
    {
        let pair: url::Url = sos_net::pairing::ServerPairUrl::new(vals::account_id(1), "https://example.com/".parse().unwrap(), vals::blob(32, 9)).into();
        // the pre-shared key is random: replace it by a fixed one
        let mut pair_s = pair.to_string();
        if let Some(i) = pair_s.find("psk=") {
            pair_s.truncate(i + 4);
            pair_s.push_str(&hex::encode(vals::bytes32(3)));
        }
        let strs: Vec<(&str, String)> = vec![
            ("FromStr<ServerPairUrl>", pair_s),
            ("FromStr<AccountId>", vals::account_id(2).to_string()),
            ("FromStr<ExternalFile>", vals::external_file(3).to_string()),
            ("FromStr<ExternalFileName>", vals::file_name(4).to_string()),
            ("FromStr<CommitHash>", vals::hash(5).to_string()),
            ("FromStr<Urn>+SecretRef", format!("urn:sos:vault:{}", vals::uid(6))),
            ("bearer_token_v2(bs58+decode<BinaryEd25519Signature>)", bs58::encode(vals::blob(64, 8)).into_string()),
        ];
        for (e, s) in strs {
            out.push(Seed { group: "string", entry: e.to_string(), label: "valid".into(), bytes: s.into_bytes() });
        }
    }
    out
}

// ---------------------------------------------------------- entry points

type R = Result<String, String>;
const NONTERMINATING: &str = "__harness_nonterminating_iteration__";

fn ok<T>(r: Result<T, impl std::fmt::Display>) -> R {
    match r {
        Ok(_) => Ok("ok".into()),
        Err(e) => Err(e.to_string()),
    }
}

async fn decode_bin(ty: &str, b: &[u8]) -> Option<R> {
    use sos_core::{commit::*, crypto::*, decode, events::*, *};
    use sos_vault::{secret::*, *};
    macro_rules! d {
        ($t:ty) => {
            ok(decode::<$t>(b).await)
        };
    }
    Some(match ty {
        "UtcDateTime" => d!(UtcDateTime),
        "Cipher" => d!(Cipher),
        "KeyDerivation" => d!(KeyDerivation),
        "AeadPack" => d!(AeadPack),
        "VaultEntry" => d!(VaultEntry),
        "VaultCommit" => d!(VaultCommit),
        "CommitHash" => d!(CommitHash),
        "CommitProof" => d!(CommitProof),
        "CommitState" => d!(CommitState),
        "Comparison" => d!(Comparison),
        "EventRecord" => d!(EventRecord),
        "WriteEvent" => d!(WriteEvent),
        "AccountEvent" => d!(AccountEvent),
        "DeviceEvent" => d!(DeviceEvent),
        "FileEvent" => d!(FileEvent),
        "Summary" => d!(Summary),
        "Header" => d!(Header),
        "Vault" => d!(Vault),
        "VaultMeta" => d!(VaultMeta),
        "SecretMeta" => d!(SecretMeta),
        "Secret" => d!(Secret),
        "SecretRow" => d!(SecretRow),
        "AuditEvent" => d!(sos_audit::AuditEvent),
        "BinaryEd25519Signature" => d!(sos_signer::ed25519::BinaryEd25519Signature),
        _ => return None,
    })
}

async fn decode_event(ty: &str, b: &[u8]) -> Option<R> {
    use sos_core::events::*;
    let rec = match sos_core::decode::<EventRecord>(b).await {
        Ok(r) => r,
        Err(e) => return Some(Err(format!("record: {}", e))),
    };
    Some(match ty {
        "WriteEvent" => ok(rec.decode_event::<WriteEvent>().await),
        "AccountEvent" => ok(rec.decode_event::<AccountEvent>().await),
        "DeviceEvent" => ok(rec.decode_event::<DeviceEvent>().await),
        "FileEvent" => ok(rec.decode_event::<FileEvent>().await),
        _ => return None,
    })
}

async fn decode_wire(ty: &str, b: &[u8]) -> Option<R> {
    use sos_core::{commit::*, events::{patch::*, *}, *};
    use sos_protocol::{transfer::*, *};
    use sos_sync::*;
    let buf = prost::bytes::Bytes::copy_from_slice(b);
    macro_rules! d {
        ($t:ty) => {
            ok(<$t as WireEncodeDecode>::decode(buf).await)
        };
    }
    Some(match ty {
        "UtcDateTime" => d!(UtcDateTime),
        "CommitHash" => d!(CommitHash),
        "CommitProof" => d!(CommitProof),
        "CommitState" => d!(CommitState),
        "EventRecord" => d!(EventRecord),
        "CheckedPatch" => d!(CheckedPatch),
        "EventLogType" => d!(EventLogType),
        "Origin" => d!(Origin),
        "Comparison" => d!(Comparison),
        "SyncStatus" => d!(SyncStatus),
        "Patch" => d!(Patch<WriteEvent>),
        "Diff" => d!(Diff<WriteEvent>),
        "MaybeDiff" => d!(MaybeDiff<Diff<WriteEvent>>),
        "SyncDiff" => d!(SyncDiff),
        "SyncCompare" => d!(SyncCompare),
        "SyncPacket" => d!(SyncPacket),
        "CreateSet" => d!(CreateSet),
        "UpdateSet" => d!(UpdateSet),
        "TrackedChanges" => d!(TrackedChanges),
        "MergeOutcome" => d!(MergeOutcome),
        "NetworkChangeEvent" => d!(NetworkChangeEvent),
        "DiffRequest" => d!(DiffRequest),
        "DiffResponse" => d!(DiffResponse),
        "PatchRequest" => d!(PatchRequest),
        "PatchResponse" => d!(PatchResponse),
        "ScanRequest" => d!(ScanRequest),
        "ScanResponse" => d!(ScanResponse),
        "ExternalFile" => d!(ExternalFile),
        "FileSet" => d!(FileSet),
        "FileTransfersSet" => d!(FileTransfersSet),
        _ => return None,
    })
}

fn inner<'a>(entry: &'a str, prefix: &str) -> Option<&'a str> {
    entry.strip_prefix(prefix).and_then(|r| r.strip_suffix('>'))
}

async fn iterate<T: sos_filesystem::formats::FileItem + Send>(
    path: &Path,
    identity: &'static [u8],
    offset: u64,
    reverse: bool,
) -> R {
    use sos_filesystem::formats::{FormatStream, FormatStreamIterator};
    let len = std::fs::metadata(path).map(|m| m.len()).unwrap_or(0);
    let file = sos_vfs::File::open(path).await.map_err(|e| e.to_string())?;
    let mut it = FormatStream::<T, sos_vfs::File>::new_file(file, identity, true, Some(offset), reverse)
        .await
        .map_err(|e| e.to_string())?;
    let cap = len / 8 + 16;
    let mut n = 0u64;
    loop {
        match it.next().await {
            Ok(Some(_)) => {
                n += 1;
                if n > cap {
                    return Err(NONTERMINATING.to_string());
                }
            }
            Ok(None) => return Ok(format!("{} items", n)),
            Err(e) => return Err(format!("after {} items: {}", n, e)),
        }
    }
}

async fn file_entry(entry: &str, path: &Path) -> Option<R> {
    use sos_core::constants::*;
    use sos_core::events::{EventLog, EventLogType};
    use sos_filesystem::formats::{EventLogRecord, VaultRecord};
    type E = sos_filesystem::Error;
    let (name, which) = match entry.find('[') {
        Some(i) => (&entry[..i], &entry[i..]),
        None => (entry, ""),
    };
    let account = which == "[account log]";
    let (ident, off): (&'static [u8], u64) = if account { (&ACCOUNT_EVENT_LOG_IDENTITY, 6) } else { (&FOLDER_EVENT_LOG_IDENTITY, 4) };
    Some(match name {
        "FormatStream<EventLogRecord>::forward" => iterate::<EventLogRecord>(path, ident, off, false).await,
        "FormatStream<EventLogRecord>::reverse" => iterate::<EventLogRecord>(path, ident, off, true).await,
        "FileSystemEventLog::load_tree" | "FileSystemEventLog::diff_records" => {
            let load = name.ends_with("load_tree");
            if account {
                match sos_filesystem::AccountEventLog::<E>::new_account(path, vals::account_id(1)).await {
                    Ok(mut l) => {
                        if load {
                            ok(l.load_tree().await)
                        } else {
                            ok(l.diff_records(None).await)
                        }
                    }
                    Err(e) => Err(e.to_string()),
                }
            } else {
                match sos_filesystem::FolderEventLog::<E>::new_folder(path, vals::account_id(1), EventLogType::Folder(vals::uid(1))).await {
                    Ok(mut l) => {
                        if load {
                            ok(l.load_tree().await)
                        } else {
                            ok(l.diff_records(None).await)
                        }
                    }
                    Err(e) => Err(e.to_string()),
                }
            }
        }
        "FormatStream<VaultRecord>::forward" | "FormatStream<VaultRecord>::reverse" => {
            match sos_vault::Header::read_content_offset(path).await {
                Ok(o) => iterate::<VaultRecord>(path, &VAULT_IDENTITY, o, name.ends_with("reverse")).await,
                Err(e) => Err(format!("content offset: {}", e)),
            }
        }
        "Header::read_header_file" => ok(sos_vault::Header::read_header_file(path).await),
        "Header::read_summary_file" => ok(sos_vault::Header::read_summary_file(path).await),
        "Header::read_content_offset" => ok(sos_vault::Header::read_content_offset(path).await),
        _ => return None,
    })
}

fn string_entry(entry: &str, b: &[u8]) -> Option<R> {
    let s = String::from_utf8_lossy(b);
    Some(match entry {
        "FromStr<ServerPairUrl>" => ok(s.parse::<sos_net::pairing::ServerPairUrl>()),
        "FromStr<AccountId>" => ok(s.parse::<sos_core::AccountId>()),
        "FromStr<ExternalFile>" => ok(s.parse::<sos_core::ExternalFile>()),
        "FromStr<ExternalFileName>" => ok(s.parse::<sos_core::ExternalFileName>()),
        "FromStr<CommitHash>" => ok(s.parse::<sos_core::commit::CommitHash>()),
        "FromStr<Urn>+SecretRef" => {
            let _ = s.parse::<sos_vault::secret::SecretRef>();
            ok(s.parse::<urn::Urn>())
        }
        _ => return None,
    })
}

/// Run one input through one entry point.
async fn run_entry(seed: &Seed, input: &[u8], scratch: &Path) -> R {
    let e = seed.entry.as_str();
    let r = match seed.group {
        "binary" => {
            if let Some(t) = inner(e, "decode<") {
                decode_bin(t, input).await
            } else if let Some(t) = inner(e, "EventRecord::decode_event<") {
                decode_event(t, input).await
            } else {
                None
            }
        }
        "wire" => {
            if let Some(t) = inner(e, "WireEncodeDecode::decode<") {
                decode_wire(t, input).await
            } else if e == "RelayPacket::decode_proto+is_handshake" {
                use sos_protocol::{ProtoMessage, RelayPacket};
                Some(match RelayPacket::decode_proto(prost::bytes::Bytes::copy_from_slice(input)).await {
                    Ok(p) => Ok(format!("handshake={}", p.is_handshake())),
                    Err(e) => Err(e.to_string()),
                })
            } else if e == "RelayPacket::decode_split" {
                Some(ok(sos_protocol::RelayPacket::decode_split(input.to_vec())))
            } else {
                None
            }
        }
        "file" => file_entry(e, scratch).await,
        "string" => {
            if e.starts_with("bearer_token_v2") {
                let s = String::from_utf8_lossy(input);
                Some(match bs58::decode(s.as_ref()).into_vec() {
                    Ok(v) => ok(sos_core::decode::<sos_signer::ed25519::BinaryEd25519Signature>(&v).await),
                    Err(e) => Err(e.to_string()),
                })
            } else {
                string_entry(e, input)
            }
        }
        _ => None,
    };
    r.unwrap_or_else(|| panic!("harness: unknown entry point {}", e))
}

// ---------------------------------------------------------- mutations

const U32_BASE: [u32; 4] = [0, 1, 0x7fff_ffff, 0xffff_ffff];

fn byte_values(tier: Tier) -> Vec<u8> {
    match tier {
        Tier::Quick => vec![0x00, 0x01, 0x7f, 0x80, 0xff],
        Tier::Thorough => (0..=255u8).collect(),
    }
}

/// Is position i inside the per-byte operator window?
fn in_window(tier: Tier, n: usize, i: usize) -> bool {
    tier == Tier::Thorough || n <= 512 || i < 256 || i + 64 >= n
}

/// All mutants anchored at position i (description, bytes).
fn mutants_at(seed: &[u8], i: usize, tier: Tier, values: &[u8]) -> Vec<(Value, Vec<u8>)> {
    let n = seed.len();
    let mut out = vec![(json!({"op": "truncate", "len": i}), seed[..i].to_vec())];
    if !in_window(tier, n, i) {
        return out;
    }
    for b in 0..8 {
        let mut m = seed.to_vec();
        m[i] ^= 1 << b;
        out.push((json!({"op": "bit_flip", "offset": i, "bit": b}), m));
    }
    for v in values {
        let mut m = seed.to_vec();
        m[i] = *v;
        out.push((json!({"op": "set_byte", "offset": i, "value": v}), m));
    }
    if i + 4 <= n {
        let mut vals32 = U32_BASE.to_vec();
        vals32.push(n as u32 + 1);
        vals32.push(16 * 1024 * 1024 + 1);
        for v in vals32 {
            for (en, bytes) in [("le", v.to_le_bytes()), ("be", v.to_be_bytes())] {
                let mut m = seed.to_vec();
                m[i..i + 4].copy_from_slice(&bytes);
                out.push((json!({"op": "set_u32", "offset": i, "endian": en, "value": v}), m));
            }
        }
    }
    out
}

fn h64(b: &[u8]) -> u64 {
    let mut h = std::collections::hash_map::DefaultHasher::new();
    b.hash(&mut h);
    h.finish()
}

fn ops_per_pos(tier: Tier) -> usize {
    1 + 8 + byte_values(tier).len() + 12
}

#[derive(Clone, Debug)]
struct Item {
    seed: usize,
    from: usize,
    to: usize,
    /// execute only the cases with lo < seq < hi (all are hashed)
    lo: u64,
    hi: u64,
}

fn plan(seeds: &[Seed], tier: Tier) -> Vec<Item> {
    let mut items = vec![];
    for (si, s) in seeds.iter().enumerate() {
        let target = if s.group == "file" { 400 } else { 4000 };
        let step = (target / ops_per_pos(tier)).max(1);
        let n = s.bytes.len();
        let mut a = 0;
        while a < n {
            let b = (a + step).min(n);
            items.push(Item { seed: si, from: a, to: b, lo: 0, hi: u64::MAX });
            a = b;
        }
    }
    items
}

// ---------------------------------------------------------- worker

static CASE_START_MS: AtomicU64 = AtomicU64::new(0);

fn now_ms() -> u64 {
    use std::time::{SystemTime, UNIX_EPOCH};
    SystemTime::now().duration_since(UNIX_EPOCH).map(|d| d.as_millis() as u64).unwrap_or(1)
}

fn case_cap_ms(tier: Tier) -> u64 {
    tier.pick(10_000, 30_000)
}

struct Exec {
    result: Result<R, String>, // Err = panic message
    panics: Vec<(String, String)>,
    growth: usize,
    biggest: usize,
}

fn exec(rt: &tokio::runtime::Runtime, seed: &Seed, input: &[u8], scratch: &Path) -> Exec {
    if seed.group == "file" {
        std::fs::write(scratch, input).expect("write scratch file");
    }
    PANICS.lock().unwrap().clear();
    let base = CUR.load(Ordering::Relaxed);
    PEAK.store(base, Ordering::Relaxed);
    BIGGEST.store(0, Ordering::Relaxed);
    CASE_START_MS.store(now_ms(), Ordering::SeqCst);
    let r = rt.block_on(AssertUnwindSafe(run_entry(seed, input, scratch)).catch_unwind());
    CASE_START_MS.store(0, Ordering::SeqCst);
    let growth = PEAK.load(Ordering::Relaxed).saturating_sub(base);
    let biggest = BIGGEST.load(Ordering::Relaxed);
    let panics = PANICS.lock().unwrap().clone();
    let result = match r {
        Ok(r) => Ok(r),
        Err(p) => Err(if let Some(s) = p.downcast_ref::<&str>() {
            s.to_string()
        } else if let Some(s) = p.downcast_ref::<String>() {
            s.clone()
        } else {
            "panic".to_string()
        }),
    };
    Exec { result, panics, growth, biggest }
}

fn sig_entry(entry: &str) -> &str {
    match entry.find('[') {
        Some(i) => &entry[..i],
        None => entry,
    }
}

fn hex_short(b: &[u8]) -> Value {
    if b.len() <= 600 {
        json!(hex::encode(b))
    } else {
        json!(format!("{}... ({} bytes)", hex::encode(&b[..64]), b.len()))
    }
}

fn witness(seed: &Seed, desc: &Value, input: &[u8], extra: Value) -> Value {
    json!({"engine": "fuzzx", "entry": seed.entry, "group": seed.group, "seed": seed.label, "seed_len": seed.bytes.len(),
        "mutation": desc, "input_len": input.len(), "input_hex": hex_short(input), "detail": extra})
}

#[derive(Default)]
struct Tally {
    evals: u64,
    nontrivial: u64,
    ok: u64,
    err: u64,
    contained: u64,
    contained_msgs: BTreeSet<String>,
    fails: BTreeMap<String, (u64, String, Value)>,
    samples: Vec<Value>,
}

impl Tally {
    fn fail(&mut self, sig: String, what: String, w: Value) {
        let e = self.fails.entry(sig).or_insert((0, what, w));
        e.0 += 1;
    }
    fn to_json(&self) -> Value {
        json!({"evals": self.evals, "nontrivial": self.nontrivial, "ok": self.ok, "err": self.err, "contained": self.contained,
            "contained_msgs": self.contained_msgs, "samples": self.samples,
            "fails": self.fails.iter().map(|(k, v)| json!({"sig": k, "count": v.0, "what": v.1, "witness": v.2})).collect::<Vec<_>>()})
    }
}

/// Judge one executed case. Returns the outcome text for the
/// non-triviality rule.
fn judge(t: &mut Tally, seed: &Seed, desc: &Value, input: &[u8], x: Exec) -> Option<Result<String, String>> {
    t.evals += 1;
    let e = sig_entry(&seed.entry);
    let limit = (64usize << 20).max(64 * input.len());
    if x.growth > limit {
        t.fail(
            format!("{}:alloc:out_of_proportion", e),
            format!("decoding {} input bytes allocated {} bytes (largest single request {})", input.len(), x.growth, x.biggest),
            witness(seed, desc, input, json!({"allocated": x.growth, "largest_request": x.biggest, "limit": limit})),
        );
    }
    match x.result {
        Err(msg) => {
            let (m, loc) = x.panics.iter().rev().find(|(pm, _)| *pm == msg).cloned().unwrap_or((msg.clone(), String::new()));
            t.fail(
                format!("{}:panic:{}@{}", e, norm_msg(&m), short_loc(&loc)),
                format!("panic: {} at {}", m, loc),
                witness(seed, desc, input, json!({"panic": m, "location": loc})),
            );
            None
        }
        Ok(r) => {
            if let Err(m) = &r {
                if m.contains(NONTERMINATING) {
                    t.fail(format!("{}:timeout:iteration_does_not_terminate", e), "iteration yields more items than the file can hold".into(), witness(seed, desc, input, json!({})));
                    return None;
                }
            }
            if !x.panics.is_empty() {
                if seed.group == "wire" {
                    // contained by spawn_blocking and surfaced as an error: the mechanism of the property
                    t.contained += 1;
                    if t.contained_msgs.len() < 40 {
                        let (m, l) = &x.panics[0];
                        t.contained_msgs.insert(format!("{}@{}", norm_msg(m), short_loc(l)));
                    }
                    if r.is_ok() {
                        let (m, l) = &x.panics[0];
                        t.fail(format!("{}:panic_swallowed:{}@{}", e, norm_msg(m), short_loc(l)), "a panic occurred but the call returned Ok".into(), witness(seed, desc, input, json!({"panic": m, "location": l})));
                    }
                } else {
                    let (m, l) = &x.panics[0];
                    t.fail(format!("{}:panic_in_task:{}@{}", e, norm_msg(m), short_loc(l)), format!("panic inside a spawned task: {} at {}", m, l), witness(seed, desc, input, json!({"panic": m, "location": l, "returned": format!("{:?}", r)})));
                }
            }
            match &r {
                Ok(_) => t.ok += 1,
                Err(_) => t.err += 1,
            }
            Some(r)
        }
    }
}

struct Ctx {
    dir: PathBuf,
    stage: String,
    tier: Tier,
    seeds: Vec<Seed>,
    items: Vec<Item>,
    skips: Vec<Vec<u64>>,
    refs: Vec<Vec<String>>,
    rt: tokio::runtime::Runtime,
    scratch: PathBuf,
}

fn progress(f: &std::fs::File, seq: u64) {
    let s = format!("{:>10} {:>20}\n", std::process::id(), seq);
    let _ = f.write_at(s.as_bytes(), 0);
}

/// Reference stage: the seed itself must be accepted; the errors for an
/// empty input and for an inverted first byte define "trivial" rejections.
fn run_ref(c: &Ctx, idx: usize) -> Value {
    let seed = &c.seeds[idx];
    let cur = std::fs::File::create(c.dir.join(format!("cur-{}-{}", c.stage, idx))).expect("cur file");
    let mut t = Tally::default();
    let mut inv = seed.bytes.clone();
    if !inv.is_empty() {
        inv[0] ^= 0xff;
    }
    let inputs: Vec<(Value, Vec<u8>)> = vec![
        (json!({"op": "none"}), seed.bytes.clone()),
        (json!({"op": "truncate", "len": 0}), vec![]),
        (json!({"op": "invert_first_byte"}), inv),
    ];
    let mut outs = vec![];
    for (k, (desc, input)) in inputs.iter().enumerate() {
        progress(&cur, k as u64 + 1);
        let x = exec(&c.rt, seed, input, &c.scratch);
        let r = judge(&mut t, seed, desc, input, x);
        outs.push(match r {
            Some(Ok(s)) => json!({"ok": s}),
            Some(Err(e)) => json!({"err": e}),
            None => json!({"violation": true}),
        });
    }
    let mut v = t.to_json();
    v["outs"] = json!(outs);
    v
}

/// Enumerate the cases of a chunk in order: (seq, desc, bytes). Pure.
fn chunk_cases(seed: &Seed, item: &Item, tier: Tier) -> Vec<(u64, Value, Vec<u8>)> {
    let values = byte_values(tier);
    let mut seen: HashSet<u64> = HashSet::new();
    seen.insert(h64(&seed.bytes));
    for i in item.from.saturating_sub(3)..item.from {
        for (_, m) in mutants_at(&seed.bytes, i, tier, &values) {
            seen.insert(h64(&m));
        }
    }
    let mut out = vec![];
    let mut seq = 0u64;
    for i in item.from..item.to {
        for (d, m) in mutants_at(&seed.bytes, i, tier, &values) {
            if seen.insert(h64(&m)) {
                seq += 1;
                out.push((seq, d, m));
            }
        }
    }
    out
}

fn run_item(c: &Ctx, idx: usize) -> Value {
    let item = &c.items[idx];
    let seed = &c.seeds[item.seed];
    let skip: HashSet<u64> = c.skips[idx].iter().copied().collect();
    let trivial = &c.refs[item.seed];
    let cur = std::fs::File::create(c.dir.join(format!("cur-{}-{}", c.stage, idx))).expect("cur file");
    let mut t = Tally::default();
    for (seq, desc, input) in chunk_cases(seed, item, c.tier) {
        if skip.contains(&seq) || seq <= item.lo || seq >= item.hi {
            continue;
        }
        progress(&cur, seq);
        let x = exec(&c.rt, seed, &input, &c.scratch);
        if t.samples.is_empty() && seq == 7 && item.from == 0 {
            t.samples.push(json!({"entry": seed.entry, "seed": seed.label, "mutation": desc, "input_hex": hex_short(&input),
                "outcome": match &x.result { Ok(Ok(s)) => format!("Ok({})", s), Ok(Err(e)) => format!("Err({})", e), Err(p) => format!("panic({})", p) }}));
        }
        match judge(&mut t, seed, &desc, &input, x) {
            Some(Ok(_)) => t.nontrivial += 1,
            Some(Err(e)) => {
                if !trivial.contains(&e) {
                    t.nontrivial += 1;
                }
            }
            None => t.nontrivial += 1,
        }
    }
    t.to_json()
}

fn group_static(g: &str) -> &'static str {
    match g {
        "binary" => "binary",
        "wire" => "wire",
        "file" => "file",
        _ => "string",
    }
}

fn load_seeds(path: &Path) -> Vec<Seed> {
    let v: Value = serde_json::from_slice(&std::fs::read(path).expect("seeds file")).expect("seeds json");
    v.as_array().unwrap().iter().map(|s| Seed {
        group: group_static(s["group"].as_str().unwrap()),
        entry: s["entry"].as_str().unwrap().to_string(),
        label: s["label"].as_str().unwrap().to_string(),
        bytes: hex::decode(s["hex"].as_str().unwrap()).unwrap(),
    }).collect()
}

fn save_seeds(path: &Path, seeds: &[Seed]) {
    let v: Vec<Value> = seeds.iter().map(|s| json!({"group": s.group, "entry": s.entry, "label": s.label, "hex": hex::encode(&s.bytes)})).collect();
    std::fs::write(path, serde_json::to_vec(&v).unwrap()).expect("write seeds");
}

fn worker(stage: String, tier: Tier) -> ! {
    let dir = PathBuf::from(std::env::var("FUZZX_DIR").expect("FUZZX_DIR"));
    let pid = std::process::id();
    // stderr of this worker goes to a file the parent can read after a crash
    if let Ok(f) = std::fs::File::create(dir.join(format!("stderr-{}", pid))) {
        use std::os::fd::IntoRawFd;
        let fd = f.into_raw_fd();
        unsafe {
            libc::dup2(fd, 2);
        }
    }
    install_hook();
    let rt = tokio::runtime::Builder::new_current_thread().enable_all().build().unwrap();
    // the parent's seed list (values holding a HashMap encode in an
    // order that depends on the process)
    let seeds = load_seeds(&dir.join("seeds.json"));
    let spec: Value = serde_json::from_slice(&std::fs::read(dir.join(format!("{}.json", stage))).expect("stage spec")).expect("stage json");
    let items: Vec<Item> = spec["items"].as_array().unwrap().iter().map(|v| Item {
        seed: v["seed"].as_u64().unwrap() as usize,
        from: v["from"].as_u64().unwrap() as usize,
        to: v["to"].as_u64().unwrap() as usize,
        lo: v["lo"].as_u64().unwrap_or(0),
        hi: v["hi"].as_u64().unwrap_or(u64::MAX),
    }).collect();
    let skips: Vec<Vec<u64>> = spec["items"].as_array().unwrap().iter().map(|v| v["skip"].as_array().map(|a| a.iter().filter_map(|x| x.as_u64()).collect()).unwrap_or_default()).collect();
    let refs: Vec<Vec<String>> = spec["refs"].as_array().map(|a| a.iter().map(|r| r.as_array().unwrap().iter().filter_map(|x| x.as_str().map(|s| s.to_string())).collect()).collect()).unwrap_or_default();
    let cap = case_cap_ms(tier);
    let tdir = dir.clone();
    std::thread::spawn(move || loop {
        std::thread::sleep(std::time::Duration::from_millis(100));
        let s = CASE_START_MS.load(Ordering::SeqCst);
        if s != 0 && now_ms().saturating_sub(s) > cap {
            let _ = std::fs::write(tdir.join(format!("timeout-{}", pid)), b"t");
            unsafe { libc::_exit(87) }
        }
    });
    let c = Ctx { scratch: dir.join(format!("scratch-{}", pid)), dir, stage: stage.clone(), tier, seeds, items, skips, refs, rt };
    if stage == "ref" {
        pool::worker_loop(|idx| run_ref(&c, idx))
    } else {
        pool::worker_loop(|idx| run_item(&c, idx))
    }
}

// ---------------------------------------------------------- parent

fn rt() -> tokio::runtime::Runtime {
    tokio::runtime::Builder::new_current_thread().enable_all().build().unwrap()
}

struct Crash {
    seq: u64,
    kind: &'static str,
    reason: String,
    stderr: String,
}

fn crash_info(dir: &Path, stage: &str, idx: usize, why: &str) -> Option<Crash> {
    let cur = std::fs::read_to_string(dir.join(format!("cur-{}-{}", stage, idx))).ok()?;
    let mut it = cur.split_whitespace();
    let pid: u32 = it.next()?.parse().ok()?;
    let seq: u64 = it.next()?.parse().ok()?;
    let stderr = std::fs::read_to_string(dir.join(format!("stderr-{}", pid))).unwrap_or_default();
    let tail: String = stderr.chars().rev().take(400).collect::<Vec<_>>().into_iter().rev().collect();
    let timed_out = dir.join(format!("timeout-{}", pid)).exists() || why.starts_with("timeout");
    if timed_out {
        return Some(Crash { seq, kind: "timeout", reason: "case_exceeded_time_cap".into(), stderr: tail });
    }
    let reason = if tail.contains("memory allocation of") {
        "memory_allocation_failed".to_string()
    } else if tail.contains("overflowed its stack") {
        "stack_overflow".to_string()
    } else {
        // "worker died: Some(ExitStatus(unix_wait_status(N)))"
        let n: i32 = why.rsplit('(').next().and_then(|s| s.trim_end_matches(')').parse().ok()).unwrap_or(-1);
        if n >= 0 && n & 0x7f != 0 {
            format!("signal_{}", n & 0x7f)
        } else if n >= 0 {
            format!("exit_code_{}", n >> 8)
        } else {
            "worker_died".to_string()
        }
    };
    Some(Crash { seq, kind: "abort", reason, stderr: tail })
}

fn merge(run: &mut Run, v: &Value, tot: &mut Totals, entry: &str) {
    let ev = v["evals"].as_u64().unwrap_or(0);
    tot.evals += ev;
    tot.nontrivial += v["nontrivial"].as_u64().unwrap_or(0);
    tot.ok += v["ok"].as_u64().unwrap_or(0);
    tot.err += v["err"].as_u64().unwrap_or(0);
    tot.contained += v["contained"].as_u64().unwrap_or(0);
    *tot.per_entry.entry(sig_entry(entry).to_string()).or_insert(0) += ev;
    if let Some(a) = v["contained_msgs"].as_array() {
        for m in a {
            if tot.contained_msgs.len() < 60 {
                tot.contained_msgs.insert(m.as_str().unwrap_or("").to_string());
            }
        }
    }
    if let Some(fs) = v["fails"].as_array() {
        for f in fs {
            run.fail_n(f["sig"].as_str().unwrap(), f["what"].as_str().unwrap(), f["witness"].clone(), f["count"].as_u64().unwrap());
        }
    }
    if let Some(ss) = v["samples"].as_array() {
        for s in ss {
            if tot.sample_entries.insert(sig_entry(entry).split('<').next().unwrap_or("").to_string()) {
                push_sample(&mut tot.samples, s.clone(), 10);
            }
        }
    }
}

#[derive(Default)]
struct Totals {
    evals: u64,
    nontrivial: u64,
    ok: u64,
    err: u64,
    contained: u64,
    contained_msgs: BTreeSet<String>,
    per_entry: BTreeMap<String, u64>,
    samples: Vec<Value>,
    sample_entries: BTreeSet<String>,
    crashes: u64,
}

fn main() {
    let args = Args::parse();
    let tier = args.tier;
    vals::set_deep(tier == Tier::Thorough);
    if let Some(stage) = pool::worker_stage() {
        worker(stage, tier);
    }
    if std::env::var("FUZZX_REPLAY_CHILD").is_ok() {
        replay_child(&args);
    }
    if let Some(path) = &args.replay {
        std::process::exit(replay(path));
    }
    let mut run = Run::new("C15", "exploration", &args);
    let wd = vkit::fsutil::WorkDir::new("fuzzx");
    let dir = wd.path().to_path_buf();
    let seeds = rt().block_on(build_seeds());
    save_seeds(&dir.join("seeds.json"), &seeds);
    let mut opts = PoolOpts::default();
    opts.item_timeout = std::time::Duration::from_secs(tier.pick(120, 600));
    opts.mem_limit = 2 << 30;
    opts.env = vec![("FUZZX_DIR".into(), dir.display().to_string())];
    let mut tot = Totals::default();

    // reference stage
    std::fs::write(dir.join("ref.json"), json!({"items": [], "refs": []}).to_string()).unwrap();
    let res = pool::run_stage("ref", seeds.len(), &opts);
    let mut refs: Vec<Vec<String>> = vec![];
    for (i, r) in res.into_iter().enumerate() {
        let seed = &seeds[i];
        match r {
            pool::ItemResult::Done(v) => {
                merge(&mut run, &v, &mut tot, &seed.entry);
                let outs = v["outs"].as_array().cloned().unwrap_or_default();
                if outs.first().map(|o| o.get("ok").is_none()).unwrap_or(true) {
                    run.machinery(format!("seed {} / {} is not accepted by its own entry point: {}", seed.entry, seed.label, outs.first().cloned().unwrap_or(Value::Null)));
                }
                refs.push(outs.iter().skip(1).filter_map(|o| o["err"].as_str().map(|s| s.to_string())).collect());
            }
            pool::ItemResult::Crashed(why) => {
                refs.push(vec![]);
                match crash_info(&dir, "ref", i, &why) {
                    Some(c) => {
                        let mut inv = seed.bytes.clone();
                        if !inv.is_empty() {
                            inv[0] ^= 0xff;
                        }
                        let (desc, input) = match c.seq {
                            1 => (json!({"op": "none"}), seed.bytes.clone()),
                            2 => (json!({"op": "truncate", "len": 0}), vec![]),
                            _ => (json!({"op": "invert_first_byte"}), inv),
                        };
                        tot.crashes += 1;
                        tot.evals += 1;
                        run.fail(&format!("{}:{}:{}", sig_entry(&seed.entry), c.kind, c.reason), &format!("worker process {} while decoding", if c.kind == "timeout" { "exceeded the per-case time cap" } else { "died" }), witness(seed, &desc, &input, json!({"stderr": c.stderr, "status": why})));
                    }
                    None => run.machinery(format!("reference stage: worker failed before reporting progress on seed {}: {}", i, why)),
                }
            }
        }
    }

    // mutation rounds
    let mut pending: Vec<(Item, Vec<u64>)> = plan(&seeds, tier).into_iter().map(|i| (i, vec![])).collect();
    let planned_items = pending.len();
    let max_rounds = 400;
    let mut round = 0;
    let mut capped = false;
    while !pending.is_empty() {
        round += 1;
        if round > max_rounds {
            capped = true;
            run.machinery(format!("crash-resume cap of {} rounds reached with {} chunks unfinished", max_rounds, pending.len()));
            break;
        }
        let stage = format!("r{}", round);
        let spec = json!({
            "refs": refs,
            "items": pending.iter().map(|(it, skip)| json!({"seed": it.seed, "from": it.from, "to": it.to, "lo": it.lo, "hi": it.hi, "skip": skip})).collect::<Vec<_>>(),
        });
        std::fs::write(dir.join(format!("{}.json", stage)), spec.to_string()).unwrap();
        let res = pool::run_stage(&stage, pending.len(), &opts);
        let mut next = vec![];
        for (i, r) in res.into_iter().enumerate() {
            let (item, skip) = &pending[i];
            let seed = &seeds[item.seed];
            match r {
                pool::ItemResult::Done(v) => merge(&mut run, &v, &mut tot, &seed.entry),
                pool::ItemResult::Crashed(why) => match crash_info(&dir, &stage, i, &why) {
                    Some(c) if !skip.contains(&c.seq) && c.seq > item.lo && c.seq < item.hi => {
                        let cases = chunk_cases(seed, item, tier);
                        let Some((_, desc, input)) = cases.into_iter().find(|(s, _, _)| *s == c.seq) else {
                            run.machinery(format!("crash progress {} outside chunk {:?}", c.seq, item));
                            continue;
                        };
                        tot.crashes += 1;
                        tot.evals += 1;
                        tot.nontrivial += 1;
                        *tot.per_entry.entry(sig_entry(&seed.entry).to_string()).or_insert(0) += 1;
                        run.fail(
                            &format!("{}:{}:{}", sig_entry(&seed.entry), c.kind, c.reason),
                            &format!("worker process {} while decoding", if c.kind == "timeout" { "exceeded the per-case time cap" } else { "died (abort / signal)" }),
                            witness(seed, &desc, &input, json!({"stderr": c.stderr, "status": why})),
                        );
                        // the part before the crash completes without it;
                        // the part after it may crash again
                        let _ = skip;
                        if c.seq > item.lo + 1 {
                            next.push((Item { hi: c.seq, ..item.clone() }, vec![]));
                        }
                        next.push((Item { lo: c.seq, ..item.clone() }, vec![]));
                    }
                    _ => run.machinery(format!("worker failed on chunk {:?} without usable progress information: {}", item, why)),
                },
            }
        }
        pending = next;
    }

    // coverage
    let mut groups: BTreeMap<&str, (u64, u64)> = BTreeMap::new();
    let mut restricted = vec![];
    let mut entries: BTreeSet<String> = BTreeSet::new();
    for s in &seeds {
        let g = groups.entry(s.group).or_insert((0, 0));
        g.0 += 1;
        g.1 += s.bytes.len() as u64;
        entries.insert(sig_entry(&s.entry).to_string());
        if tier == Tier::Quick && s.bytes.len() > 512 {
            restricted.push(json!({"entry": s.entry, "seed": s.label, "len": s.bytes.len()}));
        }
    }
    if tot.ok == 0 || tot.err == 0 {
        run.machinery("vacuous: mutants were never accepted or never rejected");
    }
    run.assume("inputs are single-point mutations of valid encodings (one seed per variant); multi-point corruptions are outside the enumerated space");
    run.assume("a panic contained by spawn_blocking inside WireEncodeDecode::decode and returned as Err is the mechanism the property names and counts as an error (reported in wire_panics_contained)");
    run.assume("allocation is measured by a counting global allocator in the worker (requested bytes, peak growth during the case); the harness' own copies of the input are made before the measurement window");
    run.assume("the harness is built with the dev profile (overflow checks on): arithmetic overflow panics that a release build would wrap are reported as panics");
    let exhaustive = restricted.is_empty() && !capped;
    let mut cov = Map::new();
    cov.insert("evaluations".into(), json!(tot.evals));
    cov.insert("distinct_nontrivial".into(), json!(tot.nontrivial));
    cov.insert("rule".into(), json!(format!("per (entry point, seed) and byte position i: truncation to i bytes; 8 bit flips; byte := each of {} values; u32 (le and be) := {{0,1,0x7fffffff,0xffffffff,n+1,16MiB+1}}; mutants equal to the seed or to an earlier mutant of the same seed are dropped before execution (hash of the bytes), so every evaluation is a distinct input. non-trivial = the decoder returned Ok, or an Err whose message differs from the two first-check rejections of that seed (empty input, inverted first byte), or violated the oracle (conservative: deep truncations that end in the same EOF message count as trivial)", byte_values(tier).len())));
    cov.insert("samples".into(), json!(tot.samples));
    cov.insert("entry_points".into(), json!(entries));
    cov.insert("cases_per_entry_point".into(), json!(tot.per_entry));
    cov.insert("seeds".into(), json!(groups.iter().map(|(k, v)| (k.to_string(), json!({"seeds": v.0, "bytes": v.1}))).collect::<Map<String, Value>>()));
    cov.insert("outcomes".into(), json!({"ok": tot.ok, "err": tot.err, "worker_crashes_attributed": tot.crashes}));
    cov.insert("wire_panics_contained".into(), json!({"count": tot.contained, "messages": tot.contained_msgs}));
    cov.insert("chunks".into(), json!(planned_items));
    cov.insert("crash_resume_rounds".into(), json!(round));
    cov.insert("limits".into(), json!({"rlimit_as_bytes": opts.mem_limit, "case_time_cap_ms": case_cap_ms(tier), "alloc_limit": "max(64 MiB, 64 x input length)"}));
    cov.insert("exhaustive".into(), json!(exhaustive));
    if !restricted.is_empty() {
        cov.insert("restricted_windows".into(), json!({"what": "seeds longer than 512 bytes: truncation at every offset, per-byte operators on the first 256 and last 64 bytes only", "seeds": restricted}));
    }
    // malformed, correctly signed bodies over HTTP against the live
    // in-process server (httpx engine), merged into this evidence
    if std::env::var("VKIT_FRAGMENT").is_err() {
        let frag = std::env::temp_dir().join(format!("httpx-fragment-{}.json", std::process::id()));
        let frag = if std::path::Path::new("/dev/shm").is_dir() { std::path::PathBuf::from(format!("/dev/shm/httpx-fragment-{}.json", std::process::id())) } else { frag };
        let httpx = std::env::current_exe().unwrap().with_file_name("httpx");
        let st = std::process::Command::new(&httpx)
            .args(["--prop", "C15", "--tier", tier.as_str()])
            .env("VKIT_FRAGMENT", &frag)
            .env_remove("VKIT_WORKER")
            .stdout(std::process::Stdio::null())
            .stderr(std::process::Stdio::null())
            .status();
        match st {
            Ok(s) if s.success() => {
                let v: Value = serde_json::from_slice(&std::fs::read(&frag).unwrap_or_default()).unwrap_or(json!({}));
                if let Some(fs) = v["failures"].as_array() {
                    for f in fs {
                        run.fail_n(f["sig"].as_str().unwrap(), f["what"].as_str().unwrap(), f["witness"].clone(), f["count"].as_u64().unwrap_or(1));
                    }
                }
                let c = &v["evidence"]["coverage"];
                cov.insert("http_level".into(), json!({"requests": c["evaluations"], "responses_by_status": c["responses_by_status"], "requests_per_route": c["requests_per_route"], "rule": c["rule"]}));
                if c["evaluations"].as_u64().unwrap_or(0) == 0 {
                    run.machinery("vacuous: httpx sent no request");
                }
            }
            other => run.machinery(format!("httpx fragment failed: {:?}", other)),
        }
        let _ = std::fs::remove_file(&frag);
    }
    let code = run.finish(cov);
    drop(wd);
    std::process::exit(code);
}

// ---------------------------------------------------------- replay

fn replay_input(seeds: &[Seed], w: &Value) -> Option<(Seed, Vec<u8>)> {
    let seed = seeds.iter().find(|s| Some(s.entry.as_str()) == w["entry"].as_str() && Some(s.label.as_str()) == w["seed"].as_str())?.clone();
    if let Some(h) = w["input_hex"].as_str() {
        if let Ok(b) = hex::decode(h) {
            return Some((seed, b));
        }
    }
    let m = &w["mutation"];
    let mut b = seed.bytes.clone();
    let off = m["offset"].as_u64().unwrap_or(0) as usize;
    match m["op"].as_str()? {
        "none" => {}
        "truncate" => b.truncate(m["len"].as_u64()? as usize),
        "invert_first_byte" => b[0] ^= 0xff,
        "bit_flip" => b[off] ^= 1 << m["bit"].as_u64()?,
        "set_byte" => b[off] = m["value"].as_u64()? as u8,
        "set_u32" => {
            let v = m["value"].as_u64()? as u32;
            let bytes = if m["endian"] == "le" { v.to_le_bytes() } else { v.to_be_bytes() };
            b[off..off + 4].copy_from_slice(&bytes);
        }
        _ => return None,
    }
    Some((seed, b))
}

fn replay_child(args: &Args) -> ! {
    let path = args.replay.clone().expect("replay path");
    let v: Value = serde_json::from_slice(&std::fs::read(&path).expect("read")).expect("json");
    let lim = libc::rlimit { rlim_cur: 2 << 30, rlim_max: 2 << 30 };
    unsafe {
        libc::setrlimit(libc::RLIMIT_AS, &lim);
    }
    install_hook();
    let rt = rt();
    let seeds = rt.block_on(build_seeds());
    let Some((seed, input)) = replay_input(&seeds, &v["witness"]) else {
        println!("cannot reconstruct input");
        std::process::exit(2);
    };
    let wd = vkit::fsutil::WorkDir::new("fuzzx-replay");
    let mut t = Tally::default();
    let x = exec(&rt, &seed, &input, &wd.path().join("scratch"));
    let r = judge(&mut t, &seed, &v["witness"]["mutation"], &input, x);
    println!("outcome={:?} violations={:?}", r, t.fails.keys().collect::<Vec<_>>());
    drop(wd);
    std::process::exit(if t.fails.is_empty() { 0 } else { 1 });
}

fn replay(path: &Path) -> i32 {
    let exe = std::env::current_exe().unwrap();
    let mut outs = vec![];
    for _ in 0..2 {
        let o = std::process::Command::new(&exe)
            .args(["--replay", &path.display().to_string()])
            .env("FUZZX_REPLAY_CHILD", "1")
            .stderr(std::process::Stdio::null())
            .output()
            .expect("spawn replay child");
        outs.push((o.status.code(), String::from_utf8_lossy(&o.stdout).to_string()));
    }
    if outs[0] != outs[1] {
        eprintln!("MACHINERY-ERROR non-deterministic replay: {:?}", outs);
        return 2;
    }
    println!("replay: status={:?} {}", outs[0].0, outs[0].1.trim());
    match outs[0].0 {
        Some(0) => 0,
        Some(2) => 2,
        _ => {
            println!("VIOLATION property=C15 replay={}", path.display());
            1
        }
    }
}
