#!/usr/bin/env python3
"""Regenerates /verif/MANIFEST.json from the table below (kept in one place so
that claimed checks / not_applicable stay consistent)."""
import json, os
HERE = os.path.dirname(os.path.dirname(os.path.abspath(__file__)))
ALL = ["C%02d" % i for i in range(1, 21)]

# property -> dict(engine, level, text, note, technique, design_ref)
CHECKS = {
 "C08": dict(engine="treex", level="exploration",
   text="Every ordered pair of leaf sequences over a 2- and 3-letter alphabet up to the stated length is built as two real CommitTrees; compare/contains on the head proof and verify_leaves for a single-leaf proof at every index are compared with the prefix relation on the raw sequences. Complete within the bound (no sampling), so any wrong answer on short logs (the shapes sync actually meets: duplicate tail events, unequal lengths) is found.",
   note="SHA-256 / rs_merkle collision freedom; nothing claimed beyond the length bound.",
   technique="bounded exhaustive enumeration of all input pairs against a reference (prefix) model, executed on the real CommitTree/CommitProof code",
   design_ref="DESIGN.md §5 C08"),
 "C18": dict(engine="archx", level="model_checking",
   text="Round trips: accounts built with real API calls (flagged + described folder, several kinds, renamed folder, deleted secret, external file) followed by every enabled suffix of length <=1 (<=2 thorough) over 10 (13) operations, plus special shapes, exported and imported into empty storage for fs->v2->fs, sqlite->v3->sqlite and fs->v2->upgrade->v3->sqlite; the restored account must sign in with the same password and serve the same deep view and the same attachment bytes, and nothing outside the import target may change. Hostile archives: every single-entry mutation of a valid archive (content byte flips, checksum digits, missing / duplicated entries, renames to 12 escaping names, manifest account id / version; 5 800 archives quick, 53 000 thorough): import never panics, a checksum mismatch is refused without creating an account, no write outside the target.",
   note="Blobs carry no manifest checksum (modified blobs are accepted by design); trusted devices and commit roots of rebuilt logs are reported, not required; the zip container itself is covered by C15-style mutation only through entries.",
   technique="bounded exhaustive enumeration of account histories x archive formats and of all single-entry mutations of a valid archive, on the real export/import code",
   design_ref="DESIGN.md §5 C18"),
 "C19": dict(engine="upgx", level="model_checking",
   text="Source trees built with real API calls (client and server layouts; 1-2 accounts per directory; never synced / synced to a real in-process server / synced then edited; flagged, described, deleted and renamed folders, XChaCha20+Balloon folder, custom fields, attachment, preferences, second trusted device, two server origins): dry run (source digest unchanged, no database created), then the real upgrade; per account sync status of every log, record streams event-for-event with timestamps, deep view, folders, devices, preferences, origins, blob bytes and decrypted attachments are equal before (fs) and after (sqlite); an upgraded client syncs cleanly against the old server, an old client against the upgraded server, and upgraded against upgraded.",
   note="The second half of the property (same history on both backends gives the same account) is decided by the hist engine (C01 differential). Audit logs and system messages are not named by the property and not compared.",
   technique="bounded exhaustive enumeration of source trees from real histories with a before/after differential oracle on the real upgrader",
   design_ref="DESIGN.md §5 C19"),

 "C03": dict(engine="leakx", level="model_checking",
   text="Every operation sequence of depth 2 (quick; 3 thorough, both backends) over a 14-operation alphabet (create/update/delete/move/archive secret, compact folder/account, change folder password, set description, delete folder, change account password, change cipher, export backup archive, sync) is run from a two-folder baseline account with a distinct marker for every plaintext introduced at every position, followed by a sync through a recording TCP tee and a scan of everything stored and sent. In addition, for every one of the 15 secret kinds x client backend a real account is driven through a fixed history (create with marker values, update, folder with marker description, attachment, backup archive export, folder export, sync to a real in-process server through a recording TCP tee, further edit + sync, second device pulls, delete/update conflict resolved by auto merge); in addition device pairing is run in both protocol directions on both backends between a real NetworkAccount and an empty device through the server's websocket relay (also through the tee), followed by enrollment, an edit on the paired device and syncs. Every user-supplied plaintext, every delegated folder password, the account password, the device signing keys (including the one transported to the paired device) and the pairing pre-shared key are markers. Every file under both client directories and the server directory (SQLite files and WAL, event logs, vaults, blobs, archives raw and inflated) and every byte captured on the wire in both directions is scanned for every marker in raw, hex, base64 (std/url, 3 alignments), UTF-16 LE/BE and JSON-escaped form. The SDK's real file logger is installed at trace level (the most verbose a user can configure) and its files are scanned like any other storage; every history ends with a fresh sign-in that rebuilds the search index from the decrypted folders. Positive controls (planted marker; markers present in the decrypted view) must succeed on every run.",
   note="Decides absence of the enumerated encodings, not cryptographic secrecy; the secret-kind dimension uses one fixed 11-step history per kind, the history dimension uses note/login/card secrets only (kinds x histories is not a full product).",
   technique="exhaustive enumeration of bounded operation histories, secret kinds x backends, pairing directions and marker encodings over all stored bytes and all wire bytes of real client/server runs",
   design_ref="DESIGN.md §5 C03"),

 "C09": dict(engine="schedx", level="model_checking",
   text="Stateless CHESS-style schedule exploration of the real client auto-merge code (default AutoMerge/RemoteSyncHandler methods over a real LocalAccount) against a real in-process server: one execute_sync call per device, a gate at every protocol request (exists, status, sync, scan, diff, patch, ...) inside the harness's SyncClient wrapper; deviation-bounded DFS over choice vectors (preemption bound 2 quick / 4 thorough) for pre-histories {one ahead, soft conflict equal/unequal length, same secret edited on both, three devices, hard conflict (one device compacted the folder after an update while the other appended to the old history); a staggered three-device pre-history built with real sequential syncs (different ancestors: one device's older event is merged in front of events the other already holds); thorough adds: no divergence, both rename, hard conflict through a folder password change}. Per step: the server's logs never lose an event they held (except the folder log a device rewrote on purpose in the hard-conflict pre-histories), read requests change nothing; per execution: every sync call ends (no deadlock, no horizon overflow), no event the server ever held is absent at the end, three further sequential rounds converge, and a server restarted on the same storage holds exactly the logs the live server held.",
   note="Scheduling points are protocol requests (sound for devices that share only the server; the server handles one request at a time in the harness); interleavings inside one handler are not explored; replayed prefixes must reproduce (divergence is a machinery error).",
   technique="stateless deviation-bounded (preemption-bounded) DFS over request-level interleavings of real concurrent sync calls",
   design_ref="DESIGN.md §5 C09"),

 "C13": dict(engine="crashx", level="fault_enumeration",
   text="For each of 11 mutating operations (create/update/delete/move secret, rename/re-flag/describe/create/delete folder, compact folder, change folder password) and for two interrupted syncs against a real in-process server (a fast-forward pull of the other device's events; an auto merge that rewinds and re-applies) on the file-system backend the real operation is executed by a driver process under strace; every file-system effect between two marker syscalls is replayed on the pre-state and one crash image is materialised after every effect and for every torn prefix of every write (all byte prefixes in thorough; stride 24 plus fixed offsets in quick). The replay is validated on every run against the real after-state (byte for byte). On the SQLite backend the driver exits without closing the database and every WAL prefix (each frame boundary and one byte either side) is a crash image. Every image is opened through LocalAccount::new_unauthenticated + sign_in and judged: opens; every event log equals its state before or after the operation; the folder served equals the replay of its log.",
   note="Crash model = process death (completed syscalls persist in order; writes may be torn at any byte); power-loss reordering out of scope (the code never fsyncs). SQLite's own recovery is trusted (WAL prefixes are exactly the states it recovers to); the database file must not change during the operation (checked).",
   technique="exhaustive enumeration of crash points and torn-write prefixes of the real syscall trace of each operation, each image judged by re-opening with the real code",
   design_ref="DESIGN.md §5 C13"),

 "C11": dict(engine="authx", level="model_checking",
   text="Explicit exploration of server state x access configuration x route x credential form with raw HTTP requests against a real in-process server: states {D1 trusted; D1+D2 trusted; D2 revoked; D2 re-trusted and revoked within one device-log patch; every device revoked (no trusted device left, D1's own signature must then be refused too)} are reached LIVE on the serving process through real client syncs (so the server's in-memory trusted-device set is the one its handlers produced), 16 route/method pairs (account, status, events scan/diff/patch, files compare, file put/get/delete/move, websocket change feed upgrade), 12 credential forms (none, non-base58, wrong length, legacy dotted, unknown key, D2, D1 over other bytes, another account's device, missing / malformed account header, D1 addressed to account B, valid), access configs none / allow A / allow B / deny A / deny B. Oracle: a request that must be refused is never answered 2xx (or 101 for the websocket upgrade) and leaves every file of the server directory and both accounts' sync status unchanged.",
   note="Requests are sent one at a time; the combined allow+deny configuration is outside the property's quantifier; the websocket upgrade route is not driven; Ed25519 is trusted.",
   technique="explicit-state exploration of (server state x config x route x credential) on the real server; state-unchanged invariant after every refused request",
   design_ref="DESIGN.md §5 C11"),

 "C14": dict(engine="codecx", level="exploration",
   text="Structure enumerator over 23 binary types (incl. all 15 secret kinds x 11 user-data shapes, SecretMeta with every field varied independently and in combination, all event variants, proofs from real trees, boundary timestamps), 30 protobuf wire types and the database row conversions: decode(encode(x)) is compared with x under the harness's own deep projection (the repository's partial PartialEq impls are not trusted), encoding twice is byte-identical and, for types hashed into commits, encode(decode(encode(x))) == encode(x). Cartesian within the stated per-type bounds.",
   note="Plaintext types containing HashSet/HashMap are compared as sets only; the shared-access list of a vault header is not compared for database folder rows (no column; unused feature); nothing is claimed for values outside the enumerated shapes.",
   technique="bounded exhaustive enumeration of structured values per type against a deep-equality round-trip oracle on the real encoders/decoders",
   design_ref="DESIGN.md §5 C14"),
 "C15": dict(engine="fuzzx", level="exploration",
   text="Mutation enumerator over one valid encoding per variant (137 seeds quick / 405 thorough) and 76 entry points (binary decoders, decode_event, wire decoders, relay packets, FormatStream forward and reverse over mutated event-log and vault files, load_tree, diff_records, header readers, FromStr parsers): truncation at every offset, every bit flip, every byte to boundary values (all 256 in thorough), every aligned/unaligned u32 position to boundary lengths. Each case runs in a worker under RLIMIT_AS with a watchdog and a counting allocator: panic, abort, timeout and allocation out of proportion are violations attributed to the exact input.",
   note="Overflow checks are on (dev profile): arithmetic overflow counts as a panic; wire panics contained by spawn_blocking are errors by design and only counted; archives and live HTTP are covered by other checks when built.",
   technique="bounded exhaustive enumeration of single-point mutations of valid encodings, executed on the real decoders in isolated subprocesses",
   design_ref="DESIGN.md §5 C15"),

 "C04": dict(engine="syncx", level="model_checking",
   text="Every world within the bounds is executed on a real in-process server (axum on loopback, real ServerStorage) and real LocalAccounts bridged by the real sos_net::RemoteBridge: all pairs of offline suffixes (length <=1 over 12 edit kinds touching folder, account and identity logs incl. byte-identical events; length <=2 over 4 kinds, all unequal-length combinations) x both sync orders x clock patterns (one device older / all timestamps tied; thorough adds the reverse, interleaved clocks, 3 devices, sqlite on client and server), followed by rounds until quiescent. Oracle: after the rounds every device's sync status equals the server's for every log unless its last sync reported an error; replicas with equal status serve equal decrypted folders, including a third device that only pulls.",
   note="Devices are driven one at a time (interleavings are C09's business); timestamps come from per-device logical clocks (hook H1); a device whose sync keeps returning an error is not counted as a violation because the property speaks about successful syncs (such worlds are counted in the evidence).",
   technique="bounded exhaustive enumeration of sync worlds (offline-suffix tuples x sync orders x clock patterns) executed on the real client/server implementation",
   design_ref="DESIGN.md §5 C04"),
 "C05": dict(engine="syncx", level="model_checking",
   text="On the same worlds as C04: for every log on which all replicas converged, the log must be the common prefix followed by exactly the multiset union of the devices' offline suffixes (byte-identical events made on several devices counted once): nothing lost, nothing duplicated, nothing added, prefix untouched, the events unique to one device in timestamp order and each device's own events in the order it committed them; and every converged folder must equal the replay (independent reference reducer) of the shared prefix followed by all devices' offline events in timestamp order (worlds without timestamp ties), so that the latest edit wins and a deleted secret stays deleted unless edited later. Quick also runs the two-events-on-both-sides worlds in which both suffixes contain the same byte-identical event next to another event.",
   note="As C04; logs that did not converge are C04's business and are skipped (count reported).",
   technique="bounded exhaustive enumeration of sync worlds with a multiset-union merge model as oracle on the converged logs",
   design_ref="DESIGN.md §5 C05"),

 "C10": dict(engine="cryptx", level="exploration",
   text="Complete enumeration, on the real cipher / KDF / vault code, of: every single-bit flip of nonce and ciphertext, every truncation, extensions, nonce-kind swap and every cross-splice within a pool of packs, per cipher and plaintext length (incl. empty); all ordered pairs of a password x salt x seed x KDF pool (keys distinct, cross decrypt fails); every access-point history up to the depth over unlock-right/unlock-wrong/lock/create/read/update (a wrong password never unlocks, nothing is ever written or read under a wrong key); nonce freshness over repeated encryptions and over every blob stored by the hist engine's account histories; age/X25519 round trip, wrong identity and bit flips.",
   note="AEAD/KDF primitives and the OS RNG are trusted; multi-MB plaintexts are not mutated exhaustively; RNG nonce uniqueness beyond the explored executions is a probabilistic claim outside this technique.",
   technique="bounded exhaustive enumeration of mutations / key pairs / access-point operation sequences on the real code",
   design_ref="DESIGN.md §5 C10"),

 "C06": dict(engine="logx", level="model_checking",
   text="Explicit-state breadth-first search over the real FileSystemEventLog and DatabaseEventLog driven in lock-step through the EventLog trait: three co-resident folder logs (two accounts sharing one SQLite table / directory tree), byte-identical events within and across logs, every operation of the trait (append, records with an old time, checked/unchecked patch, rewind to every index, clear, replace-all). After every transition every log is re-opened from storage and compared with the live tree and with a vector model (leaves, root, order, timestamps, reverse iteration, diff_records), untouched logs must be unchanged and both backends must agree. All states up to the depth bound are visited; every transition is an execution of the implementation.",
   note="State abstraction = per-log sequence of event letters; SQLite and the OS file system are trusted; depth bound 3 (quick) / 5 (thorough); folder logs only (the other log types share the same generic implementation).",
   technique="explicit-state BFS (bounded depth) over the real implementation with a reference model oracle, both storage backends in lock-step",
   design_ref="DESIGN.md §5 C06"),
 "C07": dict(engine="logx", level="model_checking",
   text="Same search as C06; the alphabet contains every kind of checkpoint for a checked patch (current head, every stale head, head of a diverged sibling, forged root), rewind to an absent commit and replace-all with a wrong checkpoint. Oracle: Success iff the checkpoint is the model head; after every request the model refuses, every log (records, order, timestamps, tree) must be exactly as before and no snapshot file may be left behind.",
   note="As C06. The server-helper level (rewind+patch requests, rollback) is explored by the sync-world engine when built.",
   technique="explicit-state BFS (bounded depth) over the real implementation; refusal-leaves-state-unchanged invariant checked after every refused transition",
   design_ref="DESIGN.md §5 C07"),
 "C01": dict(engine="hist", level="model_checking",
   text="Explicit-state BFS over persisted account states of a real LocalAccount on both backends. Every transition copies the parent's data directory, signs in with a fresh account object (reload from storage), applies one Account operation (create/update/move/delete/archive/unarchive secret; create/rename/re-flag/describe/delete folder; empty and 1 MiB values) and compares the full decrypted view (list_folders, list_secret_ids, read_secret of every id, descriptions) with a reference model: right after the operation, after lock+unlock of every folder, after sign-out/sign-in (thorough) and after a fresh sign-in on the persisted result. Starts from a non-empty account so that row-splicing cases are reached at depth 1-2. The same histories are executed on fs and sqlite and must reach the same canonical state. A value sweep creates every secret value of the structure enumerator (all 15 kinds x every optional field present / absent x user-data shapes; 1 560 values over both backends) through the account and reads it back at once and after a fresh sign-in. The user folder of the initial state uses XChaCha20-Poly1305, the others AES-GCM-256.",
   note="Bounded depth (2 quick / 3 thorough) from a two-folder, two-secret initial account; kinds note/login(/file); AES-GCM default cipher (XChaCha20 reached through change_cipher in C12); caller-chosen ids at the Folder API not yet explored.",
   technique="explicit-state BFS over real persisted account states with a reference-model oracle at every transition",
   design_ref="DESIGN.md §5 C01"),
 "C02": dict(engine="hist", level="model_checking",
   text="On every transition of the C01 search (local edits on both backends): the folder reduced from the persisted event log, the folder the account serves and the vault decoded from the mirror (vault file / folder rows) are decrypted and must be equal (name, flags, description, ids, meta, values) and equal to the model; and for every commit of every folder log, FolderReducer::new_until_commit must equal an independent reference reducer over the same record prefix. The same oracles run on every device after every sync step of the sync engine's conflict worlds (incl. compaction on one device; quick: sqlite client + server for those) and after forced overwrites: device 1 performs every operation (quick) / every sequence of two operations (thorough) of a 19-operation alphabet, device 2 (copy of the same account, with or without a local divergence) takes all of device 1's folder logs with force_merge_folder, and device 2's view must equal device 1's model, replay == served == mirror, live and after a fresh sign-in, on both backends.",
   note="Local histories by the hist engine, merge worlds by the sync engine (every device after every sync step), forced overwrites through the ForceMerge API (the hard-conflict resolver of the sync client calls the same function; no sync world reaches it by itself).",
   technique="explicit-state BFS over real account states; replay==served==mirror invariant and per-commit reference-reducer comparison at every transition",
   design_ref="DESIGN.md §5 C02"),
 "C12": dict(engine="hist", level="model_checking",
   text="BFS over edit prefixes followed by every word of maintenance operations (compact folder/account, change folder password, account password, cipher+kdf) up to the bound, on both backends. Oracles per transition: decrypted view unchanged (names, flags, descriptions, secrets) live, after lock/unlock and after a fresh sign-in; log = 1 creation event + live secrets; old folder password no longer verifies, new key unlocks; cipher really changed; old account password neither verifies nor signs in; no stored blob (event records, vault rows) decrypts under the old derived key or is byte-identical to an old blob; raw scan of the folder's storage at rest for old ciphertext bytes.",
   note="Blobs embedded in the append-only account event log (e.g. the folder header inside CreateFolder) are not counted as the folder's storage. WAL is checkpointed by the harness before the at-rest scan.",
   technique="explicit-state BFS over real account states with data-preservation and old-key-dead invariants",
   design_ref="DESIGN.md §5 C12"),
 "C16": dict(engine="hist", level="model_checking",
   text="Soundness half: at every transition of the C01 search (both backends) the account integrity report over all folders must contain no failure. Completeness half (engine integx, merged into the same run): on accounts built by real API calls on both backends (3 folders, a create/update/delete history, a 20 KiB file secret and a small attachment) every byte of every vault row's stored commit hash, encrypted meta and encrypted secret, of every folder event record's stored commit hash and payload and of every external blob is changed one at a time to 3 other values (quick: the 20 KiB blob at its first 64, last 64 and every 97th byte, sqlite cells at first/middle/last byte; thorough: every byte), and each folder's vault, event log and blob is removed one at a time; after each single mutation account_integrity (concurrency 1 and, for everything it flags, again with one task per folder) + file_integrity must contain a failure for the affected folder or file. Byte ranges come from the engine's own parser, cross-checked against FormatStream on every record; every mutation is undone and the restoration verified by digest and a clean report.",
   note="Completeness accounts are three built account variants per backend (plain history; after compaction, folder password change, archive, rename/description/flags; with a deleted folder, an AES-GCM folder and a changed account password), not the states of the history search. Framing bytes inside the hashed value, the previous-commit field of event records and removal of only the secret rows are not named by the property: evaluated and recorded as observations, never reported.",
   technique="explicit-state BFS over real account states with the no-false-alarm invariant at every state, plus exhaustive enumeration of single-byte corruptions and removals of stored content with the report as oracle",
   design_ref="DESIGN.md §5 C16"),
 "C17": dict(engine="filex", level="model_checking",
   text="(a) Every history up to depth 2 (quick; 3 thorough, both client backends, also from an account that already holds a file secret) over {create file secret (large content in the default folder | small content in the second folder), replace content (update_file), update meta only, move to the other folder, delete secret, delete the second folder, archive} x every live file secret, explored as a tree with directory snapshots; after every step and again after a fresh re-open: directory walk == list_external_files == FileReducer::reduce == reference model, every blob name == hex SHA-256 of its bytes, download_file returns the original content, the secret row's checksum equals the blob name, no stray files. (b) Every maximal history of depth 2 (3 thorough, fs and sqlite worlds, also performed offline before the server is added) through the real sos_net::NetworkAccount on two devices (its own sync and file transfer queue) against a real in-process server, the second device syncing after every step; once transfers settle: the server's directory and file-log replay, the second device's directory, file-log replay and decrypted content all equal the model; a third mode starts with a file secret present on both devices and lets the second device sync only once after the whole history, so that one merged patch carries several events about the same blob (move then delete, move back, replace, delete folder, attach/detach a file field). (c) Upload inputs against the live server as raw signed PUT requests on a real encrypted blob: the correct body, every single-byte alteration (3 values per position quick / all 255 thorough), truncation at every length, empty, extended bodies, wrong names, connection closed midway (a GET during the stall must not be 2xx), repeated upload; each followed by a correct upload and a byte-exact download; no .upload temp file may remain.",
   note="Each file encryption / decryption costs about 1 s of CPU (age scrypt), hence the shallow depth. At most one file field per secret. 'Settled' = no transfer in flight and no notification for 600 ms (10 s horizon); the transfer queue's internal task scheduling is not controlled. The second device shares the first device's device key (as the repository's tests do).",
   technique="exhaustive enumeration of bounded file-secret operation histories (tree search over real account states, one- and two-device worlds with a real server) and of single-point mutations of upload bodies, against a reference model of the blob set",
   design_ref="DESIGN.md §5 C17"),
 "C20": dict(engine="hist", level="model_checking",
   text="At every transition of the C01 search the account's incrementally maintained search index is compared with a fresh index rebuilt with add_folder over the same unlocked folders: documents (ids, folder, full meta), one document per live secret, counters (per folder, kind, tag, favourites; zero entries normalised) and query results for every label in play. The same comparison runs on every device after every sync step of the sync engine's conflict worlds and on device 2 after every forced overwrite case (see C02).",
   note="Local histories by the hist engine plus merge worlds by the sync engine (every device after every sync step).",
   technique="explicit-state BFS over real account states; incremental==rebuilt index invariant at every transition",
   design_ref="DESIGN.md §5 C20"),
}
PENDING_REASON = "check not built yet at this commit (work in progress; see DESIGN.md §5 for the planned model-checking engine)"

def main():
    checks = []
    for pid in ALL:
        c = CHECKS.get(pid)
        if not c: continue
        checks.append({
            "property_id": pid,
            "quick_cmd": f"./check {pid} --tier quick",
            "thorough_cmd": f"./check {pid} --tier thorough",
            "evidence_file": f"/verif/evidence/{pid}.json",
            "replay_cmd_template": f"./check {pid} --replay {{path}}",
            "engine": c["engine"],
            "level_claimed": {"category": c["level"], "text": c["text"], "design_ref": c["design_ref"]},
            "level_note": c["note"],
            "technique": c["technique"],
        })
    engines = {}
    for pid, c in CHECKS.items():
        engines.setdefault(c["engine"], []).append(pid)
    m = {
        "version": 1,
        "setup_cmd": "./check setup",
        "hooks": {
            "guard": "--cfg sos_verif",
            "enable": "RUSTFLAGS=--cfg sos_verif (set in /verif/harness/.cargo/config.toml, applied to the harness build which compiles /repo/crates/* as path dependencies)",
            "baseline_off_cmd": "cd /repo && cargo nextest run --workspace --no-fail-fast --tool-config-file pb:/w/lib/nextest.toml --profile pb --test-threads 8 --offline",
            "source_commits": json.load(open(os.path.join(HERE, "tools/hook_commits.json"))),
            "add_only": True,
        },
        "engines": [{"name": e, "path": f"/verif/harness/src/bin/{e}.rs", "serves_properties": sorted(p), "kind_free_text": "bounded exhaustive explorer over the real implementation (see DESIGN.md §3.4)"} for e, p in sorted(engines.items())],
        "checks": checks,
        "not_applicable": [{"property_id": p, "reason": PENDING_REASON} for p in ALL if p not in CHECKS],
        "notes": "Exit protocol: 0 held / 1 VIOLATION / 2 machinery failure. Known findings: /verif/known_findings.json.",
    }
    json.dump(m, open(os.path.join(HERE, "MANIFEST.json"), "w"), indent=1)
    print("wrote MANIFEST.json with", len(checks), "checks")
main()
