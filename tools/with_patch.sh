#!/usr/bin/env bash
# usage: with_patch.sh <patch.diff> <Cxx> [check args...]
# Applies a seeded change to /repo, runs the check against it and reverts it,
# holding the build lock so that no other check builds from the patched tree.
set -u
PATCH="$(readlink -f "$1")"; shift
HERE="$(cd "$(dirname "$0")/.." && pwd)"
exec 9>"$HERE/harness/.build.lock"
flock 9
if [ -n "$(git -C /repo status --porcelain)" ]; then echo "with_patch: /repo working tree is not clean" >&2; exit 2; fi
git -C /repo apply "$PATCH" || { echo "with_patch: patch does not apply" >&2; exit 2; }
VERIF_LOCK_HELD=1 "$HERE/check" "$@"
rc=$?
git -C /repo checkout -- .
git -C /repo clean -fdq -- crates tests 2>/dev/null
exit $rc
