//! Deterministic generators for secrets of every kind (values are a
//! function of (kind, variant, marker) only).
use secrecy::{SecretBox, SecretString};
use serde_json::Value;
use sos_test_utils::mock;
use sos_vault::secret::{
    IdentityKind, Secret, SecretMeta, SecretSigner,
};
use std::collections::{HashMap, HashSet};

pub const KINDS: [&str; 15] = [
    "note", "login", "file", "list", "pem", "page", "signer", "contact",
    "totp", "card", "bank", "link", "password", "identity", "age",
];

/// Fixed age identity strings (mock::age generates a random one).
const AGE_KEYS: [&str; 2] = [
    "AGE-SECRET-KEY-1GFPYYSJZGFPYYSJZGFPYYSJZGFPYYSJZGFPYYSJZGFPYYSJZGFPQ4EGAEX",
    "AGE-SECRET-KEY-1V3JKVEMGD94XKMRDDEHHQUTJWD682ANH0PUH57MU04L8LQYPS2PSGQPNYW",
];

/// Generate (meta, secret) for `kind`; `variant` selects one of a few
/// different values (0, 1: small values; 2: empty where meaningful;
/// 3: large (1 MiB) where meaningful); `marker` is embedded in every
/// free-text field.
pub fn secret(kind: &str, variant: u8, marker: &str) -> (SecretMeta, Secret) {
    let label = format!("{}-label-v{}-{}", kind, variant, marker);
    let text = match variant {
        2 => String::new(),
        3 => {
            let unit = format!("{}-large-{}|", kind, marker);
            unit.repeat(1024 * 1024 / unit.len() + 1)
        }
        v => format!("{}-value-v{}-{}-é✓", kind, v, marker),
    };
    let (mut meta, secret) = match kind {
        "note" => mock::note(&label, &text),
        "login" => mock::login(
            &label,
            &format!("user-{}", text),
            SecretString::new(format!("pw-{}", text).into()),
        ),
        "file" => mock::internal_file(
            &label,
            &format!("file-{}.txt", variant),
            "text/plain",
            text.as_bytes(),
        ),
        "list" => {
            let k1 = format!("k1-{}", marker);
            let v1 = format!("v1-{}", text);
            let mut m: HashMap<&str, &str> = HashMap::new();
            m.insert(&k1, &v1);
            m.insert("k2", "v2");
            mock::list(&label, m)
        }
        "pem" => mock::pem(&label),
        "page" => mock::page(&label, &format!("title-{}", marker), &text),
        "signer" => {
            let key: Vec<u8> =
                (0..32u8).map(|i| i ^ variant ^ 0x5a).collect();
            let secret = Secret::Signer {
                private_key: SecretSigner::SinglePartyEd25519(
                    SecretBox::new(key.into()),
                ),
                user_data: Default::default(),
            };
            let meta = SecretMeta::new(label.clone(), secret.kind());
            (meta, secret)
        }
        "contact" => {
            mock::contact(&label, &format!("Name V{} {}", variant, marker))
        }
        "totp" => mock::totp(&label),
        "card" => mock::card(
            &label,
            &format!("4111-{}", text),
            &format!("{}", 100 + variant as u32),
        ),
        "bank" => {
            mock::bank(&label, &format!("acc-{}", text), "routing-1")
        }
        "link" => mock::link(
            &label,
            &format!("https://example.com/{}/{}", variant, marker),
        ),
        "password" => mock::password(
            &label,
            SecretString::new(format!("pass-{}", text).into()),
        ),
        "identity" => mock::identity(
            &label,
            IdentityKind::IdCard,
            &format!("id-{}", text),
        ),
        "age" => {
            let secret = Secret::Age {
                version: Default::default(),
                key: AGE_KEYS[(variant % 2) as usize].to_string().into(),
                user_data: Default::default(),
            };
            let meta = SecretMeta::new(label.clone(), secret.kind());
            (meta, secret)
        }
        _ => panic!("unknown kind {}", kind),
    };
    // meta fields beyond the label
    let mut tags = HashSet::new();
    tags.insert(format!("tag-{}", kind));
    if variant % 2 == 1 {
        tags.insert(format!("tag-v{}-{}", variant, marker));
        meta.set_favorite(true);
    }
    meta.set_tags(tags);
    (meta, secret)
}

/// Canonical JSON (object keys sorted recursively).
pub fn canon_json(v: &Value) -> Value {
    match v {
        Value::Object(m) => {
            let mut keys: Vec<&String> = m.keys().collect();
            keys.sort();
            let mut out = serde_json::Map::new();
            for k in keys {
                out.insert(k.clone(), canon_json(&m[k]));
            }
            Value::Object(out)
        }
        Value::Array(a) => Value::Array(a.iter().map(canon_json).collect()),
        x => x.clone(),
    }
}

/// Deep projection of the meta data: every field except `lastUpdated`
/// (touched by every write) and `dateCreated`; tags sorted.
pub fn meta_view(meta: &SecretMeta) -> Value {
    let mut v = serde_json::to_value(meta).expect("meta json");
    if let Value::Object(m) = &mut v {
        m.remove("lastUpdated");
        m.remove("dateCreated");
        if let Some(Value::Array(tags)) = m.get_mut("tags") {
            tags.sort_by(|a, b| a.to_string().cmp(&b.to_string()));
        }
        if !m.contains_key("tags") {
            m.insert("tags".into(), Value::Array(vec![]));
        }
    }
    canon_json(&v)
}

/// Deep projection of the secret value (all fields, user data).
pub fn secret_view(secret: &Secret) -> Value {
    let mut v = serde_json::to_value(secret).expect("secret json");
    sort_tags(&mut v);
    canon_json(&v)
}

/// Tags are a set: their order in the JSON form (also inside the meta data
/// of custom fields) is not significant.
fn sort_tags(v: &mut Value) {
    match v {
        Value::Object(m) => {
            for (k, x) in m.iter_mut() {
                if k == "tags" {
                    if let Value::Array(a) = x {
                        a.sort_by(|a, b| a.to_string().cmp(&b.to_string()));
                    }
                } else {
                    sort_tags(x);
                }
            }
        }
        Value::Array(a) => a.iter_mut().for_each(sort_tags),
        _ => {}
    }
}
