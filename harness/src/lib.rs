//! vkit: shared machinery of the verification harness (see /verif/DESIGN.md §3).
pub mod acct;
pub mod clock;
pub mod fsutil;
pub mod gen;
pub mod pool;
pub mod run;
pub mod world;
pub mod vals;
