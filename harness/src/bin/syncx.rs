//! C04 / C05 — sync worlds: real server, real devices, every tuple of
//! offline suffixes x every sync order x clock patterns, explored
//! exhaustively within the bounds. Also evaluates (tagged) C02 / C20 on
//! every device after every sync step.
use anyhow::{anyhow, Result};
use serde::{Deserialize, Serialize};
use serde_json::{json, Map, Value};
use sos_account::Account;
use sos_client_storage::{AccessOptions, NewFolderOptions};
use sos_core::{
    events::{EventRecord, WriteEvent},
    AccountId, SecretId, VaultFlags, VaultId,
};
use sos_sync::StorageEventLogs;
use std::collections::{BTreeMap, HashMap, HashSet};
use std::path::{Path, PathBuf};
use vkit::acct::{
    account_view, folder_key_sorted, reference_reduce, vault_view_cached,
    Backend, Dev, KeyCache,
};
use vkit::pool::{self, PoolOpts};
use vkit::run::{push_sample, Args, Run, Tier};
use vkit::world::{
    all_logs, make_template, start_server, status_diff, status_view, Device,
    SyncResult, Template,
};
use vkit::{clock, fsutil, gen};

#[derive(Clone, Debug, Serialize, Deserialize, PartialEq, Eq, Hash)]
enum Edit {
    CreateNote,
    UpdateS0,
    DeleteS0,
    RenameDefaultOwn,
    RenameDefaultSame,
    SetDescriptionF1,
    SetFlagsF1,
    CreateFolder,
    DeleteF1,
    MoveS0ToF1,
    UpdateS1,
    CreateInF1,
    /// update (new label and value) the note this device created earlier
    /// in the same offline suffix
    UpdateCreated,
    /// compact the default folder (history rewrite: the other side meets a
    /// hard conflict and force-merges)
    CompactDefault,
    /// a file secret created from a real file (a file-log event)
    AttachFile,
}

impl Edit {
    fn name(&self) -> &'static str {
        match self {
            Edit::CreateNote => "create",
            Edit::UpdateS0 => "update_s0",
            Edit::DeleteS0 => "delete_s0",
            Edit::RenameDefaultOwn => "rename_own",
            Edit::RenameDefaultSame => "rename_same",
            Edit::SetDescriptionF1 => "describe_f1",
            Edit::SetFlagsF1 => "flags_f1",
            Edit::CreateFolder => "create_folder",
            Edit::DeleteF1 => "delete_f1",
            Edit::MoveS0ToF1 => "move_s0",
            Edit::UpdateS1 => "update_s1",
            Edit::CreateInF1 => "create_in_f1",
            Edit::UpdateCreated => "update_created",
            Edit::AttachFile => "attach_file",
            Edit::CompactDefault => "compact_default",
        }
    }
}

const ALL_EDITS: [Edit; 13] = [
    Edit::CreateNote,
    Edit::UpdateS0,
    Edit::DeleteS0,
    Edit::RenameDefaultOwn,
    Edit::RenameDefaultSame,
    Edit::SetDescriptionF1,
    Edit::SetFlagsF1,
    Edit::CreateFolder,
    Edit::DeleteF1,
    Edit::MoveS0ToF1,
    Edit::UpdateS1,
    Edit::CreateInF1,
    Edit::CompactDefault,
];

#[derive(Clone, Copy, Debug, Serialize, Deserialize, PartialEq, Eq, Hash)]
enum ClockPat {
    /// device 1's edits are all older than device 2's
    D1Older,
    /// device 2's edits are all older
    D2Older,
    /// every offline event carries the same timestamp
    Tie,
    /// same base, events interleave by tick
    Interleaved,
    /// device 0's clock is an hour BEHIND the clock that wrote the shared
    /// prefix (a clock set backwards): its offline events are older than
    /// records both sides already hold
    Behind,
}

#[derive(Clone, Debug, Serialize, Deserialize)]
struct Scenario {
    /// offline suffix per device
    edits: Vec<Vec<Edit>>,
    /// order in which devices sync (indices), then rounds until quiescent
    order: Vec<usize>,
    clock: ClockPat,
    client_backend: Backend,
    server_db: bool,
}

fn vid(s: &str) -> VaultId {
    s.parse().unwrap()
}
fn sid(s: &str) -> SecretId {
    s.parse().unwrap()
}

async fn apply_edit(
    dev: &Device,
    t: &Template,
    e: &Edit,
    k: usize,
    created: &mut Vec<SecretId>,
) -> Result<()> {
    let mut acc = dev.account.lock().await;
    let d = dev.idx;
    let default = vid(&t.default_folder);
    let f1 = vid(&t.f1);
    let in_folder = |f: VaultId| AccessOptions {
        folder: Some(f),
        ..Default::default()
    };
    match e {
        Edit::CreateNote => {
            let (m, s) = gen::secret("note", 0, &format!("d{}k{}", d, k));
            let id = acc.create_secret(m, s, in_folder(default)).await?.id;
            created.push(id);
        }
        Edit::CompactDefault => {
            acc.compact_folder(&default).await?;
        }
        Edit::AttachFile => {
            let path = std::env::temp_dir().join(format!("syncx-file-{}-d{}k{}.txt", std::process::id(), d, k));
            std::fs::write(&path, format!("file content of device {} edit {}", d, k))?;
            let secret: sos_vault::secret::Secret = path.clone().try_into()?;
            let meta = sos_vault::secret::SecretMeta::new(format!("file-d{}k{}", d, k), secret.kind());
            let r = acc.create_secret(meta, secret, in_folder(default)).await;
            let _ = std::fs::remove_file(&path);
            created.push(r?.id);
        }
        Edit::UpdateCreated => {
            let id = *created.last().ok_or_else(|| anyhow!("nothing created yet"))?;
            // a label that sorts BEFORE the original one and one that
            // sorts after it behave differently in label-keyed indexes
            let (mut m, s) = gen::secret("note", 1, &format!("d{}k{}-renamed", d, k));
            m.set_label(format!("{}-{}", if d % 2 == 0 { "aaa-renamed" } else { "zzz-renamed" }, m.label()));
            acc.update_secret(&id, m, Some(s), in_folder(default)).await?;
        }
        Edit::CreateInF1 => {
            let (m, s) = gen::secret("note", 1, &format!("f1d{}k{}", d, k));
            acc.create_secret(m, s, in_folder(f1)).await?;
        }
        Edit::UpdateS0 => {
            let (m, s) = gen::secret("note", 1, &format!("s0-by-d{}", d));
            acc.update_secret(&sid(&t.s0), m, Some(s), in_folder(default))
                .await?;
        }
        Edit::UpdateS1 => {
            let (m, s) = gen::secret("login", 1, &format!("s1-by-d{}", d));
            acc.update_secret(&sid(&t.s1), m, Some(s), in_folder(f1))
                .await?;
        }
        Edit::DeleteS0 => {
            acc.delete_secret(&sid(&t.s0), in_folder(default)).await?;
        }
        Edit::RenameDefaultOwn => {
            acc.rename_folder(&default, format!("renamed-by-d{}-{}", d, k))
                .await?;
        }
        Edit::RenameDefaultSame => {
            acc.rename_folder(&default, "same-name".to_string()).await?;
        }
        Edit::SetDescriptionF1 => {
            acc.set_folder_description(&f1, format!("described by d{}", d))
                .await?;
        }
        Edit::SetFlagsF1 => {
            acc.update_folder_flags(&f1, VaultFlags::LOCAL).await?;
        }
        Edit::CreateFolder => {
            acc.create_folder(NewFolderOptions::new(format!(
                "new-folder-d{}-{}",
                d, k
            )))
            .await?;
        }
        Edit::DeleteF1 => {
            acc.delete_folder(&f1).await?;
        }
        Edit::MoveS0ToF1 => {
            acc.move_secret(&sid(&t.s0), &default, &f1, Default::default())
                .await?;
        }
    }
    Ok(())
}

/// An edit is enabled after a prefix of the same device's edits?
fn enabled_after(prefix: &[Edit], e: &Edit) -> bool {
    let s0_gone = prefix
        .iter()
        .any(|p| matches!(p, Edit::DeleteS0 | Edit::MoveS0ToF1));
    let f1_gone = prefix.iter().any(|p| matches!(p, Edit::DeleteF1));
    match e {
        Edit::UpdateCreated => prefix.iter().any(|p| matches!(p, Edit::CreateNote)),
        Edit::UpdateS0 | Edit::DeleteS0 => !s0_gone,
        Edit::MoveS0ToF1 => !s0_gone && !f1_gone,
        Edit::SetDescriptionF1
        | Edit::SetFlagsF1
        | Edit::DeleteF1
        | Edit::UpdateS1
        | Edit::CreateInF1 => !f1_gone,
        _ => true,
    }
}

#[derive(Default)]
struct Fails(Vec<(String, String, String, Value)>);
impl Fails {
    fn push(&mut self, prop: &str, sig: String, what: String, detail: Value) {
        self.0.push((prop.to_string(), sig, what, detail));
    }
}

fn shape(sc: &Scenario) -> String {
    let e: Vec<String> = sc
        .edits
        .iter()
        .map(|v| {
            if v.is_empty() {
                "-".to_string()
            } else {
                v.iter().map(|x| x.name()).collect::<Vec<_>>().join("+")
            }
        })
        .collect();
    e.join("|")
}

/// Coarse class of a scenario for signatures. `identical` = some commit
/// hash occurs more than once among the offline events (two devices made
/// a byte-identical event, or one device made the same event twice).
fn sig_class(sc: &Scenario, identical: bool) -> String {
    let lens: Vec<usize> = sc.edits.iter().map(|v| v.len()).collect();
    let eq = lens.windows(2).all(|w| w[0] == w[1]);
    let any_empty = lens.iter().any(|l| *l == 0);
    format!(
        "{}:{}{}",
        if identical { "identical_events" } else { "distinct_events" },
        if lens.iter().any(|l| *l > 8) { "long_divergence" } else if any_empty { "one_sided" } else if eq { "equal_len" } else { "unequal_len" },
        match sc.clock {
            ClockPat::Tie => ",tie",
            _ => "",
        }
    )
}

struct MergeCheck {
    prefix_len: usize,
    /// expected count per commit hash in the suffix
    expected: HashMap<[u8; 32], usize>,
}

fn expected_union(prefix_len: usize, suffixes: &[Vec<EventRecord>]) -> MergeCheck {
    let mut expected: HashMap<[u8; 32], usize> = HashMap::new();
    for u in suffixes {
        let mut c: HashMap<[u8; 32], usize> = HashMap::new();
        for r in u {
            *c.entry(r.commit().0).or_default() += 1;
        }
        for (h, n) in c {
            let e = expected.entry(h).or_default();
            if n > *e {
                *e = n;
            }
        }
    }
    MergeCheck {
        prefix_len,
        expected,
    }
}

async fn device_view(dev: &Device) -> Result<Vec<Value>> {
    let mut acc = dev.account.lock().await;
    let v = account_view(&mut acc, true).await?;
    let mut out: Vec<Value> = v.folders.iter().map(folder_key_sorted).collect();
    out.sort_by(|a, b| a["id"].as_str().unwrap().cmp(b["id"].as_str().unwrap()));
    Ok(out)
}

/// C02 (tagged) on one device: reduce(log) == served == model-free.
async fn check_c02_device(
    dev: &Device,
    when: &str,
    cls: &str,
    fails: &mut Fails,
    kc: &mut KeyCache,
) {
    let acc = dev.account.lock().await;
    let Ok(folders) = acc.list_folders().await else { return };
    for f in folders {
        let id = *f.id();
        let r: Result<()> = async {
            use sos_login::DelegatedAccess;
            // a folder whose password is not (or no longer) delegated to
            // this device cannot be decrypted: nothing to compare
            let Some(key) = acc.find_folder_password(&id).await? else {
                return Ok(());
            };
            let log = acc.folder_log(&id).await?;
            let log = log.read().await;
            let reduced = sos_reducers::FolderReducer::new()
                .reduce(&*log)
                .await?
                .build(true)
                .await?;
            let rv = vault_view_cached(&reduced, &key, kc).await?;
            let folder = acc.folder(&id).await?;
            let served = {
                let ap = folder.access_point();
                let ap = ap.lock().await;
                use sos_vault::SecretAccess;
                ap.vault().clone()
            };
            let sv = vault_view_cached(&served, &key, kc).await?;
            // persisted vault store (file / rows)
            let mirror: sos_vault::Vault = match &dev.target {
                sos_backend::BackendTarget::FileSystem(paths) => {
                    let p = paths.with_account_id(&dev.account_id).vault_path(&id);
                    sos_core::decode(&std::fs::read(&p)?).await?
                }
                sos_backend::BackendTarget::Database(_, client) => {
                    sos_database::entity::FolderEntity::compute_folder_vault(client, &id).await?
                }
            };
            let mv = vault_view_cached(&mirror, &key, kc).await?;
            let m = folder_key_sorted(&mv);
            if m != folder_key_sorted(&sv) {
                let (a, b) = (m["secrets"].as_array().unwrap().len(), folder_key_sorted(&sv)["secrets"].as_array().unwrap().len());
                let what = if a > b { "mirror_has_extra_secret" } else if a < b { "mirror_misses_secret" } else { "content" };
                fails.push("C02", format!("after_merge:mirror_differs_from_served:{}:{}", what, cls), format!("after {} the persisted vault differs from the served folder ({})", when, what), json!({"when": when, "device": dev.idx}));
            }
            let (r, s) = (folder_key_sorted(&rv), folder_key_sorted(&sv));
            if r != s {
                let what = if r["secrets"] != s["secrets"] {
                    let rl = r["secrets"].as_array().unwrap().len();
                    let sl = s["secrets"].as_array().unwrap().len();
                    if rl < sl { "served_has_extra_secret" } else if rl > sl { "served_misses_secret" } else { "secret_content" }
                } else if r["name"] != s["name"] {
                    "name"
                } else if r["flags"] != s["flags"] {
                    "flags"
                } else {
                    "description"
                };
                fails.push("C02", format!("after_merge:replay_differs_from_served:{}:{}", what, cls), format!("after {} the folder replayed from the log differs from the served folder ({})", when, what), json!({"when": when, "device": dev.idx}));
            }
            Ok(())
        }
        .await;
        if let Err(e) = r {
            fails.push("C02", format!("after_merge:oracle_error:{}", cls), format!("after {}: {}", when, e), json!({"device": dev.idx}));
        }
    }
}

async fn debug_dump(label: &str, devices: &[Device], server: &vkit::world::ServerProc, account_id: &AccountId) {
    if std::env::var("SYNCX_DEBUG").is_err() {
        return;
    }
    let short = |recs: &Vec<EventRecord>| -> String {
        recs.iter()
            .map(|r| {
                let h = r.commit().to_string()[..4].to_string();
                if std::env::var("SYNCX_DEBUG").as_deref() == Ok("time") {
                    let t: time::OffsetDateTime = r.time().clone().into();
                    format!("{}@{}", h, t.unix_timestamp_nanos() / 1_000_000 % 100_000_000)
                } else {
                    h
                }
            })
            .collect::<Vec<_>>()
            .join(" ")
    };
    eprintln!("--- {}", label);
    for d in devices {
        let a = d.account.lock().await;
        let folders: Vec<VaultId> = a.list_folders().await.unwrap_or_default().iter().map(|s| *s.id()).collect();
        if let Ok(logs) = all_logs(&*a, &folders).await {
            for (n, r) in logs {
                if n != "identity" && n != "device" && n != "files" {
                    eprintln!("  dev{} {:<46} {}", d.idx, n, short(&r));
                }
            }
        }
    }
    if let Some(sa) = server.account(account_id).await {
        let sa = sa.read().await;
        use sos_sync::SyncStorage;
        if let Ok(st) = sa.sync_status().await {
            let folders: Vec<VaultId> = st.folders.keys().copied().collect();
            if let Ok(logs) = all_logs(&*sa, &folders).await {
                for (n, r) in logs {
                    if n != "identity" && n != "device" && n != "files" {
                        eprintln!("  srv  {:<46} {}", n, short(&r));
                    }
                }
            }
        }
    }
}

/// C20 (tagged) on one device: the incrementally maintained search index
/// equals an index rebuilt from the unlocked folders.
/// C16 (soundness after merges): the integrity report of an untampered
/// device that merged events from another device contains no failure.
async fn check_c16_device(dev: &Device, when: &str, cls: &str, fails: &mut Fails) {
    use sos_integrity::{account_integrity, FolderIntegrityEvent};
    let folders = {
        let acc = dev.account.lock().await;
        match acc.list_folders().await {
            Ok(f) => f,
            Err(_) => return,
        }
    };
    let r: Result<Vec<String>> = async {
        let (mut rx, _cancel) = account_integrity(&dev.target, &dev.account_id, folders, 1).await?;
        let mut failures = vec![];
        while let Some(ev) = tokio::time::timeout(std::time::Duration::from_secs(30), rx.recv()).await.map_err(|_| anyhow!("integrity report did not complete"))? {
            match ev {
                FolderIntegrityEvent::Failure(_, f) => failures.push(format!("{:?}", f)),
                FolderIntegrityEvent::Complete => break,
                _ => {}
            }
        }
        Ok(failures)
    }
    .await;
    match r {
        Ok(f) if !f.is_empty() => {
            let short: String = f[0].split(|c: char| !c.is_ascii_alphanumeric()).next().unwrap_or("").to_string();
            fails.push("C16", format!("after_merge:false_alarm:{}:{}:{}", short, cls, dev.backend.name()), format!("{}: the integrity report of an untampered device contains a failure: {}", when, f[0].chars().take(160).collect::<String>()), json!({"device": dev.idx}));
        }
        Err(e) => fails.push("C16", format!("after_merge:report_error:{}", dev.backend.name()), format!("{}", e), json!({"device": dev.idx})),
        _ => {}
    }
}

async fn check_c20_device(dev: &Device, when: &str, cls: &str, fails: &mut Fails) {
    let acc = dev.account.lock().await;
    let r: Result<()> = async {
        let idx = acc.search_index().await?;
        let idx = idx.read().await;
        let mut fresh = sos_search::SearchIndex::new();
        let folders = acc.list_folders().await?;
        let archive = folders.iter().find(|f| f.flags().is_archive()).map(|f| *f.id());
        fresh.set_archive_id(archive);
        for f in &folders {
            let folder = acc.folder(f.id()).await?;
            let ap = folder.access_point();
            let ap = ap.lock().await;
            fresh.add_folder(&ap).await?;
        }
        let proj = |i: &sos_search::SearchIndex| -> Vec<String> {
            let mut v: Vec<String> = i.values().iter().map(|d| format!("{}|{}|{}", d.folder_id(), d.id(), gen::meta_view(d.meta()))).collect();
            v.sort();
            v
        };
        let (a, f) = (proj(&idx), proj(&fresh));
        if a != f {
            let d = if a.len() > f.len() { "stale_or_extra_document" } else if a.len() < f.len() { "missing_document" } else { "document_content" };
            fails.push("C20", format!("after_merge:documents_differ:{}:{}", d, cls), format!("after {} the search index differs from an index rebuilt from the folders ({})", when, d), json!({"device": dev.idx, "incremental": a.len(), "rebuilt": f.len()}));
        }
        let stat = |i: &sos_search::SearchIndex| -> Value {
            let c = i.statistics().count();
            let nz = |m: BTreeMap<String, usize>| -> BTreeMap<String, usize> { m.into_iter().filter(|(_, v)| *v > 0).collect() };
            json!({
                "vaults": nz(c.vaults().iter().map(|(k, v)| (k.to_string(), *v)).collect()),
                "kinds": nz(c.kinds().iter().map(|(k, v)| (k.to_string(), *v)).collect()),
                "tags": nz(c.tags().iter().map(|(k, v)| (k.clone(), *v)).collect()),
                "favorites": c.favorites(),
            })
        };
        if stat(&idx) != stat(&fresh) {
            fails.push("C20", format!("after_merge:counters_differ:{}", cls), format!("after {} the search index counters differ from a recount", when), json!({"device": dev.idx, "incremental": stat(&idx), "recount": stat(&fresh)}));
        }
        // every live label must be found by a query, with the same result
        for d in fresh.values() {
            let q = |i: &sos_search::SearchIndex| -> Vec<String> {
                let mut r: Vec<String> = i.query_map(d.meta().label(), |_| true).iter().map(|x| x.id().to_string()).collect();
                r.sort();
                r
            };
            if q(&idx) != q(&fresh) {
                fails.push("C20", format!("after_merge:query_differs:{}", cls), format!("after {} a query for a live label returns different documents from the incremental and the rebuilt index", when), json!({"device": dev.idx}));
                break;
            }
        }
        Ok(())
    }
    .await;
    if let Err(e) = r {
        fails.push("C20", format!("after_merge:oracle_error:{}", cls), format!("after {}: {}", when, e), json!({"device": dev.idx}));
    }
}

async fn run_scenario(t: &Template, sc: &Scenario, work: &Path) -> Value {
    let mut fails = Fails::default();
    let mut cls = sig_class(sc, false);
    let res: Result<Value> = async {
        let _ = std::fs::remove_dir_all(work);
        fsutil::copy_dir(Path::new(&t.dir), work)?;
        clock::install();
        let n_edit = sc.edits.len();
        // clocks
        for d in 0..clock::MAX_DEV {
            clock::configure(d, 3_600_000_000_000, 1_000_001);
            clock::set_tick(d, 10_000);
        }
        match sc.clock {
            ClockPat::D1Older => clock::configure(1, 3_700_000_000_000, 1_000_001),
            ClockPat::D2Older => clock::configure(0, 3_700_000_000_000, 1_000_001),
            ClockPat::Behind => clock::configure(0, -3_600_000_000_000, 1_000_001),
            ClockPat::Tie | ClockPat::Interleaved => {}
        }
        let server = start_server(&work.join("server"), sc.server_db, None, None).await?;
        let account_id: AccountId = t.account_id.parse().unwrap();
        let mut devices = vec![];
        for d in 0..n_edit + 1 {
            clock::set_device(d.min(clock::MAX_DEV - 1));
            let dev = Dev::open(&work.join(format!("d{}", d)), sc.client_backend, account_id, vkit::acct::password()).await?;
            let dv = Device::connect(dev, d, &server.origin).await?;
            {
                let mut a = dv.account.lock().await;
                let _ = a.initialize_search_index().await;
            }
            devices.push(dv);
        }
        // worlds with file-log edits start from a shared NON-EMPTY file
        // log: device 0 attaches a file and every device syncs once
        if sc.edits.iter().flatten().any(|e| matches!(e, Edit::AttachFile)) {
            clock::set_device(0);
            let mut created = vec![];
            apply_edit(&devices[0], t, &Edit::AttachFile, 99, &mut created).await.map_err(|er| anyhow!("pre-history attach failed: {}", er))?;
            for d in 0..devices.len() {
                if devices[d].sync().await != SyncResult::Ok {
                    return Err(anyhow!("pre-history sync of device {} failed", d));
                }
            }
        }
        // prefix logs (common to all)
        let prefix: BTreeMap<String, Vec<EventRecord>> = {
            let a = devices[0].account.lock().await;
            let folders: Vec<VaultId> = a.list_folders().await?.iter().map(|s| *s.id()).collect();
            all_logs(&*a, &folders).await?.into_iter().collect()
        };
        // phase 1: offline edits
        for (d, edits) in sc.edits.iter().enumerate() {
            clock::set_device(d);
            if sc.clock == ClockPat::Tie {
                clock::freeze(true);
            }
            let mut created = vec![];
            for (k, e) in edits.iter().enumerate() {
                apply_edit(&devices[d], t, e, k, &mut created).await.map_err(|er| anyhow!("offline edit {:?} on device {} failed: {}", e, d, er))?;
            }
            clock::freeze(false);
        }
        debug_dump("after offline edits", &devices, &server, &account_id).await;
        // suffixes per device per log
        let mut suffixes: Vec<BTreeMap<String, Vec<EventRecord>>> = vec![];
        for d in 0..n_edit {
            let a = devices[d].account.lock().await;
            let folders: Vec<VaultId> = a.list_folders().await?.iter().map(|s| *s.id()).collect();
            let mut m = BTreeMap::new();
            for (name, recs) in all_logs(&*a, &folders).await? {
                let pl = prefix.get(&name).map(|p| p.len()).unwrap_or(0);
                m.insert(name, recs[pl.min(recs.len())..].to_vec());
            }
            suffixes.push(m);
        }
        {
            let mut identical = false;
            let mut names: HashSet<&String> = HashSet::new();
            for s in &suffixes {
                names.extend(s.keys());
            }
            for n in names {
                let mut seen: HashSet<[u8; 32]> = HashSet::new();
                for s in &suffixes {
                    for r in s.get(n).map(|v| v.as_slice()).unwrap_or(&[]) {
                        if !seen.insert(r.commit().0) {
                            identical = true;
                        }
                    }
                }
            }
            cls = sig_class(sc, identical);
        }
        let cls = cls.clone();
        let by_c16 = std::env::var("SYNCX_C16").is_ok();
        let mut kcs: Vec<KeyCache> = (0..n_edit + 1).map(|_| KeyCache::default()).collect();
        // phase 2: syncs
        let mut results = vec![];
        let mut step = 0;
        let sync_one = |d: usize| {
            let dev = &devices[d];
            async move { dev.sync().await }
        };
        let mut last_result: Vec<Option<SyncResult>> = vec![None; n_edit + 1];
        for &d in &sc.order {
            let r = sync_one(d).await;
            debug_dump(&format!("after sync of dev{} -> {:?}", d, r), &devices, &server, &account_id).await;
            results.push(json!({"device": d, "result": r.short()}));
            last_result[d] = Some(r);
            step += 1;
            check_c02_device(&devices[d], &format!("sync step {}", step), &cls, &mut fails, &mut kcs[d]).await;
            check_c20_device(&devices[d], &format!("sync step {}", step), &cls, &mut fails).await;
            if by_c16 {
                check_c16_device(&devices[d], &format!("sync step {}", step), &cls, &mut fails).await;
            }
        }
        // rounds until quiescent
        let mut converged = false;
        let mut rounds = 0;
        for _round in 0..3 {
            let ss = status_view(&server.sync_status(&account_id).await?);
            let mut all_eq = true;
            for d in 0..n_edit {
                let ds = status_view(&devices[d].status().await?);
                if ds != ss {
                    all_eq = false;
                }
            }
            if all_eq {
                converged = true;
                break;
            }
            rounds += 1;
            for d in 0..n_edit {
                let r = sync_one(d).await;
                debug_dump(&format!("after round sync of dev{} -> {:?}", d, r), &devices, &server, &account_id).await;
                results.push(json!({"device": d, "result": r.short()}));
                last_result[d] = Some(r);
                step += 1;
                check_c02_device(&devices[d], &format!("sync step {}", step), &cls, &mut fails, &mut kcs[d]).await;
                check_c20_device(&devices[d], &format!("sync step {}", step), &cls, &mut fails).await;
            }
        }
        if !converged {
            let ss = status_view(&server.sync_status(&account_id).await?);
            converged = true;
            for d in 0..n_edit {
                if status_view(&devices[d].status().await?) != ss {
                    converged = false;
                }
            }
        }
        // by-product mode: local edits AFTER the merges (merge replays leave
        // the mirror in shapes local edits never produce), then the same
        // oracles and a fresh reload of every editing device
        let mut reload_failures: Vec<(usize, String)> = vec![];
        if std::env::var("SYNCX_BYPRODUCT").is_ok() {
            for d in 0..n_edit {
                clock::set_device(d);
                let r: Result<()> = async {
                    let default = vid(&t.default_folder);
                    let ids: Vec<SecretId> = {
                        let a = devices[d].account.lock().await;
                        a.list_secret_ids(&default).await?
                    };
                    // delete the newest secret of the default folder and
                    // update the oldest one that is left
                    if let Some(last) = ids.last() {
                        let mut a = devices[d].account.lock().await;
                        a.delete_secret(last, AccessOptions { folder: Some(default), ..Default::default() }).await?;
                    }
                    if ids.len() > 1 {
                        let (m, s) = gen::secret("note", 1, &format!("after-merge-d{}", d));
                        let mut a = devices[d].account.lock().await;
                        a.update_secret(&ids[0], m, Some(s), AccessOptions { folder: Some(default), ..Default::default() }).await?;
                    }
                    Ok(())
                }
                .await;
                if let Err(e) = r {
                    reload_failures.push((d, format!("edit after merge failed: {}", e)));
                    continue;
                }
                check_c02_device(&devices[d], "a local edit after the merges", &cls, &mut fails, &mut kcs[d]).await;
                check_c20_device(&devices[d], "a local edit after the merges", &cls, &mut fails).await;
                // reload: a fresh account object on a copy of the data dir
                let live = device_view(&devices[d]).await;
                let copy = work.join(format!("reload-d{}", d));
                let _ = std::fs::remove_dir_all(&copy);
                if fsutil::copy_dir(&devices[d].dir, &copy).is_ok() {
                    match Dev::open(&copy, sc.client_backend, account_id, vkit::acct::password()).await {
                        Ok(mut fresh) => {
                            let fv = vkit::acct::account_view(&mut fresh.account, true).await;
                            if let (Ok(l), Ok(f)) = (&live, &fv) {
                                let mut fo: Vec<Value> = f.folders.iter().map(folder_key_sorted).collect();
                                fo.sort_by(|a, b| a["id"].as_str().unwrap().cmp(b["id"].as_str().unwrap()));
                                if *l != fo {
                                    let what = if l.len() != fo.len() { "folder_set".to_string() } else {
                                        let mut w = "content".to_string();
                                        for (x, y) in l.iter().zip(fo.iter()) {
                                            for k in ["name", "flags", "description"] {
                                                if x[k] != y[k] {
                                                    w = format!("folder_{}", k);
                                                    if std::env::var("SYNCX_DEBUG").is_ok() {
                                                        eprintln!("  reload diff dev{} {}: live={} reloaded={}", d, k, x[k], y[k]);
                                                    }
                                                }
                                            }
                                            let (a, b) = (x["secrets"].as_array().unwrap().len(), y["secrets"].as_array().unwrap().len());
                                            if b > a { w = "deleted_secret_back_after_reload".into(); } else if b < a { w = "secret_missing_after_reload".into(); }
                                        }
                                        w
                                    };
                                    fails.push("C02", format!("after_merge:reload_differs_from_served:{}:{}", what, cls), format!("after merges and a local edit, a fresh sign-in serves different folders than the live account ({})", what), json!({"device": d}));
                                }
                            }
                            fresh.close().await;
                        }
                        Err(e) => fails.push("C02", format!("after_merge:reload_failed:{}", cls), format!("fresh sign-in after merges failed: {}", e), json!({"device": d})),
                    }
                }
            }
        }
        let _ = reload_failures;
        // observer pulls
        let obs = n_edit;
        let r = sync_one(obs).await;
        results.push(json!({"device": obs, "result": r.short(), "observer": true}));
        let ss = status_view(&server.sync_status(&account_id).await?);
        // ---- C04 oracles
        let mut stuck_with_error = false;
        let mut differing = vec![];
        for d in 0..n_edit {
            let ds = status_view(&devices[d].status().await?);
            if ds != ss {
                let logs = status_diff(&ds, &ss);
                differing.push((d, logs));
            }
        }
        if !differing.is_empty() {
            let mut logs: Vec<String> = differing.iter().flat_map(|x| x.1.clone()).collect();
            logs.sort();
            logs.dedup();
            let all_ok = differing.iter().all(|(d, _)| matches!(last_result[*d], Some(SyncResult::Ok)));
            let kind = if all_ok { "success_without_convergence" } else { "not_converged_with_error" };
            stuck_with_error = !all_ok;
            let errs: Vec<String> = differing.iter().filter_map(|(d, _)| match &last_result[*d] { Some(SyncResult::Conflict(e)) | Some(SyncResult::Error(e)) => Some(e.chars().take(120).collect()), _ => None }).collect();
            fails.push(if all_ok { "C04" } else { "INFO" }, format!("{}:{}:{}", kind, cls, logs.join("+")), format!("after the sync order and {} further rounds a device's sync status differs from the server's for: {}", rounds, logs.join(", ")), json!({"devices": differing.iter().map(|x| x.0).collect::<Vec<_>>(), "errors": errs}));
        }
        // views equal
        let mut views = vec![];
        for d in 0..n_edit + 1 {
            match device_view(&devices[d]).await {
                Ok(v) => views.push(Some(v)),
                Err(e) => {
                    fails.push("C04", format!("view_error:{}", cls), format!("device {} cannot read its folders after syncing: {}", d, e), json!({"device": d}));
                    views.push(None);
                }
            }
        }
        if std::env::var("SYNCX_DEBUG").is_ok() {
            for (d, v) in views.iter().enumerate() {
                if let Some(v) = v {
                    for f in v {
                        eprintln!("  view dev{} {} name={} flags={} desc={} secrets={}", d, f["id"], f["name"], f["flags"], f["description"], f["secrets"].as_array().unwrap().len());
                    }
                }
            }
        }
        if differing.is_empty() {
            for d in 1..n_edit + 1 {
                if let (Some(a), Some(b)) = (&views[0], &views[d]) {
                    if a != b {
                        let who = if d == n_edit { "observer" } else { "editor" };
                        let mut what = "folder_set".to_string();
                        if a.len() == b.len() {
                            for (x, y) in a.iter().zip(b.iter()) {
                                for k in ["id", "name", "flags", "description", "secrets"] {
                                    if x[k] != y[k] {
                                        what = k.to_string();
                                    }
                                }
                            }
                        }
                        fails.push("C04", format!("converged_status_but_views_differ:{}:{},{}", cls, who, what), format!("all replicas report the same sync status but serve different decrypted folders ({})", what), json!({"device": d}));
                    }
                }
            }
            if status_view(&devices[obs].status().await?) != ss {
                fails.push("C04", format!("observer_not_converged:{}", cls), "a device that only pulls does not reach the server's status".into(), json!({}));
            }
        }
        // ---- C05 oracles on every replica's logs (premise of the
        // property: no history rewrite such as compaction in between)
        let rewrite = sc.edits.iter().flatten().any(|e| matches!(e, Edit::CompactDefault));
        let mut c05_checked = 0u64;
        let mut c05_skipped = 0u64;
        if !rewrite {
            let mut replicas: Vec<(String, BTreeMap<String, Vec<EventRecord>>)> = vec![];
            for d in 0..n_edit {
                let a = devices[d].account.lock().await;
                let folders: Vec<VaultId> = a.list_folders().await?.iter().map(|s| *s.id()).collect();
                replicas.push((format!("device{}", d), all_logs(&*a, &folders).await?.into_iter().collect()));
            }
            if let Some(sa) = server.account(&account_id).await {
                let sa = sa.read().await;
                let folders: Vec<VaultId> = {
                    use sos_sync::SyncStorage;
                    let st = sa.sync_status().await?;
                    st.folders.keys().copied().collect()
                };
                replicas.push(("server".to_string(), all_logs(&*sa, &folders).await?.into_iter().collect()));
            }
            let mut names: HashSet<String> = HashSet::new();
            for s in &suffixes {
                names.extend(s.keys().cloned());
            }
            for name in names {
                let pl = prefix.get(&name).map(|p| p.len()).unwrap_or(0);
                let sufs: Vec<Vec<EventRecord>> = suffixes.iter().map(|s| s.get(&name).cloned().unwrap_or_default()).collect();
                if sufs.iter().all(|s| s.is_empty()) {
                    continue;
                }
                let mc = expected_union(pl, &sufs);
                let kind = name.split(':').next().unwrap().to_string();
                // the property speaks about the converged log: only
                // logs on which every replica agrees are judged here
                // (a log that did not converge is C04's business)
                {
                    let mut seqs: Vec<Vec<[u8; 32]>> = replicas
                        .iter()
                        .filter_map(|(_, logs)| logs.get(&name))
                        .map(|r| r.iter().map(|x| x.commit().0).collect())
                        .collect();
                    seqs.dedup();
                    if seqs.len() > 1 {
                        c05_skipped += 1;
                        continue;
                    }
                }
                for (rname, logs) in &replicas {
                    let Some(recs) = logs.get(&name) else {
                        // a folder deleted by one side legitimately disappears
                        continue;
                    };
                    c05_checked += 1;
                    let role = if rname == "server" { "server" } else { "device" };
                    // prefix intact
                    if let Some(p) = prefix.get(&name) {
                        if recs.len() < p.len() || recs[..p.len()].iter().zip(p.iter()).any(|(a, b)| a.commit() != b.commit()) {
                            fails.push("C05", format!("common_prefix_changed:{}:{}:{}", cls, kind, role), "the shared prefix of a log was rewritten by a merge".into(), json!({"log": name, "replica": rname}));
                            continue;
                        }
                    }
                    let suffix = &recs[mc.prefix_len.min(recs.len())..];
                    let mut got: HashMap<[u8; 32], usize> = HashMap::new();
                    for r in suffix {
                        *got.entry(r.commit().0).or_default() += 1;
                    }
                    let mut lost = 0;
                    let mut dup = 0;
                    let mut added = 0;
                    for (h, n) in &mc.expected {
                        let g = got.get(h).copied().unwrap_or(0);
                        if g < *n {
                            lost += 1;
                        }
                        if g > *n {
                            dup += 1;
                        }
                    }
                    for h in got.keys() {
                        if !mc.expected.contains_key(h) {
                            added += 1;
                        }
                    }
                    let contributors = sufs.iter().filter(|s| !s.is_empty()).count();
                    if lost > 0 {
                        fails.push("C05", format!("lost_event:{}:{}:{}", cls, kind, role), "an event committed offline on a device is missing from a replica's log after syncing".into(), json!({"log": name, "replica": rname, "lost": lost}));
                    }
                    if dup > 0 {
                        fails.push("C05", format!("duplicated_event:{}:{}:{}", cls, kind, role), "an event occurs more often in a replica's log than any device committed it".into(), json!({"log": name, "replica": rname, "duplicated": dup}));
                    }
                    if added > 0 {
                        fails.push("C05", format!("added_event:{}:{}:{}", cls, kind, role), "a replica's log contains an event nobody committed".into(), json!({"log": name, "replica": rname, "added": added}));
                    }
                    // time order of the merged suffix (only when more
                    // than one device contributed)
                    // every device's own events keep their relative order
                    // (timestamps never decrease along one device's log, and
                    // ties must not be reordered)
                    if lost == 0 && dup == 0 && added == 0 {
                        for u in &sufs {
                            let own: Vec<[u8; 32]> = u
                                .iter()
                                .map(|r| r.commit().0)
                                .filter(|h| sufs.iter().filter(|s| s.iter().any(|x| x.commit().0 == *h)).count() == 1)
                                .collect();
                            let mut uniq = own.clone();
                            uniq.sort();
                            uniq.dedup();
                            if uniq.len() != own.len() {
                                continue;
                            }
                            let seen: Vec<[u8; 32]> = suffix.iter().map(|r| r.commit().0).filter(|h| own.contains(h)).collect();
                            if seen != own {
                                fails.push("C05", format!("device_order_changed:{}:{}:{}", cls, kind, role), "events committed by one device appear in the converged log in a different order than that device committed them".into(), json!({"log": name, "replica": rname}));
                                break;
                            }
                        }
                    }
                    if contributors > 1 && lost == 0 && dup == 0 && added == 0 {
                        // events made byte-identically by several
                        // devices carry a different time on each of
                        // them: only events unique to one device have
                        // a well-defined timestamp
                        let unique: Vec<&EventRecord> = suffix
                            .iter()
                            .filter(|r| {
                                sufs.iter()
                                    .filter(|s| s.iter().any(|x| x.commit() == r.commit()))
                                    .count()
                                    == 1
                            })
                            .collect();
                        let sorted = unique.windows(2).all(|w| w[0].time() <= w[1].time());
                        if !sorted {
                            fails.push("C05", format!("not_time_ordered:{}:{}:{}", cls, kind, role), "the divergent events are not interleaved in timestamp order".into(), json!({"log": name, "replica": rname}));
                        }
                    }
                }
            }
        }
        // ---- C05 consequence: the converged folder equals the replay of
        // the shared prefix followed by every device's offline events in
        // timestamp order (latest edit wins, a deleted secret stays
        // deleted unless edited later). Judged on converged folder logs of
        // worlds without a history rewrite and without timestamp ties.
        let mut c05_state_checked = 0u64;
        if !rewrite && sc.clock != ClockPat::Tie && differing.is_empty() {
            use sos_core::events::WriteEvent;
            let a = devices[0].account.lock().await;
            let folders: Vec<VaultId> = a.list_folders().await?.iter().map(|s| *s.id()).collect();
            let conv: BTreeMap<String, Vec<EventRecord>> = all_logs(&*a, &folders).await?.into_iter().collect();
            drop(a);
            for (name, recs) in &conv {
                if !name.starts_with("folder:") {
                    continue;
                }
                let Some(p) = prefix.get(name) else { continue };
                let sufs: Vec<Vec<EventRecord>> = suffixes.iter().map(|s| s.get(name).cloned().unwrap_or_default()).collect();
                if sufs.iter().filter(|s| !s.is_empty()).count() < 2 {
                    continue;
                }
                let mut merged: Vec<(i128, usize, usize, EventRecord)> = vec![];
                for (d, su) in sufs.iter().enumerate() {
                    for (i, r) in su.iter().enumerate() {
                        let t: time::OffsetDateTime = r.time().clone().into();
                        merged.push((t.unix_timestamp_nanos(), d, i, r.clone()));
                    }
                }
                merged.sort_by_key(|x| (x.0, x.1, x.2));
                // equal times on different devices: the order is not defined
                if merged.windows(2).any(|w| w[0].0 == w[1].0 && w[0].1 != w[1].1) {
                    continue;
                }
                let mut want_events: Vec<WriteEvent> = vec![];
                for r in p.iter().chain(merged.iter().map(|x| &x.3)) {
                    want_events.push(r.decode_event::<WriteEvent>().await?);
                }
                let mut got_events: Vec<WriteEvent> = vec![];
                for r in recs {
                    got_events.push(r.decode_event::<WriteEvent>().await?);
                }
                let (Ok(want), Ok(got)) = (reference_reduce(&want_events).await, reference_reduce(&got_events).await) else { continue };
                c05_state_checked += 1;
                let ids = |v: &sos_vault::Vault| -> Vec<String> {
                    let mut k: Vec<String> = v.keys().map(|k| k.to_string()).collect();
                    k.sort();
                    k
                };
                let what = if ids(&want) != ids(&got) {
                    Some(if ids(&got).len() > ids(&want).len() { "secret_ids(extra)" } else if ids(&got).len() < ids(&want).len() { "secret_ids(missing)" } else { "secret_ids" })
                } else if want.keys().any(|k| want.get(k).map(|c| sos_core::commit::CommitHash(c.0 .0)) != got.get(k).map(|c| sos_core::commit::CommitHash(c.0 .0))) {
                    Some("secret_content")
                } else if want.name() != got.name() {
                    Some("name")
                } else if want.flags() != got.flags() {
                    Some("flags")
                } else if want.header().meta() != got.header().meta() {
                    Some("description")
                } else {
                    None
                };
                if let Some(what) = what {
                    fails.push("C05", format!("converged_folder_differs_from_time_ordered_replay:{}:{}:{}dev", cls, what, n_edit), "the converged folder is not the replay of the shared prefix followed by all devices' offline events in timestamp order".into(), json!({"log": name, "expected_secrets": ids(&want).len(), "got_secrets": ids(&got).len()}));
                }
            }
        }
        let mut out = Map::new();
        out.insert("results".into(), json!(results));
        out.insert("converged".into(), json!(differing.is_empty()));
        out.insert("stuck_with_error".into(), json!(stuck_with_error));
        out.insert("rounds".into(), json!(rounds));
        out.insert("c05_logs_checked".into(), json!(c05_checked));
        out.insert("c05_logs_not_converged".into(), json!(c05_skipped));
        out.insert("c05_final_states_checked".into(), json!(c05_state_checked));
        let view_digest = views.first().and_then(|v| v.as_ref()).map(|v| fsutil::sha256_hex(serde_json::to_string(v).unwrap().as_bytes())).unwrap_or_default();
        let _ = view_digest;
        let outcome = format!("{}|{}", if differing.is_empty() { "converged" } else { "stuck" }, results.iter().map(|r| r["result"].as_str().unwrap().chars().next().unwrap()).collect::<String>());
        out.insert("outcome".into(), json!(outcome));
        for dv in devices {
            dv.close().await;
        }
        server.stop().await;
        Ok(Value::Object(out))
    }
    .await;
    let mut v = match res {
        Ok(v) => v,
        Err(e) => json!({"error": e.to_string()}),
    };
    v["fails"] = json!(fails.0.iter().map(|(p,s,w,d)| json!({"prop":p,"sig":s,"what":w,"detail":d})).collect::<Vec<_>>());
    v
}

fn scenarios(tier: Tier, backend: Backend, server_db: bool) -> Vec<Scenario> {
    let mut out = vec![];
    let clocks: Vec<ClockPat> = match tier {
        Tier::Quick => vec![ClockPat::D1Older, ClockPat::Tie],
        Tier::Thorough => vec![ClockPat::D1Older, ClockPat::D2Older, ClockPat::Tie, ClockPat::Interleaved],
    };
    let orders: Vec<Vec<usize>> = vec![vec![0, 1], vec![1, 0]];
    // L = 1: all pairs incl. empty
    let mut singles: Vec<Vec<Edit>> = vec![vec![]];
    for e in ALL_EDITS.iter() {
        singles.push(vec![e.clone()]);
    }
    for a in &singles {
        for b in &singles {
            if a.is_empty() && b.is_empty() {
                continue;
            }
            for c in &clocks {
                for o in &orders {
                    // one-sided worlds do not depend on the clock pattern
                    if (a.is_empty() || b.is_empty()) && *c != clocks[0] {
                        continue;
                    }
                    // quick tier: the tie pattern with one order only
                    if tier == Tier::Quick && *c == ClockPat::Tie && o[0] != 0 {
                        continue;
                    }
                    out.push(Scenario { edits: vec![a.clone(), b.clone()], order: o.clone(), clock: *c, client_backend: backend, server_db });
                }
            }
        }
    }
    // unequal lengths over a small alphabet
    let small = [Edit::CreateNote, Edit::DeleteS0, Edit::UpdateS0, Edit::RenameDefaultSame, Edit::UpdateCreated];
    let mut doubles: Vec<Vec<Edit>> = vec![];
    for a in &small {
        for b in &small {
            if enabled_after(&[], a) && enabled_after(&[a.clone()], b) {
                doubles.push(vec![a.clone(), b.clone()]);
            }
        }
    }
    let small_singles: Vec<Vec<Edit>> = std::iter::once(vec![]).chain(small.iter().filter(|e| enabled_after(&[], e)).map(|e| vec![e.clone()])).collect();
    for d in &doubles {
        for s in &small_singles {
            for (x, y) in [(d.clone(), s.clone()), (s.clone(), d.clone())] {
                for o in &orders {
                    out.push(Scenario { edits: vec![x.clone(), y.clone()], order: o.clone(), clock: clocks[0], client_backend: backend, server_db });
                }
                // all timestamps tied: the device with two events syncs last
                if !s.is_empty() {
                    let o = if x.len() == 2 { vec![1, 0] } else { vec![0, 1] };
                    out.push(Scenario { edits: vec![x.clone(), y.clone()], order: o, clock: ClockPat::Tie, client_backend: backend, server_db });
                }
            }
        }
    }
    // forced overwrites: one device rewrites the default folder's history
    // (compaction) around a header change or an update, the other device
    // has nothing / an append / its own rename and must take the rewritten
    // log as a whole (force merge)
    for x in force_merge_suffixes() {
        for y in [vec![], vec![Edit::CreateNote], vec![Edit::RenameDefaultOwn]] {
            for o in &orders {
                out.push(Scenario { edits: vec![x.clone(), y.clone()], order: o.clone(), clock: clocks[0], client_backend: backend, server_db });
            }
        }
    }
    // a device whose clock runs behind the shared prefix
    for (x, y) in [(vec![Edit::CreateNote], vec![Edit::CreateNote]), (vec![Edit::UpdateS0], vec![Edit::CreateNote]), (vec![Edit::CreateNote, Edit::CreateNote], vec![Edit::CreateNote])] {
        for o in &orders {
            out.push(Scenario { edits: vec![x.clone(), y.clone()], order: o.clone(), clock: ClockPat::Behind, client_backend: backend, server_db });
        }
    }
    // one device renames the same folder twice between two syncs (a merged
    // patch with several header events of one kind)
    for y in [vec![], vec![Edit::CreateNote]] {
        for o in &orders {
            out.push(Scenario { edits: vec![vec![Edit::RenameDefaultOwn, Edit::RenameDefaultOwn], y.clone()], order: o.clone(), clock: clocks[0], client_backend: backend, server_db });
        }
    }
    // divergent file logs (both devices attach a file offline)
    for y in [vec![Edit::AttachFile], vec![], vec![Edit::CreateNote]] {
        for o in &orders {
            out.push(Scenario { edits: vec![vec![Edit::AttachFile], y.clone()], order: o.clone(), clock: clocks[0], client_backend: backend, server_db });
        }
    }
    // long divergence: one device is more than one page of the proof scan
    // (32 commits) ahead when the other device, which has its own offline
    // event, has to find the common ancestor
    for n in [31usize, 33, 65] {
        for o in &orders {
            out.push(Scenario { edits: vec![vec![Edit::CreateNote; n], vec![Edit::CreateNote]], order: o.clone(), clock: clocks[0], client_backend: backend, server_db });
        }
    }
    if tier == Tier::Quick {
        // L = 2 on both sides where both suffixes contain the same
        // byte-identical event (delete of the same secret, rename to the
        // same name) next to another event: the shapes in which an event
        // of one device can be mistaken for the other device's
        for ident in [Edit::DeleteS0, Edit::RenameDefaultSame] {
            let with: Vec<&Vec<Edit>> = doubles.iter().filter(|d| d.contains(&ident) && d[0] != d[1]).collect();
            for a in &with {
                for b in &with {
                    for o in &orders {
                        out.push(Scenario { edits: vec![(*a).clone(), (*b).clone()], order: o.clone(), clock: clocks[0], client_backend: backend, server_db });
                    }
                }
            }
        }
    }
    if tier == Tier::Thorough {
        // L = 2 on both sides over the small alphabet
        for a in &doubles {
            for b in &doubles {
                for c in &clocks {
                    for o in &orders {
                        out.push(Scenario { edits: vec![a.clone(), b.clone()], order: o.clone(), clock: *c, client_backend: backend, server_db });
                    }
                }
            }
        }
        // three devices, L = 1 over the small alphabet + folder ops
        let tri = [Edit::CreateNote, Edit::DeleteS0, Edit::UpdateS0, Edit::RenameDefaultSame, Edit::DeleteF1, Edit::CreateFolder];
        for a in &tri {
            for b in &tri {
                for c in &tri {
                    for o in [vec![0, 1, 2], vec![2, 1, 0], vec![1, 0, 2, 0]] {
                        out.push(Scenario { edits: vec![vec![a.clone()], vec![b.clone()], vec![c.clone()]], order: o, clock: ClockPat::D1Older, client_backend: backend, server_db });
                    }
                }
            }
        }
    }
    out
}

fn force_merge_suffixes() -> Vec<Vec<Edit>> {
    vec![
        vec![Edit::RenameDefaultOwn, Edit::CompactDefault],
        vec![Edit::CompactDefault, Edit::RenameDefaultOwn],
        vec![Edit::UpdateS0, Edit::CompactDefault],
    ]
}

fn is_force_merge_world(sc: &Scenario) -> bool {
    sc.edits.iter().any(|e| e.len() == 2 && e.contains(&Edit::CompactDefault))
}

fn rt() -> tokio::runtime::Runtime {
    tokio::runtime::Builder::new_multi_thread()
        .worker_threads(3)
        .enable_all()
        .build()
        .unwrap()
}

fn configs(tier: Tier) -> Vec<(Backend, bool)> {
    match std::env::var("SYNCX_CONFIG").ok().as_deref() {
        Some("db") => return vec![(Backend::Db, true)],
        Some("fs") => return vec![(Backend::Fs, false)],
        _ => {}
    }
    match tier {
        Tier::Quick => vec![(Backend::Fs, false)],
        Tier::Thorough => vec![(Backend::Fs, false), (Backend::Db, true)],
    }
}

fn all_scenarios(tier: Tier) -> Vec<Scenario> {
    let mut v = vec![];
    if std::env::var("SYNCX_BYPRODUCT").is_ok() && tier == Tier::Quick {
        // reduced set for the C02 / C20 by-product runs: conflicts only
        let (b0, s0) = configs(tier)[0];
        for sc in scenarios(tier, b0, s0) {
            let both = sc.edits.iter().all(|e| !e.is_empty());
            let l1 = sc.edits.iter().all(|e| e.len() == 1);
            // the device with the longer suffix syncs last (it is the
            // one that rewinds and replays)
            let long_last = sc.edits.iter().position(|e| e.len() == 2).map(|d| *sc.order.last().unwrap() == d).unwrap_or(false);
            let twice = sc.edits.iter().any(|e| e.len() == 2 && e[0] == Edit::RenameDefaultOwn && e[1] == Edit::RenameDefaultOwn);
            if is_force_merge_world(&sc) || twice || (both && sc.clock != ClockPat::Tie && (l1 || long_last)) {
                v.push(sc);
            }
        }
        // the forced-overwrite worlds also on the sqlite client + server
        if std::env::var("SYNCX_CONFIG").is_err() {
            v.extend(scenarios(tier, Backend::Db, true).into_iter().filter(is_force_merge_world));
        }
        return v;
    }
    for (b, s) in configs(tier) {
        v.extend(scenarios(tier, b, s));
        // quick: the forced-overwrite worlds also on the sqlite client + server
        if tier == Tier::Quick && std::env::var("SYNCX_CONFIG").is_err() && b == Backend::Fs {
            v.extend(scenarios(tier, Backend::Db, true).into_iter().filter(|sc| is_force_merge_world(sc) || sc.clock == ClockPat::Behind));
        }
    }
    if std::env::var("SYNCX_ONLY_FORCE").is_ok() {
        // debugging aid: the forced-overwrite worlds only
        v.retain(is_force_merge_world);
    }
    if let Ok(n) = std::env::var("SYNCX_LIMIT") {
        v.truncate(n.parse().unwrap());
    }
    v
}

fn main() {
    let args = Args::parse();
    let prop = args.props.first().cloned().unwrap_or("C04".to_string());
    let scs = all_scenarios(args.tier);

    if pool::worker_stage().is_some() {
        let wd = fsutil::WorkDir::new("syncx-w");
        let rt = rt();
        let mut templates: HashMap<(Backend, bool, usize), Template> = HashMap::new();
        pool::worker_loop(|idx| {
            let sc = &scs[idx];
            let key = (sc.client_backend, sc.server_db, sc.edits.len());
            if !templates.contains_key(&key) {
                let dir = wd.path().join(format!("tpl-{}-{}-{}", key.0.name(), key.1, key.2));
                match rt.block_on(make_template(&dir, key.0, key.1, key.2)) {
                    Ok(t) => {
                        templates.insert(key, t);
                    }
                    Err(e) => return json!({"error": format!("template: {}", e), "fails": []}),
                }
            }
            let t = templates.get(&key).unwrap();
            rt.block_on(run_scenario(t, sc, &wd.path().join("w")))
        });
    }

    if let Some(path) = &args.replay {
        std::process::exit(replay(path, &prop));
    }

    let mut run = Run::new(&prop, "model_checking", &args);
    let mut opts = PoolOpts::default();
    opts.item_timeout = std::time::Duration::from_secs(900);
    let res = pool::run_stage("worlds", scs.len(), &opts);
    let mut outcomes: BTreeMap<String, u64> = BTreeMap::new();
    let mut samples = vec![];
    let mut sync_calls = 0u64;
    let mut c05_logs = 0u64;
    let mut c05_skip = 0u64;
    let mut c05_states = 0u64;
    let mut harness_errors: BTreeMap<String, u64> = BTreeMap::new();
    let mut stuck_err = 0u64;
    for (i, r) in res.into_iter().enumerate() {
        match r {
            pool::ItemResult::Crashed(w) => {
                // a hang / crash of a sync call is itself a violation of
                // "every sync ends"
                if prop == "C04" {
                    run.fail(&format!("sync_world_hangs_or_crashes:{}", sig_class(&scs[i], false)), "a world did not finish (hang or crash)", json!({"engine":"syncx","scenario": scs[i], "why": w}));
                }
            }
            pool::ItemResult::Done(v) => {
                if let Some(e) = v.get("error").and_then(|e| e.as_str()) {
                    let k: String = e.chars().take(80).collect();
                    *harness_errors.entry(k).or_default() += 1;
                    // an offline edit or the world set-up failing is not
                    // a statement about convergence: counted, reported in
                    // the evidence, not a verdict
                }
                if let Some(o) = v.get("outcome").and_then(|o| o.as_str()) {
                    *outcomes.entry(o.to_string()).or_default() += 1;
                }
                if v["stuck_with_error"].as_bool() == Some(true) {
                    stuck_err += 1;
                }
                sync_calls += v["results"].as_array().map(|a| a.len() as u64).unwrap_or(0);
                c05_logs += v["c05_logs_checked"].as_u64().unwrap_or(0);
                c05_skip += v["c05_logs_not_converged"].as_u64().unwrap_or(0);
                c05_states += v["c05_final_states_checked"].as_u64().unwrap_or(0);
                if let Some(fs) = v["fails"].as_array() {
                    for f in fs {
                        if f["prop"].as_str() == Some(prop.as_str()) {
                            run.fail(f["sig"].as_str().unwrap(), f["what"].as_str().unwrap(), json!({"engine":"syncx","scenario": scs[i], "shape": shape(&scs[i]), "detail": f["detail"]}));
                        }
                    }
                }
                if i % 97 == 0 {
                    push_sample(&mut samples, json!({"scenario": scs[i], "outcome": v["outcome"], "results": v["results"]}), 5);
                }
            }
        }
    }
    if outcomes.len() < 2 {
        run.machinery("vacuous: fewer than 2 distinct world outcomes");
    }
    run.assume("timestamps come from per-device logical clocks installed through hook H1; devices are driven one at a time (sequential syncs)");
    run.assume("the observer device is a replica of the common prefix that only syncs at the end (stands for a fresh puller)");
    let mut cov = Map::new();
    cov.insert("states".into(), json!(outcomes.len().max(1)));
    cov.insert("transitions".into(), json!(sync_calls.max(1)));
    cov.insert("traces_validated_against_impl".into(), json!(scs.len()));
    cov.insert("samples".into(), json!(samples));
    cov.insert("worlds".into(), json!(scs.len()));
    cov.insert("sync_calls".into(), json!(sync_calls));
    cov.insert("distinct_outcomes".into(), json!(outcomes));
    cov.insert("c05_replica_logs_checked".into(), json!(c05_logs));
    cov.insert("c05_logs_skipped_because_not_converged".into(), json!(c05_skip));
    cov.insert("c05_converged_folders_compared_with_time_ordered_replay".into(), json!(c05_states));
    cov.insert("world_errors".into(), json!(harness_errors));
    cov.insert("worlds_where_a_device_keeps_getting_an_error_from_sync_(not_a_violation_of_the_property_as_stated)".into(), json!(stuck_err));
    cov.insert("exhaustive".into(), json!(true));
    cov.insert("bounds".into(), json!({"devices": "2 (+observer); 3 in thorough", "suffix_len": "<=1 over 12 edits, <=2 over 4 edits", "orders": "both orders of 2 devices + rounds until quiescent (<=3)", "configs": format!("{:?}", configs(args.tier))}));
    cov.insert("explanation".into(), json!("every tuple of offline suffixes x sync order x clock pattern within the bounds is executed on a real in-process server and real LocalAccounts bridged by the real RemoteBridge; states = distinct world outcomes, transitions = sync calls"));
    std::process::exit(run.finish(cov));
}

fn replay(path: &Path, prop: &str) -> i32 {
    let v: Value = serde_json::from_slice(&std::fs::read(path).expect("read")).unwrap();
    let sc: Scenario = serde_json::from_value(v["witness"]["scenario"].clone()).unwrap();
    let want = v["signature"].as_str().unwrap_or("").to_string();
    let rt = rt();
    let mut obs = vec![];
    for round in 0..2 {
        let wd = fsutil::WorkDir::new(&format!("syncx-r{}", round));
        let t = rt.block_on(make_template(&wd.path().join("tpl"), sc.client_backend, sc.server_db, sc.edits.len())).unwrap();
        let r = rt.block_on(run_scenario(&t, &sc, &wd.path().join("w")));
        let mut sigs: Vec<String> = r["fails"].as_array().unwrap().iter().filter(|f| f["prop"].as_str() == Some(prop)).map(|f| f["sig"].as_str().unwrap().to_string()).collect();
        sigs.sort();
        sigs.dedup();
        println!("run {}: outcome={} results={} error={}", round, r["outcome"], r["results"], r.get("error").cloned().unwrap_or(Value::Null));
        obs.push(sigs);
    }
    if obs[0] != obs[1] {
        eprintln!("MACHINERY-ERROR replay is not deterministic: {:?} vs {:?}", obs[0], obs[1]);
        return 2;
    }
    for s in &obs[0] {
        println!("observed {}", s);
    }
    if obs[0].contains(&want) {
        println!("VIOLATION property={} replay={}", prop, path.display());
        1
    } else {
        0
    }
}

#[allow(dead_code)]
fn unused(_: PathBuf) {}
