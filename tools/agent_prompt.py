#!/usr/bin/env python3
import json, sys
pid = sys.argv[1]; wt = sys.argv[2]
extra = sys.argv[3] if len(sys.argv) > 3 else ""
p = [json.loads(l) for l in open('/verif/properties.jsonl') if json.loads(l)['id'] == pid][0]
print(f"""You are helping to evaluate a verification effort by producing ONE realistic, subtle bug (a "seeded change") in a Rust code base.

The code base is the saveoursecrets/sdk repository (Rust SDK, server and CLI for a local-first encrypted secrets database: event-sourced vault files with commit trees, binary encoding, multi-device sync). You have your own scratch git worktree of it at {wt} . Work ONLY inside {wt} . Never read or write /repo or /verif (they are off limits), and do not create other worktrees.

The semantic property that your change must break:

  Title: {p['title']}
  Statement: {p['statement']}
  Quantified over: {p['quantifier']['text']}

Your task: make a small source change (typically 1-15 lines, in the crates/ directory, not in tests) that BREAKS this property while
  (a) the workspace still compiles, and
  (b) the repository's existing test suite still passes exactly as before, and
  (c) the breakage needs something specific to manifest - a particular interleaving, a crash or fault at a particular point, a multi-step sequence of operations, an unusual input or configuration (for example only on the sqlite backend, only for one secret kind, only when two logs contain byte-identical events, only for the second of two items, only after a particular earlier operation), or two cooperating sites that each look fine alone. Ordinary single-step use must NOT expose it at once. It should look like a plausible mistake a maintainer could make (off-by-one, wrong variable, dropped step, wrong order, stale cache, missing scope), not like sabotage, and must not be a compile-time or test-only trick (no cfg(test) games, no env-var switches, no time bombs).
{extra}
How to build and test (offline; no network exists). ALWAYS export these first so that disk use stays small:
  cd {wt} && export CARGO_PROFILE_DEV_DEBUG=0 CARGO_PROFILE_TEST_DEBUG=0 CARGO_NET_OFFLINE=true
Full suite (takes several minutes; run it once on your final change, not in a loop):
  cargo nextest run --workspace --no-fail-fast --test-threads 8 --offline 2>&1 | tail -15
On the unmodified tree 283 tests pass and exactly these 3 fail (they fail for unrelated environmental reasons and must be ignored): sos-command-line-tests::main command_line, sos-unit-tests tests::not_authenticated::not_authenticated_local_account, sos-unit-tests tests::not_authenticated::not_authenticated_network_account. With your change the result must be the same: 283 passed, the same 3 failed.
While iterating, build/test single crates (e.g. cargo test -p sos-integration-tests --offline <filter>, cargo test -p sos-unit-tests --offline <filter>) to save time. Other jobs share this machine, so builds can be slow; be patient and avoid needless rebuilds. Use at most 8 build jobs (cargo -j 8).

You must also write a DEMONSTRATION: a test (preferably a new #[tokio::test] added to the repository's tests/integration or tests/unit crates, or a small example program) that FAILS with your change applied and PASSES without it. Look at tests/integration/tests/ and tests/utils/src for how existing tests create accounts, servers and devices. Verify both directions yourself (git stash or git apply -R to test without the change).

Deliverables, all inside {wt}/MUTATION/ :
  patch.diff   - `git diff` of ONLY the seeded source change (no demo, no tests); must apply with `git apply` to a clean checkout of this commit
  demo.diff    - `git diff` adding ONLY the demonstration test (applies on top of a clean checkout, with or without patch.diff)
  notes.md     - which file/function you changed and why it breaks the property; precisely what is needed for the breakage to manifest (the sequence / input / configuration); the exact command to run the demonstration; the observed outcome of the demonstration with and without the change; the full-suite result line with the change applied.
Before finishing, reset the worktree's tracked files so that it is clean except for the MUTATION/ directory (git checkout -- . ; remove the untracked demo files you added), but leave the target/ directory. Your final message should summarise notes.md in a few lines. Do not ask questions; make reasonable decisions yourself.""")
