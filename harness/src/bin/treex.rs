//! C08 — commit comparison tells the truth about who is ahead.
//!
//! Exhaustive over all ordered pairs (a, b) of non-empty leaf sequences
//! over a k-letter alphabet (repeats allowed) with |a|,|b| <= N:
//!   * a.compare(b.head())            vs prefix relation (SeqModel)
//!   * a.contains(b.head())           consistent with compare
//!   * for every i < |b|: b.proof([i]).verify_leaves(a.leaves)
//!                                    <=> i < |a| && a[i] == b[i]
//! The scan/ancestor search built on these is explored on real logs and a
//! real server in the sync-world engine (syncx --prop C08).
use serde_json::{json, Map, Value};
use sos_core::commit::{CommitTree, Comparison};
use vkit::pool::{self, PoolOpts};
use vkit::run::{push_sample, Args, Run};

fn seqs(k: u8, n: usize) -> Vec<Vec<u8>> {
    let mut out = vec![];
    let mut cur: Vec<Vec<u8>> = vec![vec![]];
    for _ in 0..n {
        let mut next = vec![];
        for s in &cur {
            for l in 0..k {
                let mut t = s.clone();
                t.push(l);
                next.push(t);
            }
        }
        out.extend(next.iter().cloned());
        cur = next;
    }
    out
}

fn tree_of(s: &[u8], salt: u64) -> CommitTree {
    let mut t = CommitTree::new();
    let mut leaves: Vec<[u8; 32]> = s
        .iter()
        .map(|l| {
            let mut d = salt.to_le_bytes().to_vec();
            d.push(*l);
            CommitTree::hash(&d)
        })
        .collect();
    t.append(&mut leaves);
    t.commit();
    t
}

fn is_prefix(p: &[u8], s: &[u8]) -> bool {
    p.len() <= s.len() && &s[..p.len()] == p
}

fn s2str(s: &[u8]) -> String {
    s.iter().map(|c| (b'a' + c) as char).collect()
}

#[derive(Default)]
struct Acc {
    pairs: u64,
    proof_checks: u64,
    exp_equal: u64,
    exp_contains: u64,
    exp_unknown: u64,
    // signature -> (count, witness)
    fails: std::collections::BTreeMap<String, (u64, Value, String)>,
    samples: Vec<Value>,
}

fn check_block(k: u8, n: usize, a_idx: usize, salt: u64) -> Value {
    let all = seqs(k, n);
    let a = &all[a_idx];
    let ta = tree_of(a, salt);
    let a_leaves = ta.leaves().unwrap_or_default();
    let mut acc = Acc::default();
    for b in &all {
        let tb = tree_of(b, salt);
        acc.pairs += 1;
        let head = tb.head().unwrap();
        let want = if a == b {
            acc.exp_equal += 1;
            "Equal".to_string()
        } else if is_prefix(b, a) {
            acc.exp_contains += 1;
            format!("Contains([{}])", b.len() - 1)
        } else {
            acc.exp_unknown += 1;
            "Unknown".to_string()
        };
        let got = match std::panic::catch_unwind(
            std::panic::AssertUnwindSafe(|| ta.compare(&head)),
        ) {
            Ok(Ok(Comparison::Equal)) => "Equal".to_string(),
            Ok(Ok(Comparison::Contains(ix))) => {
                format!("Contains({:?})", ix)
            }
            Ok(Ok(Comparison::Unknown)) => "Unknown".to_string(),
            Ok(Err(e)) => format!("Err({})", e),
            Err(_) => "Panic".to_string(),
        };
        if acc.samples.len() < 3 && b.len() > 1 && a.len() > 1 {
            acc.samples.push(json!({"a": s2str(a), "b": s2str(b), "compare": got, "expected": want}));
        }
        if got != want {
            let shape = if b.len() <= a.len()
                && a[b.len() - 1] == b[b.len() - 1]
            {
                "last_leaf_equal_prefix_differs"
            } else if b.len() > a.len() {
                "other_longer"
            } else {
                "other"
            };
            let gk = got.split('(').next().unwrap_or("").to_string();
            let wk = want.split('(').next().unwrap_or("").to_string();
            let sig =
                format!("compare:got={},want={},{}", gk, wk, shape);
            let e = acc.fails.entry(sig).or_insert((
                0,
                json!({"engine":"treex","k":k,"a": s2str(a), "b": s2str(b), "got": got, "want": want}),
                format!(
                    "a.compare(b.head()) answered {} where the prefix relation says {}",
                    gk, wk
                ),
            ));
            e.0 += 1;
        }
        // contains() consistent with compare
        let c = ta.contains(&head).ok().flatten().is_some();
        let want_c = want.starts_with("Contains");
        if c != want_c && !(got != want) {
            let e = acc
                .fails
                .entry("contains:inconsistent_with_compare".into())
                .or_insert((
                    0,
                    json!({"engine":"treex","a": s2str(a), "b": s2str(b)}),
                    "contains() disagrees with compare()".into(),
                ));
            e.0 += 1;
        }
        // single-leaf proofs of b at every index verified against a
        for i in 0..b.len() {
            let p = tb.proof(&[i]).unwrap();
            acc.proof_checks += 1;
            let (ok, _) = p.verify_leaves(&a_leaves);
            let want_ok = i < a.len() && a[i] == b[i];
            if ok != want_ok {
                let shape = if a.len() == b.len() {
                    "same_length"
                } else if a.len() < b.len() {
                    "verifier_shorter"
                } else {
                    "verifier_longer"
                };
                let sig = format!(
                    "verify_leaves:got={},want={},{}",
                    ok, want_ok, shape
                );
                let e = acc.fails.entry(sig).or_insert((
                    0,
                    json!({"engine":"treex","k":k,"a": s2str(a), "b": s2str(b), "index": i, "got": ok, "want": want_ok}),
                    format!("proof of b[{}] verified against a: got {} want {}", i, ok, want_ok),
                ));
                e.0 += 1;
            }
        }
    }
    json!({
        "pairs": acc.pairs, "proof_checks": acc.proof_checks,
        "exp_equal": acc.exp_equal, "exp_contains": acc.exp_contains, "exp_unknown": acc.exp_unknown,
        "fails": acc.fails.iter().map(|(k,v)| json!({"sig":k,"count":v.0,"witness":v.1,"what":v.2})).collect::<Vec<_>>(),
        "samples": acc.samples,
    })
}

fn configs(args: &Args) -> Vec<(u8, usize)> {
    match args.tier {
        vkit::run::Tier::Quick => vec![(2, 6), (3, 4)],
        vkit::run::Tier::Thorough => vec![(2, 9), (3, 6)],
    }
}

fn main() {
    let args = Args::parse();
    let cfgs = configs(&args);
    // item index space: concatenation over configs of a-indices
    let sizes: Vec<usize> =
        cfgs.iter().map(|(k, n)| seqs(*k, *n).len()).collect();
    let locate = |mut idx: usize| -> (usize, usize) {
        for (c, s) in sizes.iter().enumerate() {
            if idx < *s {
                return (c, idx);
            }
            idx -= s;
        }
        unreachable!()
    };
    if pool::worker_stage().is_some() {
        let seed = args.seed;
        pool::worker_loop(|idx| {
            let (c, ai) = locate(idx);
            check_block(cfgs[c].0, cfgs[c].1, ai, seed)
        });
    }
    if let Some(path) = &args.replay {
        std::process::exit(replay(path));
    }
    let mut run = Run::new("C08", "exploration", &args);
    let total: usize = sizes.iter().sum();
    let res = pool::run_stage("pairs", total, &PoolOpts::default());
    let (ok, bad) = pool::split_results(res);
    for (i, why) in bad {
        run.machinery(format!("worker failed on block {}: {}", i, why));
    }
    let mut pairs = 0u64;
    let mut proofs = 0u64;
    let (mut e, mut c, mut u) = (0u64, 0u64, 0u64);
    let mut samples = vec![];
    for (_, v) in ok {
        pairs += v["pairs"].as_u64().unwrap();
        proofs += v["proof_checks"].as_u64().unwrap();
        e += v["exp_equal"].as_u64().unwrap();
        c += v["exp_contains"].as_u64().unwrap();
        u += v["exp_unknown"].as_u64().unwrap();
        for f in v["fails"].as_array().unwrap() {
            run.fail_n(
                f["sig"].as_str().unwrap(),
                f["what"].as_str().unwrap(),
                f["witness"].clone(),
                f["count"].as_u64().unwrap(),
            );
        }
        for s in v["samples"].as_array().unwrap() {
            push_sample(&mut samples, s.clone(), 6);
        }
    }
    if e == 0 || c == 0 || u == 0 {
        run.machinery("vacuous: an expected comparison class never occurred");
    }
    run.assume("SHA-256 and rs_merkle proof verification are collision-free on the enumerated leaves (trusted base)");
    run.assume("leaf values are a function of (VERIF_SEED, letter); the set of explored pairs is a function of the tier only");
    let mut cov = Map::new();
    cov.insert("evaluations".into(), json!(pairs + proofs));
    cov.insert("distinct_nontrivial".into(), json!(pairs - e));
    cov.insert("rule".into(), json!(format!("every ordered pair (a,b) of non-empty leaf sequences over k letters with |a|,|b|<=N for (k,N) in {:?}: compare/contains on b's head proof, and b's single-leaf proof at every index verified against a; non-trivial = pairs with a != b (distinct by construction)", cfgs)));
    cov.insert("pairs".into(), json!(pairs));
    cov.insert("single_leaf_proof_checks".into(), json!(proofs));
    cov.insert("expected_equal".into(), json!(e));
    cov.insert("expected_contains".into(), json!(c));
    cov.insert("expected_unknown".into(), json!(u));
    cov.insert("exhaustive".into(), json!(true));
    cov.insert("bounds".into(), json!(cfgs));
    cov.insert("samples".into(), json!(samples));
    // the same relation at the level of real event logs: the log engine
    // compares every log it reaches (after append / patch / rewind / clear
    // / replace-all sequences, both backends, repeated events) with head
    // proofs of the model sequence, its proper prefix and an extension
    if std::env::var("VKIT_FRAGMENT").is_err() {
        let wd = vkit::fsutil::WorkDir::new("treex");
        let frag = wd.path().join("logx-fragment.json");
        let logx = std::env::current_exe().unwrap().with_file_name("logx");
        let st = std::process::Command::new(&logx)
            .args(["--prop", "C08", "--tier", args.tier.as_str()])
            .env("VKIT_FRAGMENT", &frag)
            .env_remove("VKIT_WORKER")
            .env_remove("VKIT_INPUT")
            .stdout(std::process::Stdio::null())
            .status();
        match st {
            Ok(s) if s.success() => {
                let v: Value = serde_json::from_slice(&std::fs::read(&frag).unwrap_or_default()).unwrap_or(json!({}));
                if let Some(fs) = v["failures"].as_array() {
                    for f in fs {
                        run.fail_n(f["sig"].as_str().unwrap(), f["what"].as_str().unwrap(), f["witness"].clone(), f["count"].as_u64().unwrap_or(1));
                    }
                }
                let c = &v["evidence"]["coverage"];
                if c["transitions"].as_u64().unwrap_or(0) == 0 {
                    run.machinery("vacuous: the log engine explored nothing");
                }
                cov.insert("log_level_compare_(log_engine)".into(), json!({"log_states": c["states"], "log_transitions": c["transitions"], "depth": c["depth"], "relations_checked_per_log_and_transition": ["same sequence -> Equal", "proper prefix -> Contains", "longer sequence -> Unknown"]}));
            }
            other => run.machinery(format!("logx fragment failed: {:?}", other)),
        }
    }
    std::process::exit(run.finish(cov));
}

fn replay(path: &std::path::Path) -> i32 {
    let v: Value =
        serde_json::from_slice(&std::fs::read(path).expect("read replay"))
            .expect("json");
    let w = &v["witness"];
    let parse = |s: &str| -> Vec<u8> {
        s.bytes().map(|c| c - b'a').collect()
    };
    let a = parse(w["a"].as_str().unwrap());
    let b = parse(w["b"].as_str().unwrap());
    let mut outs = vec![];
    for _ in 0..2 {
        let ta = tree_of(&a, 0);
        let tb = tree_of(&b, 0);
        let got = format!("{:?}", ta.compare(&tb.head().unwrap()).ok());
        let proofs: Vec<bool> = (0..b.len())
            .map(|i| {
                tb.proof(&[i])
                    .unwrap()
                    .verify_leaves(&ta.leaves().unwrap())
                    .0
            })
            .collect();
        outs.push((got, proofs));
    }
    assert_eq!(outs[0], outs[1], "non-deterministic replay");
    let want = if a == b {
        "Some(Equal)".to_string()
    } else if is_prefix(&b, &a) {
        format!("Some(Contains([{}]))", b.len() - 1)
    } else {
        "Some(Unknown)".to_string()
    };
    let want_p: Vec<bool> = (0..b.len())
        .map(|i| i < a.len() && a[i] == b[i])
        .collect();
    println!(
        "a={} b={} compare={} want={} proofs={:?} want={:?}",
        s2str(&a),
        s2str(&b),
        outs[0].0,
        want,
        outs[0].1,
        want_p
    );
    if outs[0].0 != want || outs[0].1 != want_p {
        println!("VIOLATION property=C08 replay={}", path.display());
        1
    } else {
        0
    }
}
