//! Value enumerators and deep projections shared by codecx (C14) and
//! fuzzx (C15).
//!
//! Every generator is deterministic (no clock, no RNG): calling it twice
//! yields equal values, so types that are consumed by their encoder can be
//! generated once for the reference and once for the encoder.
//!
//! `Proj::proj` is the harness-defined deep equality: a canonical JSON
//! value covering every field that the format is supposed to carry (the
//! repository's `PartialEq` impls are partial for several types).
//! Collections with set/map semantics (HashSet, HashMap) are sorted;
//! ordered collections (Vec, IndexMap, IndexSet) keep their order.
use indexmap::{IndexMap, IndexSet};
use secrecy::ExposeSecret;
use serde_json::{json, Value};
use sos_core::{
    commit::{CommitHash, CommitProof, CommitState, CommitTree, Comparison},
    crypto::{AeadPack, Cipher, KeyDerivation, Nonce, Seed},
    device::{DeviceMetaData, DevicePublicKey, TrustedDevice},
    events::{
        patch::{CheckedPatch, Diff, Patch},
        AccountEvent, DeviceEvent, EventKind, EventLogType, EventRecord,
        FileEvent, WriteEvent,
    },
    AccountId, ExternalFile, ExternalFileName, Origin, SecretPath,
    UtcDateTime, VaultCommit, VaultEntry, VaultFlags,
};
use sos_protocol::{
    transfer::{FileSet, FileTransfersSet},
    DiffRequest, DiffResponse, NetworkChangeEvent, PatchRequest,
    PatchResponse, ScanRequest, ScanResponse,
};
use sos_sync::{
    CreateSet, MaybeDiff, MergeOutcome, SyncCompare, SyncDiff, SyncPacket,
    SyncStatus, TrackedAccountChange, TrackedChanges, TrackedDeviceChange,
    TrackedFileChange, TrackedFolderChange, UpdateSet,
};
use sos_vault::{
    secret::{
        FileContent, IdentityKind, Secret, SecretFlags, SecretMeta,
        SecretRow, SecretSigner, SecretType, UserData,
    },
    Header, SharedAccess, Summary, Vault, VaultMeta,
};
use std::collections::{BTreeMap, HashMap, HashSet};
use time::OffsetDateTime;
use uuid::Uuid;

static DEEP: std::sync::atomic::AtomicBool =
    std::sync::atomic::AtomicBool::new(false);

/// Thorough tier: larger products for several types.
pub fn set_deep(v: bool) {
    DEEP.store(v, std::sync::atomic::Ordering::SeqCst);
}

pub fn deep() -> bool {
    DEEP.load(std::sync::atomic::Ordering::SeqCst)
}

pub struct Case<T> {
    pub label: String,
    pub value: T,
    /// used as a seed for the mutation enumerator
    pub seed: bool,
}

fn c<T>(label: impl Into<String>, value: T) -> Case<T> {
    Case {
        label: label.into(),
        value,
        seed: false,
    }
}

fn s<T>(label: impl Into<String>, value: T) -> Case<T> {
    Case {
        label: label.into(),
        value,
        seed: true,
    }
}

// ------------------------------------------------------------ projection

pub trait Proj {
    fn proj(&self) -> Value;
}

impl<T: Proj> Proj for Option<T> {
    fn proj(&self) -> Value {
        match self {
            Some(v) => json!({ "Some": v.proj() }),
            None => Value::Null,
        }
    }
}

impl<T: Proj> Proj for Vec<T> {
    fn proj(&self) -> Value {
        Value::Array(self.iter().map(|v| v.proj()).collect())
    }
}

fn ser<T: serde::Serialize>(v: &T) -> Value {
    crate::gen::canon_json(&serde_json::to_value(v).expect("to_value"))
}

impl Proj for UtcDateTime {
    fn proj(&self) -> Value {
        let t: OffsetDateTime = self.clone().into();
        json!({ "unix_nanos": t.unix_timestamp_nanos().to_string() })
    }
}

impl Proj for CommitHash {
    fn proj(&self) -> Value {
        json!(hex::encode(self.0))
    }
}

impl Proj for CommitProof {
    fn proj(&self) -> Value {
        json!({
            "root": hex::encode(self.root.0),
            "proof": hex::encode(self.proof.to_bytes()),
            "length": self.length,
            "indices": self.indices,
        })
    }
}

impl Proj for CommitState {
    fn proj(&self) -> Value {
        json!([self.0.proj(), self.1.proj()])
    }
}

impl Proj for Comparison {
    fn proj(&self) -> Value {
        match self {
            Comparison::Equal => json!("Equal"),
            Comparison::Contains(ix) => json!({ "Contains": ix }),
            Comparison::Unknown => json!("Unknown"),
        }
    }
}

impl Proj for AeadPack {
    fn proj(&self) -> Value {
        json!({
            "nonce_len": self.nonce.as_ref().len(),
            "nonce": hex::encode(self.nonce.as_ref()),
            "ciphertext": hex::encode(&self.ciphertext),
        })
    }
}

impl Proj for VaultEntry {
    fn proj(&self) -> Value {
        json!([self.0.proj(), self.1.proj()])
    }
}

impl Proj for VaultCommit {
    fn proj(&self) -> Value {
        json!([self.0.proj(), self.1.proj()])
    }
}

impl Proj for Cipher {
    fn proj(&self) -> Value {
        json!(format!("{:?}", self))
    }
}

impl Proj for KeyDerivation {
    fn proj(&self) -> Value {
        json!(format!("{:?}", self))
    }
}

impl Proj for EventRecord {
    fn proj(&self) -> Value {
        json!({
            "time": self.time().proj(),
            "last_commit": self.last_commit().proj(),
            "commit": self.commit().proj(),
            "event": hex::encode(self.event_bytes()),
        })
    }
}

// Derived `Debug` of the event enums prints every field (the serde
// derives skip the binary payloads, Debug does not).
impl Proj for WriteEvent {
    fn proj(&self) -> Value {
        match self {
            WriteEvent::CreateSecret(id, c) => {
                json!({"CreateSecret": [id.to_string(), c.proj()]})
            }
            WriteEvent::UpdateSecret(id, c) => {
                json!({"UpdateSecret": [id.to_string(), c.proj()]})
            }
            WriteEvent::SetVaultMeta(p) => json!({"SetVaultMeta": p.proj()}),
            WriteEvent::SetVaultFlags(f) => {
                json!({"SetVaultFlags": f.bits()})
            }
            other => json!(format!("{:?}", other)),
        }
    }
}

impl Proj for AccountEvent {
    fn proj(&self) -> Value {
        json!(format!("{:?}", self))
    }
}

impl Proj for TrustedDevice {
    fn proj(&self) -> Value {
        json!({
            "public_key": hex::encode(self.public_key().as_ref()),
            "extra_info": ser(self.extra_info()),
            "created_unix_nanos": self.created_date().unix_timestamp_nanos().to_string(),
        })
    }
}

impl Proj for DeviceEvent {
    fn proj(&self) -> Value {
        match self {
            DeviceEvent::Noop => json!("Noop"),
            DeviceEvent::Trust(d) => json!({ "Trust": d.proj() }),
            DeviceEvent::Revoke(k) => {
                json!({ "Revoke": hex::encode(k.as_ref()) })
            }
        }
    }
}

impl Proj for FileEvent {
    fn proj(&self) -> Value {
        json!(format!("{:?}", self))
    }
}

impl Proj for Summary {
    fn proj(&self) -> Value {
        json!({
            "version": self.version(),
            "id": self.id().to_string(),
            "name": self.name(),
            "cipher": format!("{:?}", self.cipher()),
            "kdf": format!("{:?}", self.kdf()),
            "flags": self.flags().bits(),
        })
    }
}

impl Proj for SharedAccess {
    fn proj(&self) -> Value {
        match self {
            SharedAccess::WriteAccess(r) => json!({ "write": r }),
            SharedAccess::ReadOnly(p) => json!({ "read": p.proj() }),
        }
    }
}

/// Header: summary, meta, salt, seed (through the serde derive, which
/// covers the private `auth` member) and shared access.
pub fn header_proj(h: &Header, shared: &SharedAccess) -> Value {
    let v = ser(h);
    json!({
        "summary": Summary::proj(&v_summary(h)),
        "meta": h.meta().cloned().proj(),
        "auth": v.get("auth").cloned().unwrap_or(Value::Null),
        "shared_access": shared.proj(),
    })
}

fn v_summary(h: &Header) -> Summary {
    // Header exposes the summary only through Vault; rebuild from parts
    let v: Vault = h.clone().into();
    v.summary().clone()
}

impl Proj for Header {
    fn proj(&self) -> Value {
        let v: Vault = self.clone().into();
        header_proj(self, v.shared_access())
    }
}

impl Proj for Vault {
    fn proj(&self) -> Value {
        json!({
            "header": header_proj(self.header(), self.shared_access()),
            "rows": self.iter().map(|(id, c)| json!([id.to_string(), c.proj()])).collect::<Vec<_>>(),
        })
    }
}

impl Proj for VaultMeta {
    fn proj(&self) -> Value {
        json!({
            "date_created": self.date_created().proj(),
            "description": self.description(),
        })
    }
}

impl Proj for SecretMeta {
    fn proj(&self) -> Value {
        let mut tags: Vec<&String> = self.tags().iter().collect();
        tags.sort();
        let kind: u8 = (*self.kind()).into();
        json!({
            "kind": kind,
            "flags": self.flags().bits(),
            "label": self.label(),
            "tags": tags,
            "favorite": self.favorite(),
            "urn": self.urn().map(|u| u.to_string()),
            "owner_id": self.owner_id(),
            "date_created": self.date_created().proj(),
            "last_updated": self.last_updated().proj(),
        })
    }
}

impl Proj for UserData {
    fn proj(&self) -> Value {
        json!({
            "fields": self.fields().iter().map(|f| f.proj()).collect::<Vec<_>>(),
            "comment": self.comment(),
            "recovery_note": self.recovery_note(),
        })
    }
}

impl Proj for SecretRow {
    fn proj(&self) -> Value {
        json!({
            "id": self.id().to_string(),
            "meta": self.meta().proj(),
            "secret": self.secret().proj(),
        })
    }
}

fn opt_secret(v: &Option<secrecy::SecretString>) -> Value {
    match v {
        Some(s) => json!({ "Some": s.expose_secret() }),
        None => Value::Null,
    }
}

impl Proj for Secret {
    fn proj(&self) -> Value {
        let body = match self {
            Secret::Note { text, .. } => {
                json!({"kind": "note", "text": text.expose_secret()})
            }
            Secret::File { content, .. } => match content {
                FileContent::Embedded {
                    name,
                    mime,
                    buffer,
                    checksum,
                } => json!({"kind": "file", "content": "embedded", "name": name, "mime": mime,
                    "buffer": hex::encode(buffer.expose_secret()), "checksum": hex::encode(checksum)}),
                // `path` is documented as never encoded
                FileContent::External {
                    name,
                    mime,
                    checksum,
                    size,
                    ..
                } => json!({"kind": "file", "content": "external", "name": name, "mime": mime,
                    "checksum": hex::encode(checksum), "size": size.to_string()}),
            },
            Secret::Account {
                account,
                password,
                url,
                ..
            } => json!({"kind": "account", "account": account, "password": password.expose_secret(),
                "url": url.iter().map(|u| u.to_string()).collect::<Vec<_>>()}),
            Secret::List { items, .. } => {
                let m: BTreeMap<&String, &str> = items
                    .iter()
                    .map(|(k, v)| (k, v.expose_secret()))
                    .collect();
                json!({"kind": "list", "items": m})
            }
            Secret::Pem { certificates, .. } => json!({"kind": "pem",
                "certificates": certificates.iter().map(|p| json!({
                    "tag": p.tag(), "contents": hex::encode(p.contents()),
                    "headers": p.headers().iter().map(|(k, v)| json!([k, v])).collect::<Vec<_>>(),
                })).collect::<Vec<_>>()}),
            Secret::Page {
                title,
                mime,
                document,
                ..
            } => json!({"kind": "page", "title": title, "mime": mime, "document": document.expose_secret()}),
            Secret::Signer { private_key, .. } => match private_key {
                SecretSigner::SinglePartyEcdsa(b) => {
                    json!({"kind": "signer", "key": "ecdsa", "bytes": hex::encode(b.expose_secret())})
                }
                SecretSigner::SinglePartyEd25519(b) => {
                    json!({"kind": "signer", "key": "ed25519", "bytes": hex::encode(b.expose_secret())})
                }
            },
            Secret::Contact { vcard, .. } => json!({"kind": "contact",
                "text": vcard.to_string(), "json": ser(&**vcard)}),
            Secret::Totp { totp, .. } => json!({"kind": "totp", "totp": ser(totp)}),
            Secret::Card {
                number,
                expiry,
                cvv,
                name,
                atm_pin,
                ..
            } => json!({"kind": "card", "number": number.expose_secret(), "expiry": expiry.proj(),
                "cvv": cvv.expose_secret(), "name": opt_secret(name), "atm_pin": opt_secret(atm_pin)}),
            Secret::Bank {
                number,
                routing,
                iban,
                swift,
                bic,
                ..
            } => json!({"kind": "bank", "number": number.expose_secret(), "routing": routing.expose_secret(),
                "iban": opt_secret(iban), "swift": opt_secret(swift), "bic": opt_secret(bic)}),
            Secret::Link {
                url, label, title, ..
            } => json!({"kind": "link", "url": url.expose_secret(), "label": opt_secret(label), "title": opt_secret(title)}),
            Secret::Password { password, name, .. } => {
                json!({"kind": "password", "password": password.expose_secret(), "name": opt_secret(name)})
            }
            Secret::Identity {
                id_kind,
                number,
                issue_place,
                issue_date,
                expiry_date,
                ..
            } => {
                let k: u8 = id_kind.into();
                json!({"kind": "identity", "id_kind": k, "number": number.expose_secret(),
                    "issue_place": issue_place, "issue_date": issue_date.proj(), "expiry_date": expiry_date.proj()})
            }
            Secret::Age { key, .. } => {
                json!({"kind": "age", "version": 1, "key": key.expose_secret()})
            }
        };
        json!({"body": body, "user_data": self.user_data().proj()})
    }
}

impl Proj for sos_audit::AuditEvent {
    fn proj(&self) -> Value {
        json!({
            "time": self.time().proj(),
            "kind": format!("{:?}", self.event_kind()),
            "account_id": self.account_id().to_string(),
            "data": format!("{:?}", self.data()),
        })
    }
}

// ----- wire-only types

impl Proj for Origin {
    fn proj(&self) -> Value {
        json!({"name": self.name(), "url": self.url().to_string()})
    }
}

impl Proj for EventLogType {
    fn proj(&self) -> Value {
        json!(format!("{:?}", self))
    }
}

impl Proj for SyncStatus {
    fn proj(&self) -> Value {
        json!({
            "root": self.root.proj(),
            "identity": self.identity.proj(),
            "account": self.account.proj(),
            "device": self.device.proj(),
            "files": self.files.proj(),
            "folders": self.folders.iter().map(|(k, v)| json!([k.to_string(), v.proj()])).collect::<Vec<_>>(),
        })
    }
}

impl<T> Proj for Patch<T> {
    fn proj(&self) -> Value {
        Value::Array(self.records().iter().map(|r| r.proj()).collect())
    }
}

impl<T> Proj for Diff<T> {
    fn proj(&self) -> Value {
        json!({
            "patch": self.patch.proj(),
            "checkpoint": self.checkpoint.proj(),
            "last_commit": self.last_commit.proj(),
        })
    }
}

impl<T: Proj> Proj for MaybeDiff<T> {
    fn proj(&self) -> Value {
        match self {
            MaybeDiff::Diff(d) => json!({ "Diff": d.proj() }),
            MaybeDiff::Compare(c) => json!({ "Compare": c.proj() }),
        }
    }
}

fn sorted_map<V>(m: &HashMap<Uuid, V>, f: impl Fn(&V) -> Value) -> Value {
    let b: BTreeMap<String, Value> =
        m.iter().map(|(k, v)| (k.to_string(), f(v))).collect();
    json!(b)
}

impl Proj for CreateSet {
    fn proj(&self) -> Value {
        json!({
            "identity": self.identity.proj(),
            "account": self.account.proj(),
            "device": self.device.proj(),
            "files": self.files.proj(),
            "folders": sorted_map(&self.folders, |v| v.proj()),
        })
    }
}

impl Proj for UpdateSet {
    fn proj(&self) -> Value {
        json!({
            "identity": self.identity.proj(),
            "account": self.account.proj(),
            "device": self.device.proj(),
            "files": self.files.proj(),
            "folders": sorted_map(&self.folders, |v| v.proj()),
        })
    }
}

impl Proj for SyncDiff {
    fn proj(&self) -> Value {
        json!({
            "identity": self.identity.proj(),
            "account": self.account.proj(),
            "device": self.device.proj(),
            "files": self.files.proj(),
            "folders": self.folders.iter().map(|(k, v)| json!([k.to_string(), v.proj()])).collect::<Vec<_>>(),
        })
    }
}

impl Proj for SyncCompare {
    fn proj(&self) -> Value {
        json!({
            "identity": self.identity.proj(),
            "account": self.account.proj(),
            "device": self.device.proj(),
            "files": self.files.proj(),
            "folders": self.folders.iter().map(|(k, v)| json!([k.to_string(), v.proj()])).collect::<Vec<_>>(),
        })
    }
}

impl Proj for SyncPacket {
    fn proj(&self) -> Value {
        json!({
            "status": self.status.proj(),
            "diff": self.diff.proj(),
            "compare": self.compare.proj(),
        })
    }
}

fn dbg_list<'a, T: std::fmt::Debug + 'a>(
    it: impl Iterator<Item = &'a T>,
) -> Value {
    Value::Array(it.map(|x| json!(format!("{:?}", x))).collect())
}

impl Proj for TrackedChanges {
    fn proj(&self) -> Value {
        json!({
            "identity": dbg_list(self.identity.iter()),
            "device": dbg_list(self.device.iter()),
            "account": dbg_list(self.account.iter()),
            "files": dbg_list(self.files.iter()),
            "folders": sorted_map(&self.folders, |v| dbg_list(v.iter())),
        })
    }
}

impl Proj for MergeOutcome {
    fn proj(&self) -> Value {
        // `external_files` is documented as never sent over the wire
        json!({"changes": self.changes.to_string(), "tracked": self.tracked.proj()})
    }
}

impl Proj for NetworkChangeEvent {
    fn proj(&self) -> Value {
        json!({
            "account_id": self.account_id().to_string(),
            "connection_id": self.connection_id(),
            "root": self.root().proj(),
            "outcome": self.outcome().proj(),
        })
    }
}

impl Proj for CheckedPatch {
    fn proj(&self) -> Value {
        match self {
            CheckedPatch::Success(p) => json!({ "Success": p.proj() }),
            CheckedPatch::Conflict { head, contains } => {
                json!({"Conflict": {"head": head.proj(), "contains": contains.proj()}})
            }
        }
    }
}

impl Proj for DiffRequest {
    fn proj(&self) -> Value {
        json!({"log_type": self.log_type.proj(), "from_hash": self.from_hash.proj()})
    }
}
impl Proj for DiffResponse {
    fn proj(&self) -> Value {
        json!({"patch": self.patch.proj(), "checkpoint": self.checkpoint.proj()})
    }
}
impl Proj for PatchRequest {
    fn proj(&self) -> Value {
        json!({"log_type": self.log_type.proj(), "commit": self.commit.proj(),
            "proof": self.proof.proj(), "patch": self.patch.proj()})
    }
}
impl Proj for PatchResponse {
    fn proj(&self) -> Value {
        json!({"checked_patch": self.checked_patch.proj()})
    }
}
impl Proj for ScanRequest {
    fn proj(&self) -> Value {
        json!({"log_type": self.log_type.proj(), "limit": self.limit, "offset": self.offset.to_string()})
    }
}
impl Proj for ScanResponse {
    fn proj(&self) -> Value {
        json!({"first_proof": self.first_proof.proj(), "proofs": self.proofs.proj(), "offset": self.offset.to_string()})
    }
}
impl Proj for ExternalFile {
    fn proj(&self) -> Value {
        json!(self.to_string())
    }
}
impl Proj for FileSet {
    fn proj(&self) -> Value {
        Value::Array(self.0.iter().map(|f| f.proj()).collect())
    }
}
impl Proj for FileTransfersSet {
    fn proj(&self) -> Value {
        json!({"uploads": self.uploads.proj(), "downloads": self.downloads.proj()})
    }
}

// ------------------------------------------------------------ generators

pub fn uid(n: u8) -> Uuid {
    let mut b = [0u8; 16];
    for (i, x) in b.iter_mut().enumerate() {
        *x = n.wrapping_mul(17).wrapping_add((i as u8).wrapping_mul(7)).wrapping_add(1);
    }
    Uuid::from_bytes(b)
}

pub fn bytes32(n: u8) -> [u8; 32] {
    CommitTree::hash(&[n, 0xc1, 0x4e])
}

pub fn hash(n: u8) -> CommitHash {
    CommitHash(bytes32(n))
}

pub fn blob(len: usize, salt: u8) -> Vec<u8> {
    (0..len).map(|i| (i as u8).wrapping_mul(31) ^ salt).collect()
}

fn t(nanos: i128) -> UtcDateTime {
    OffsetDateTime::from_unix_timestamp_nanos(nanos)
        .expect("time in range")
        .into()
}

/// 2024-02-29T12:34:56.123456789Z
pub const T_NANOS: i128 = 1_709_210_096_123_456_789;
/// 0001-01-01T00:00:00Z
pub const T_YEAR1: i128 = -62_135_596_800_000_000_000;
/// 9999-12-31T23:59:59.999999999Z
pub const T_YEAR9999: i128 = 253_402_300_799_999_999_999;
/// -9999-01-01T00:00:00Z (smallest value of the time crate)
pub const T_MIN: i128 = -377_705_116_800_000_000_000;

pub fn t_epoch() -> UtcDateTime {
    t(0)
}
pub fn t_nanos() -> UtcDateTime {
    t(T_NANOS)
}
pub fn t_other() -> UtcDateTime {
    t(1_600_000_000_000_000_007)
}

pub fn times() -> Vec<Case<UtcDateTime>> {
    let plus2 = OffsetDateTime::from_unix_timestamp_nanos(T_NANOS)
        .unwrap()
        .to_offset(time::UtcOffset::from_hms(2, 0, 0).unwrap());
    vec![
        s("epoch", t(0)),
        s("2024_with_nanos", t(T_NANOS)),
        c("max_subsecond", t(1_700_000_000_999_999_999)),
        c("one_nanosecond", t(1)),
        s("pre_epoch", t(-999_999_999)),
        c("pre_epoch_whole_second", t(-86_400_000_000_000)),
        c("year_1", t(T_YEAR1)),
        s("year_9999_last_nanosecond", t(T_YEAR9999)),
        c("year_minus_9999", t(T_MIN)),
        c("same_instant_offset_plus2", plus2.into()),
    ]
}

/// times representable as RFC 3339 text (years 0..=9999)
pub fn times_rfc3339() -> Vec<Case<UtcDateTime>> {
    times()
        .into_iter()
        .filter(|c| c.label != "year_minus_9999")
        .collect()
}

pub fn ciphers() -> Vec<Case<Cipher>> {
    vec![
        s("xchacha20poly1305", Cipher::XChaCha20Poly1305),
        c("aes_gcm_256", Cipher::AesGcm256),
        c("x25519", Cipher::X25519),
    ]
}

pub fn kdfs() -> Vec<Case<KeyDerivation>> {
    vec![
        s("argon2id", KeyDerivation::Argon2Id),
        c("balloon", KeyDerivation::BalloonHash),
    ]
}

pub fn pack12(len: usize, salt: u8) -> AeadPack {
    let mut n = [0u8; 12];
    n.copy_from_slice(&blob(12, salt ^ 0x33));
    AeadPack {
        nonce: Nonce::Nonce12(n),
        ciphertext: blob(len, salt),
    }
}

pub fn pack24(len: usize, salt: u8) -> AeadPack {
    let mut n = [0u8; 24];
    n.copy_from_slice(&blob(24, salt ^ 0x55));
    AeadPack {
        nonce: Nonce::Nonce24(n),
        ciphertext: blob(len, salt),
    }
}

pub fn packs() -> Vec<Case<AeadPack>> {
    let mut out = vec![];
    let lens: Vec<usize> = if deep() { vec![0, 1, 33, 300, 65_536, 1 << 20] } else { vec![0, 1, 33, 300, 65_536] };
    for len in lens {
        out.push(Case {
            label: format!("nonce12_len{}", len),
            value: pack12(len, 1),
            seed: len == 33,
        });
        out.push(Case {
            label: format!("nonce24_len{}", len),
            value: pack24(len, 2),
            seed: len == 33,
        });
    }
    out
}

pub fn entries() -> Vec<Case<VaultEntry>> {
    vec![
        s("12_then_24", VaultEntry(pack12(17, 3), pack24(40, 4))),
        c("24_then_12", VaultEntry(pack24(17, 5), pack12(40, 6))),
        c("12_then_12", VaultEntry(pack12(1, 7), pack12(2, 8))),
        c("24_then_24", VaultEntry(pack24(0, 9), pack24(0, 10))),
        c("empty_then_full", VaultEntry(pack12(0, 11), pack24(64, 12))),
    ]
}

pub fn vault_commits() -> Vec<Case<VaultCommit>> {
    entries()
        .into_iter()
        .enumerate()
        .map(|(i, e)| Case {
            label: e.label,
            value: VaultCommit(hash(i as u8 + 20), e.value),
            seed: e.seed,
        })
        .collect()
}

pub fn hashes() -> Vec<Case<CommitHash>> {
    vec![
        c("zero", CommitHash([0; 32])),
        c("ones", CommitHash([0xff; 32])),
        s("pattern", hash(1)),
    ]
}

pub fn tree(n: usize, salt: u8) -> CommitTree {
    let mut tr = CommitTree::new();
    let mut leaves: Vec<[u8; 32]> =
        (0..n).map(|i| CommitTree::hash(&[salt, i as u8])).collect();
    tr.append(&mut leaves);
    tr.commit();
    tr
}

pub fn proof(n: usize, i: usize) -> CommitProof {
    tree(n, 7).proof(&[i]).expect("proof")
}

pub fn proofs() -> Vec<Case<CommitProof>> {
    let mut out = vec![c("default_empty", CommitProof::default())];
    for n in 1..=5usize {
        let tr = tree(n, 7);
        for i in 0..n {
            out.push(Case {
                label: format!("tree{}_leaf{}", n, i),
                value: tr.proof(&[i]).unwrap(),
                seed: n == 4 && i == 1,
            });
        }
        out.push(c(format!("tree{}_head", n), tr.head().unwrap()));
    }
    let tr = tree(5, 7);
    out.push(c("tree5_leaves_0_and_4", tr.proof(&[0, 4]).unwrap()));
    out.push(c("tree5_leaves_1_2_3", tr.proof(&[1, 2, 3]).unwrap()));
    out
}

pub fn state(n: usize) -> CommitState {
    tree(n, 9).commit_state().expect("commit state")
}

pub fn states() -> Vec<Case<CommitState>> {
    let mut out = vec![c("default", CommitState::default())];
    for n in 1..=5usize {
        out.push(Case {
            label: format!("tree{}", n),
            value: state(n),
            seed: n == 3,
        });
    }
    out.push(c("first_commit_of_3", tree(3, 9).first_commit().unwrap()));
    out
}

pub fn comparisons() -> Vec<Case<Comparison>> {
    vec![
        c("equal", Comparison::Equal),
        c("contains_none", Comparison::Contains(vec![])),
        c("contains_0", Comparison::Contains(vec![0])),
        s(
            "contains_0_1_big",
            Comparison::Contains(vec![0, 1, u32::MAX as usize + 7]),
        ),
        c("contains_usize_max", Comparison::Contains(vec![usize::MAX])),
        c("unknown", Comparison::Unknown),
    ]
}

pub fn record(i: u8, len: usize) -> EventRecord {
    let time = match i % 3 {
        0 => t_nanos(),
        1 => t_epoch(),
        _ => t_other(),
    };
    let last = if i % 2 == 0 {
        CommitHash([0; 32])
    } else {
        hash(i ^ 0x40)
    };
    let body = blob(len, i);
    EventRecord::new(time, last, CommitHash(CommitTree::hash(&body)), body)
}

pub fn records() -> Vec<Case<EventRecord>> {
    let mut out = vec![];
    for tc in times() {
        out.push(Case {
            seed: tc.label == "year_9999_last_nanosecond",
            label: format!("time_{}", tc.label),
            value: EventRecord::new(tc.value, hash(3), hash(4), blob(5, 1)),
        });
    }
    if deep() {
        for tc in times() {
            for len in [0usize, 1, 300, 70_000] {
                for last in [CommitHash([0; 32]), hash(5)] {
                    out.push(c(format!("deep_time_{}_len{}_last{}", tc.label, len, last.0[0]), EventRecord::new(tc.value.clone(), last, hash(6), blob(len, 2))));
                }
            }
        }
    }
    for (i, len) in [0usize, 1, 300].into_iter().enumerate() {
        for last_zero in [true, false] {
            out.push(Case {
                label: format!("len{}_lastzero_{}", len, last_zero),
                value: EventRecord::new(
                    t_nanos(),
                    if last_zero { CommitHash([0; 32]) } else { hash(5) },
                    hash(6 + i as u8),
                    blob(len, 2),
                ),
                seed: len == 1 && !last_zero,
            });
        }
    }
    out
}

pub const AGE_KEYS: [&str; 2] = [
    "AGE-SECRET-KEY-1QYPQXPQ9QCRSSZG2PVXQ6RS0ZQG3YYC5Z5TPWXQERGD3C8G7RUSQGPQYEE",
    "AGE-SECRET-KEY-1V3JKVEMGD94XKMRDDEHHQUTJWD682ANH0PUH57MU04L8LQYPS2PSGQPNYW",
];

pub fn recipients() -> Vec<String> {
    AGE_KEYS
        .iter()
        .map(|k| {
            let id: age::x25519::Identity = k.parse().expect("age identity");
            id.to_public().to_string()
        })
        .collect()
}

pub const NAMES: [&str; 3] = ["", "plain name", "名前 é✓ \u{1F511}"];

pub fn flag_sets() -> Vec<VaultFlags> {
    vec![
        VaultFlags::empty(),
        VaultFlags::DEFAULT,
        VaultFlags::all(),
        VaultFlags::SHARED | VaultFlags::NO_SYNC,
    ]
}

pub fn summaries() -> Vec<Case<Summary>> {
    let mut out = vec![];
    for version in [0u16, 1, u16::MAX] {
        for cipher in ciphers() {
            for kdf in kdfs() {
                for (ni, name) in NAMES.iter().enumerate() {
                    for (fi, flags) in flag_sets().into_iter().enumerate() {
                        out.push(Case {
                            label: format!("v{}_{}_{}_name{}_flags{}", version, cipher.label, kdf.label, ni, fi),
                            value: Summary::new(version, uid(1), name.to_string(), cipher.value, kdf.value, flags),
                            seed: version == 1 && ni == 2 && fi == 1 && cipher.label == "aes_gcm_256" && kdf.label == "argon2id",
                        });
                    }
                }
            }
        }
    }
    out
}

pub fn shared_accesses() -> Vec<(String, SharedAccess)> {
    let r = recipients();
    vec![
        ("write_none".into(), SharedAccess::WriteAccess(vec![])),
        ("write_one".into(), SharedAccess::WriteAccess(vec![r[0].clone()])),
        ("write_two".into(), SharedAccess::WriteAccess(vec![r[0].clone(), r[1].clone()])),
        ("read_only12".into(), SharedAccess::ReadOnly(pack12(20, 40))),
        ("read_only24".into(), SharedAccess::ReadOnly(pack24(20, 41))),
    ]
}

/// Build a header with every member set as requested. Shared access has
/// no public setter: it is installed through the serde representation
/// and verified afterwards.
pub fn header(
    summary: &Summary,
    meta: Option<AeadPack>,
    salt: Option<String>,
    seed: Option<Seed>,
    shared: &SharedAccess,
) -> Header {
    let mut h: Header = summary.clone().into();
    h.set_meta(meta);
    h.set_salt(salt);
    h.set_seed(seed);
    let mut v = serde_json::to_value(&h).expect("header json");
    v["sharedAccess"] = serde_json::to_value(shared).expect("shared json");
    let h2: Header = serde_json::from_value(v).expect("header from json");
    let probe: Vault = h2.clone().into();
    assert_eq!(probe.shared_access(), shared, "shared access installed");
    assert_eq!(h2.meta(), h.meta());
    h2
}

pub fn headers() -> Vec<Case<Header>> {
    let sums = [
        Summary::new(1, uid(2), NAMES[2].to_string(), Cipher::AesGcm256, KeyDerivation::Argon2Id, VaultFlags::DEFAULT),
        Summary::new(1, uid(3), String::new(), Cipher::XChaCha20Poly1305, KeyDerivation::BalloonHash, VaultFlags::all()),
    ];
    let metas = [None, Some(pack12(30, 50)), Some(pack24(30, 51))];
    let salts = [None, Some("c29tZXNhbHRzb21lc2FsdA".to_string())];
    let seeds = [None, Some(Seed(bytes32(60)))];
    let mut out = vec![];
    for (si, sum) in sums.iter().enumerate() {
        for (mi, meta) in metas.iter().enumerate() {
            for (sa, salt) in salts.iter().enumerate() {
                for (se, seed) in seeds.iter().enumerate() {
                    for (al, access) in shared_accesses() {
                        out.push(Case {
                            label: format!("summary{}_meta{}_salt{}_seed{}_{}", si, mi, sa, se, al),
                            value: header(sum, meta.clone(), salt.clone(), *seed, &access),
                            seed: si == 0 && ((mi == 1 && sa == 1 && se == 1 && al == "write_two") || (mi == 2 && sa == 0 && se == 1 && al == "read_only12")),
                        });
                    }
                }
            }
        }
    }
    out
}

pub fn vaults() -> Vec<Case<Vault>> {
    let hs = headers();
    let pick = ["summary0_meta0_salt0_seed0_write_none", "summary0_meta1_salt1_seed1_write_two", "summary1_meta2_salt1_seed0_read_only24", "summary1_meta0_salt0_seed1_write_one"];
    let commits = vault_commits();
    let mut out = vec![];
    let all = deep();
    for h in hs.into_iter().filter(|h| all || pick.contains(&h.label.as_str())) {
        for rows in 0..=3usize {
            let mut v: Vault = h.value.clone().into();
            for r in 0..rows {
                // descending ids: insertion order differs from key order
                v.insert_entry(uid(200 - r as u8), commits[(r + rows) % commits.len()].value.clone());
            }
            out.push(Case {
                label: format!("{}_rows{}", h.label, rows),
                value: v,
                seed: rows == 2 && h.label == pick[1],
            });
        }
    }
    out
}

pub fn vault_meta(time: &UtcDateTime, description: &str) -> VaultMeta {
    serde_json::from_value(json!({
        "dateCreated": time.to_rfc3339().expect("rfc3339"),
        "description": description,
    }))
    .expect("vault meta from json")
}

pub fn vault_metas() -> Vec<Case<VaultMeta>> {
    let mut out = vec![];
    for tc in times_rfc3339() {
        for (ni, d) in NAMES.iter().enumerate() {
            out.push(Case {
                label: format!("{}_description{}", tc.label, ni),
                value: vault_meta(&tc.value, d),
                seed: tc.label == "2024_with_nanos" && ni == 1,
            });
        }
    }
    out
}

// ------------------------------------------------------------ secrets

pub fn urn_of(n: u8) -> urn::Urn {
    format!("urn:sos:vault:{}", uid(n)).parse().expect("urn")
}

fn tags_of(n: usize) -> HashSet<String> {
    ["tag-one", "täg ✓ two", "third"]
        .iter()
        .take(n)
        .map(|s| s.to_string())
        .collect()
}

#[allow(clippy::too_many_arguments)]
pub fn meta(
    kind: SecretType,
    label: &str,
    tags: usize,
    favorite: bool,
    urn: bool,
    owner: bool,
    verify: bool,
    created: UtcDateTime,
    updated: UtcDateTime,
) -> SecretMeta {
    let mut m = SecretMeta::new(label.to_string(), kind);
    m.set_tags(tags_of(tags));
    m.set_favorite(favorite);
    m.set_urn(if urn { Some(urn_of(77)) } else { None });
    m.set_owner_id(if owner { Some("owner-app/ö".to_string()) } else { None });
    if verify {
        m.flags_mut().set(SecretFlags::VERIFY, true);
    }
    m.set_date_created(created);
    m.set_last_updated(updated);
    m
}

pub fn rich_meta(kind: SecretType, n: u8) -> SecretMeta {
    meta(kind, &format!("rich ラベル {}", n), 2, true, true, true, true, t_nanos(), t_other())
}

/// Rich meta data with a single tag: its encoding does not depend on
/// HashSet iteration order (used for mutation seeds).
pub fn rich_meta_one_tag(kind: SecretType, n: u8) -> SecretMeta {
    meta(kind, &format!("rich ラベル {}", n), 1, true, true, true, true, t_nanos(), t_other())
}

pub fn plain_meta(kind: SecretType, n: u8) -> SecretMeta {
    meta(kind, &format!("plain {}", n), 0, false, false, false, false, t_epoch(), t_epoch())
}

pub const ALL_KINDS: [SecretType; 15] = [
    SecretType::Note,
    SecretType::File,
    SecretType::Account,
    SecretType::List,
    SecretType::Pem,
    SecretType::Page,
    SecretType::Signer,
    SecretType::Contact,
    SecretType::Totp,
    SecretType::Card,
    SecretType::Bank,
    SecretType::Link,
    SecretType::Password,
    SecretType::Identity,
    SecretType::Age,
];

pub fn metas() -> Vec<Case<SecretMeta>> {
    let mut out = vec![];
    for (ki, kind) in ALL_KINDS.iter().enumerate() {
        out.push(c(format!("kind{}_plain", ki), plain_meta(*kind, ki as u8)));
    }
    out.push(c("label_64k", meta(SecretType::Note, &"läbel64k".repeat(64 * 1024 / 9), 1, false, false, false, false, t_epoch(), t_epoch())));
    let dates = [
        ("epoch_nanos", t_epoch(), t_nanos()),
        ("nanos_y9999", t_nanos(), t(T_YEAR9999)),
        ("y1_epoch", t(T_YEAR1), t_epoch()),
    ];
    let product_kinds: Vec<SecretType> = if deep() {
        ALL_KINDS.to_vec()
    } else {
        vec![SecretType::Note, SecretType::Account]
    };
    for kind in product_kinds {
        for verify in [false, true] {
            for (li, label) in NAMES.iter().enumerate() {
                for tags in 0..=2usize {
                    for favorite in [false, true] {
                        for urn in [false, true] {
                            for owner in [false, true] {
                                for (dl, dc, du) in dates.iter() {
                                    out.push(Case {
                                        label: format!("{:?}_verify{}_label{}_tags{}_fav{}_urn{}_owner{}_{}", kind, verify, li, tags, favorite, urn, owner, dl),
                                        value: meta(kind, label, tags, favorite, urn, owner, verify, dc.clone(), du.clone()),
                                        seed: kind == SecretType::Account && verify && li == 2 && tags == 1 && favorite && urn && owner && *dl == "epoch_nanos",
                                    });
                                }
                            }
                        }
                    }
                }
            }
        }
    }
    out
}

fn ss(v: &str) -> secrecy::SecretString {
    v.to_string().into()
}

fn oss(v: Option<&str>) -> Option<secrecy::SecretString> {
    v.map(ss)
}

fn sb(v: Vec<u8>) -> secrecy::SecretBox<Vec<u8>> {
    secrecy::SecretBox::new(Box::new(v))
}

fn vcard(text: &str) -> Box<vcard4::Vcard> {
    let v: vcard4::Vcard = text.try_into().expect("vcard");
    Box::new(v)
}

fn totp(alg: totp_rs::Algorithm, digits: usize, issuer: Option<&str>) -> totp_rs::TOTP {
    totp_rs::TOTP::new(
        alg,
        digits,
        1,
        30,
        b"MockSecretWhichMustBeAtLeast80Bytes".to_vec(),
        issuer.map(|s| s.to_string()),
        "mock@example.com".to_string(),
    )
    .expect("totp")
}

const CERT: &str = include_str!("/repo/tests/fixtures/mock-cert.pem");

fn ud0() -> UserData {
    Default::default()
}

/// Base values of every kind (user data empty). The bool marks the value
/// used as mutation seed for its variant.
pub fn secret_bases() -> Vec<(String, bool, Secret)> {
    let mut out: Vec<(String, bool, Secret)> = vec![];
    for (i, text) in NAMES.iter().enumerate() {
        out.push((format!("note_text{}", i), i == 2, Secret::Note { text: ss(text), user_data: ud0() }));
    }
    let big = "64k ✓ ".repeat(64 * 1024 / 8);
    out.push(("note_text_64k".into(), false, Secret::Note { text: ss(&big), user_data: ud0() }));
    if deep() {
        let mib = "1MiB-é|".repeat(1024 * 1024 / 8);
        out.push(("note_text_1mib".into(), false, Secret::Note { text: ss(&mib), user_data: ud0() }));
        out.push(("page_1mib".into(), false, Secret::Page { title: big.clone(), mime: "text/plain".into(), document: ss(&mib), user_data: ud0() }));
        let buf = blob(1024 * 1024, 3);
        out.push(("file_embedded_1mib".into(), false, Secret::File { content: FileContent::Embedded { name: "big.bin".into(), mime: "application/octet-stream".into(), checksum: CommitTree::hash(&buf), buffer: sb(buf) }, user_data: ud0() }));
    }
    for (i, len) in [0usize, 3, 300].into_iter().enumerate() {
        let buf = blob(len, 9);
        out.push((
            format!("file_embedded_len{}", len),
            i == 1,
            Secret::File {
                content: FileContent::Embedded {
                    name: format!("fïle-{}.bin", i),
                    mime: "application/octet-stream".into(),
                    checksum: CommitTree::hash(&buf),
                    buffer: sb(buf),
                },
                user_data: ud0(),
            },
        ));
    }
    for (i, size) in [0u64, 4096, u64::MAX].into_iter().enumerate() {
        out.push((
            format!("file_external_size{}", i),
            i == 1,
            Secret::File {
                content: FileContent::External {
                    name: "external.pdf".into(),
                    mime: "application/pdf".into(),
                    checksum: bytes32(70 + i as u8),
                    size,
                    path: None,
                },
                user_data: ud0(),
            },
        ));
    }
    let urls: [Vec<url::Url>; 3] = [
        vec![],
        vec!["https://example.com/login?a=1#frag".parse().unwrap()],
        vec!["https://example.com/".parse().unwrap(), "http://localhost:8080/ü".parse().unwrap()],
    ];
    for (i, url) in urls.iter().enumerate() {
        out.push((
            format!("account_urls{}", i),
            i == 2,
            Secret::Account { account: NAMES[i].to_string(), password: ss("p@ss ✓"), url: url.clone(), user_data: ud0() },
        ));
    }
    for n in 0..=2usize {
        let mut items = HashMap::new();
        if n >= 1 {
            items.insert("key one".to_string(), ss("välue 1"));
        }
        if n >= 2 {
            items.insert("".to_string(), ss(""));
        }
        out.push((format!("list_items{}", n), n == 1, Secret::List { items, user_data: ud0() }));
    }
    let certs = pem::parse_many(CERT).expect("pem fixture");
    let mut with_header = pem::Pem::new("PRIVATE KEY", blob(70, 3));
    with_header.headers_mut().add("Proc-Type", "4,ENCRYPTED").expect("pem header");
    out.push(("pem_none".into(), false, Secret::Pem { certificates: vec![], user_data: ud0() }));
    out.push(("pem_fixture".into(), false, Secret::Pem { certificates: certs.clone(), user_data: ud0() }));
    out.push(("pem_small".into(), true, Secret::Pem { certificates: vec![pem::Pem::new("CERTIFICATE", blob(48, 1))], user_data: ud0() }));
    out.push(("pem_two_with_header".into(), false, Secret::Pem { certificates: vec![pem::Pem::new("CERTIFICATE", blob(10, 2)), with_header], user_data: ud0() }));
    out.push(("page_markdown".into(), true, Secret::Page { title: NAMES[2].into(), mime: "text/markdown".into(), document: ss("# Títle\n\nbody"), user_data: ud0() }));
    out.push(("page_empty".into(), false, Secret::Page { title: "".into(), mime: "".into(), document: ss(""), user_data: ud0() }));
    out.push(("signer_ecdsa".into(), true, Secret::Signer { private_key: SecretSigner::SinglePartyEcdsa(sb(blob(32, 4))), user_data: ud0() }));
    out.push(("signer_ed25519".into(), true, Secret::Signer { private_key: SecretSigner::SinglePartyEd25519(sb(blob(32, 5))), user_data: ud0() }));
    out.push(("signer_ecdsa_empty".into(), false, Secret::Signer { private_key: SecretSigner::SinglePartyEcdsa(sb(vec![])), user_data: ud0() }));
    out.push(("contact_fn_only".into(), true, Secret::Contact { vcard: vcard("BEGIN:VCARD\nVERSION:4.0\nFN:Jane Doe\nEND:VCARD"), user_data: ud0() }));
    out.push((
        "contact_rich".into(),
        false,
        Secret::Contact {
            vcard: vcard("BEGIN:VCARD\r\nVERSION:4.0\r\nFN:Jürgen Müller\r\nN:Müller;Jürgen;;;\r\nEMAIL;TYPE=work:j@example.com\r\nTEL;TYPE=cell:+49 170 0000000\r\nNOTE:semi\\; colon\\, comma\\nnewline\r\nEND:VCARD\r\n"),
            user_data: ud0(),
        },
    ));
    out.push(("totp_sha1_6".into(), true, Secret::Totp { totp: totp(totp_rs::Algorithm::SHA1, 6, Some("MockIssuer")), user_data: ud0() }));
    out.push(("totp_sha256_8_no_issuer".into(), false, Secret::Totp { totp: totp(totp_rs::Algorithm::SHA256, 8, None), user_data: ud0() }));
    out.push(("totp_sha512_7".into(), false, Secret::Totp { totp: totp(totp_rs::Algorithm::SHA512, 7, Some("Ïssuer")), user_data: ud0() }));
    for bits in 0..8u8 {
        let (a, b, cc) = (bits & 1 != 0, bits & 2 != 0, bits & 4 != 0);
        out.push((
            format!("card_expiry{}_name{}_pin{}", a, b, cc),
            bits == 7,
            Secret::Card {
                number: ss("4111111111111111"),
                expiry: if a { Some(t_nanos()) } else { None },
                cvv: ss("123"),
                name: oss(if b { Some("Näme On Card") } else { None }),
                atm_pin: oss(if cc { Some("0000") } else { None }),
                user_data: ud0(),
            },
        ));
        out.push((
            format!("bank_iban{}_swift{}_bic{}", a, b, cc),
            bits == 7,
            Secret::Bank {
                number: ss("12345678"),
                routing: ss("00-11-22"),
                iban: oss(if a { Some("GB82 WEST 1234 5698 7654 32") } else { None }),
                swift: oss(if b { Some("SWIFTXX") } else { None }),
                bic: oss(if cc { Some("BICYYZZ") } else { None }),
                user_data: ud0(),
            },
        ));
        out.push((
            format!("identity_place{}_issued{}_expires{}", a, b, cc),
            bits == 7,
            Secret::Identity {
                id_kind: IdentityKind::Passport,
                number: ss("X1234567"),
                issue_place: if a { Some("Zürich".to_string()) } else { None },
                issue_date: if b { Some(t_other()) } else { None },
                expiry_date: if cc { Some(t(T_YEAR9999)) } else { None },
                user_data: ud0(),
            },
        ));
    }
    for bits in 0..4u8 {
        let (a, b) = (bits & 1 != 0, bits & 2 != 0);
        out.push((
            format!("link_label{}_title{}", a, b),
            bits == 3,
            Secret::Link {
                url: ss("https://example.com/ä?q=1"),
                label: oss(if a { Some("läbel") } else { None }),
                title: oss(if b { Some("title") } else { None }),
                user_data: ud0(),
            },
        ));
    }
    for a in [false, true] {
        out.push((
            format!("password_name{}", a),
            a,
            Secret::Password { password: ss("correct horse ✓"), name: oss(if a { Some("näme") } else { None }), user_data: ud0() },
        ));
    }
    for (i, k) in [
        IdentityKind::PersonalIdNumber,
        IdentityKind::IdCard,
        IdentityKind::Passport,
        IdentityKind::DriverLicense,
        IdentityKind::SocialSecurity,
        IdentityKind::TaxNumber,
        IdentityKind::MedicalCard,
    ]
    .into_iter()
    .enumerate()
    {
        out.push((
            format!("identity_kind{}", i + 1),
            false,
            Secret::Identity { id_kind: k, number: ss(""), issue_place: None, issue_date: Some(t_epoch()), expiry_date: None, user_data: ud0() },
        ));
    }
    for (i, k) in AGE_KEYS.iter().enumerate() {
        out.push((format!("age_key{}", i), i == 0, Secret::Age { version: Default::default(), key: ss(k), user_data: ud0() }));
    }
    out
}

fn field_secret(which: u8) -> Secret {
    match which % 4 {
        0 => Secret::Note { text: ss("field nöte"), user_data: ud0() },
        1 => Secret::Link { url: ss("https://field.example/"), label: oss(Some("l")), title: None, user_data: ud0() },
        2 => Secret::Password { password: ss("field-pw"), name: None, user_data: ud0() },
        _ => Secret::Account { account: "field-acct".into(), password: ss("x"), url: vec!["https://a.example/".parse().unwrap()], user_data: ud0() },
    }
}

fn field(n: u8, which: u8, rich: bool) -> SecretRow {
    let sec = field_secret(which);
    let m = if rich { rich_meta(sec.kind(), n) } else { plain_meta(sec.kind(), n) };
    SecretRow::new(uid(100 + n), m, sec)
}

/// The user-data shapes: fields are varied independently and in
/// combination (first rich / second plain and vice versa, nested user
/// data in only one of two fields, comment and recovery note present
/// or absent).
pub fn user_datas() -> Vec<(String, UserData)> {
    let mut out: Vec<(String, UserData)> = vec![("none".into(), ud0())];
    let mk = |fields: Vec<SecretRow>, comment: Option<&str>, note: Option<&str>| {
        let mut u = UserData::default();
        for f in fields {
            u.push(f);
        }
        u.set_comment(comment.map(|s| s.to_string()));
        u.set_recovery_note(note.map(|s| s.to_string()));
        u
    };
    // mutation seed shape: rich (single tag) then plain, comment and note
    let seed_field = SecretRow::new(uid(101), rich_meta_one_tag(SecretType::Note, 1), field_secret(0));
    out.push(("seed_shape".into(), mk(vec![seed_field, field(2, 2, false)], Some("c"), Some("n"))));
    out.push(("comment_only".into(), mk(vec![], Some("a cömment"), None)));
    out.push(("note_only".into(), mk(vec![], None, Some("recovery nöte"))));
    out.push(("comment_and_note".into(), mk(vec![], Some(""), Some("n"))));
    out.push(("one_plain_field".into(), mk(vec![field(1, 0, false)], None, None)));
    out.push(("one_rich_field_comment".into(), mk(vec![field(1, 1, true)], Some("c"), None)));
    out.push(("rich_then_plain".into(), mk(vec![field(1, 0, true), field(2, 2, false)], None, Some("n"))));
    out.push(("plain_then_rich".into(), mk(vec![field(1, 2, false), field(2, 0, true)], Some("c"), Some("n"))));
    out.push(("two_rich_different_kinds".into(), mk(vec![field(1, 3, true), field(2, 1, true)], None, None)));
    // nested user data in only one of the two fields
    let nested = |n: u8| {
        let mut f = field(n, 0, true);
        *f.secret_mut().user_data_mut() = mk(vec![field(n + 10, 2, false)], Some("inner"), None);
        f
    };
    out.push(("nested_then_flat".into(), mk(vec![nested(1), field(2, 1, false)], None, None)));
    out.push(("flat_then_nested".into(), mk(vec![field(1, 1, false), nested(2)], Some("outer"), None)));
    if deep() {
        for which in 0..4u8 {
            for rich in [false, true] {
                out.push((format!("single_kind{}_rich{}", which, rich), mk(vec![field(1, which, rich)], None, None)));
            }
        }
        for bits in 0..8u8 {
            out.push((
                format!("three_fields_rich{:03b}", bits),
                mk(vec![field(1, 0, bits & 1 != 0), field(2, 1, bits & 2 != 0), field(3, 3, bits & 4 != 0)], Some("c"), Some("n")),
            ));
        }
    }
    out
}

pub fn secrets() -> Vec<Case<Secret>> {
    let uds = user_datas();
    let mut out = vec![];
    for (bl, seed, base) in secret_bases() {
        for (ul, ud) in &uds {
            let mut sct = base.clone();
            *sct.user_data_mut() = ud.clone();
            out.push(Case {
                label: format!("{}/{}", bl, ul),
                value: sct,
                seed: seed && ul == "seed_shape",
            });
        }
    }
    out
}

pub fn secret_rows() -> Vec<Case<SecretRow>> {
    let mut out = vec![];
    let picks = ["note_text2/plain_then_rich", "account_urls2/rich_then_plain", "list_items2/none", "card_expirytrue_nametrue_pintrue/comment_only", "file_external_size1/nested_then_flat"];
    let all = deep();
    for cs in secrets().into_iter().filter(|c| all || picks.contains(&c.label.as_str())) {
        for rich in [false, true] {
            let kind = cs.value.kind();
            out.push(Case {
                label: format!("{}_rowmeta_rich{}", cs.label, rich),
                value: SecretRow::new(uid(150), if rich { rich_meta(kind, 0) } else { plain_meta(kind, 0) }, cs.value.clone()),
                seed: false,
            });
        }
    }
    if let Some(cs) = secrets().into_iter().find(|c| c.label == "note_text2/seed_shape") {
        out.push(s("seed_row", SecretRow::new(uid(151), rich_meta_one_tag(SecretType::Note, 0), cs.value)));
    }
    out
}

// ------------------------------------------------------------ events

pub fn write_events() -> Vec<Case<WriteEvent>> {
    let vc = vault_commits();
    let mut out = vec![
        c("create_vault_empty", WriteEvent::CreateVault(vec![])),
        s("create_vault_bytes", WriteEvent::CreateVault(blob(90, 1))),
    ];
    for (i, n) in NAMES.iter().enumerate() {
        out.push(Case { label: format!("set_vault_name{}", i), value: WriteEvent::SetVaultName(n.to_string()), seed: i == 2 });
    }
    for (i, f) in flag_sets().into_iter().enumerate() {
        out.push(Case { label: format!("set_vault_flags{}", i), value: WriteEvent::SetVaultFlags(f), seed: i == 2 });
    }
    out.push(s("set_vault_meta12", WriteEvent::SetVaultMeta(pack12(40, 1))));
    out.push(c("set_vault_meta24", WriteEvent::SetVaultMeta(pack24(0, 2))));
    for (i, v) in vc.iter().enumerate() {
        out.push(Case { label: format!("create_secret_{}", v.label), value: WriteEvent::CreateSecret(uid(i as u8), v.value.clone()), seed: i == 0 });
        out.push(Case { label: format!("update_secret_{}", v.label), value: WriteEvent::UpdateSecret(uid(i as u8 + 50), v.value.clone()), seed: i == 1 });
    }
    out.push(s("delete_secret", WriteEvent::DeleteSecret(uid(9))));
    out
}

pub fn account_events() -> Vec<Case<AccountEvent>> {
    let mut out = vec![];
    for (i, n) in NAMES.iter().enumerate() {
        out.push(Case { label: format!("rename_account{}", i), value: AccountEvent::RenameAccount(n.to_string()), seed: i == 1 });
        out.push(Case { label: format!("rename_folder{}", i), value: AccountEvent::RenameFolder(uid(i as u8), n.to_string()), seed: i == 2 });
    }
    for (i, len) in [0usize, 1, 120].into_iter().enumerate() {
        let sd = len == 120;
        out.push(Case { label: format!("update_identity_len{}", len), value: AccountEvent::UpdateIdentity(blob(len, 1)), seed: sd });
        out.push(Case { label: format!("create_folder_len{}", len), value: AccountEvent::CreateFolder(uid(10 + i as u8), blob(len, 2)), seed: sd });
        out.push(Case { label: format!("update_folder_len{}", len), value: AccountEvent::UpdateFolder(uid(20 + i as u8), blob(len, 3)), seed: sd });
        out.push(Case { label: format!("compact_folder_len{}", len), value: AccountEvent::CompactFolder(uid(30 + i as u8), blob(len, 4)), seed: sd });
        out.push(Case { label: format!("change_folder_password_len{}", len), value: AccountEvent::ChangeFolderPassword(uid(40 + i as u8), blob(len, 5)), seed: sd });
    }
    out.push(s("delete_folder", AccountEvent::DeleteFolder(uid(60))));
    out
}

pub fn device_meta(n: usize) -> DeviceMetaData {
    let v = match n {
        0 => json!({}),
        1 => json!({"host": {"name": "läptop", "os": "linux"}}),
        _ => json!({"zeta": {"b": "2", "a": "1"}, "alpha": {"k": "v"}, "num": 7}),
    };
    serde_json::from_value(v).expect("device meta")
}

pub fn device(n: u8, extra: usize, nanos: i128) -> TrustedDevice {
    TrustedDevice::new(
        DevicePublicKey::from(bytes32(n)),
        Some(device_meta(extra)),
        Some(OffsetDateTime::from_unix_timestamp_nanos(nanos).unwrap()),
    )
}

pub fn device_events() -> Vec<Case<DeviceEvent>> {
    let mut out = vec![];
    for extra in 0..=2usize {
        for (ti, nanos) in [0i128, T_NANOS, T_YEAR9999].into_iter().enumerate() {
            out.push(Case {
                label: format!("trust_extra{}_time{}", extra, ti),
                value: DeviceEvent::Trust(device(extra as u8, extra, nanos)),
                seed: (extra == 0 && ti == 0) || (extra == 2 && ti == 1),
            });
        }
    }
    out.push(s("revoke", DeviceEvent::Revoke(DevicePublicKey::from(bytes32(9)))));
    out
}

pub fn file_name(n: u8) -> ExternalFileName {
    ExternalFileName::from(bytes32(n ^ 0x80))
}

pub fn file_events() -> Vec<Case<FileEvent>> {
    vec![
        s("create_file", FileEvent::CreateFile(SecretPath(uid(1), uid(2)), file_name(1))),
        s("move_file", FileEvent::MoveFile { name: file_name(2), from: SecretPath(uid(3), uid(4)), dest: SecretPath(uid(5), uid(6)) }),
        c("move_file_same_folder", FileEvent::MoveFile { name: file_name(3), from: SecretPath(uid(3), uid(4)), dest: SecretPath(uid(3), uid(7)) }),
        s("delete_file", FileEvent::DeleteFile(SecretPath(uid(8), uid(9)), file_name(4))),
    ]
}

pub fn account_id(n: u8) -> AccountId {
    let mut b = [0u8; 20];
    b.copy_from_slice(&bytes32(n)[..20]);
    AccountId::from(b)
}

pub fn audit_events() -> Vec<Case<sos_audit::AuditEvent>> {
    use sos_audit::{AuditData, AuditEvent};
    let datas: Vec<(&str, Option<AuditData>)> = vec![
        ("none", None),
        ("vault", Some(AuditData::Vault(uid(1)))),
        ("secret", Some(AuditData::Secret(uid(2), uid(3)))),
        ("move", Some(AuditData::MoveSecret { from_vault_id: uid(4), from_secret_id: uid(5), to_vault_id: uid(6), to_secret_id: uid(7) })),
        ("device", Some(AuditData::Device(DevicePublicKey::from(bytes32(8))))),
    ];
    let kinds = [EventKind::CreateAccount, EventKind::ReadSecret, EventKind::MoveSecret, EventKind::TrustDevice, EventKind::DownloadFile];
    let mut out = vec![];
    for (di, (dl, d)) in datas.iter().enumerate() {
        for (ti, tm) in [t_epoch(), t_nanos()].into_iter().enumerate() {
            out.push(Case {
                label: format!("{}_time{}", dl, ti),
                value: AuditEvent::new(tm, kinds[di], account_id(di as u8), d.clone()),
                seed: ti == 1,
            });
        }
    }
    out
}

// ------------------------------------------------------------ wire

pub fn origins() -> Vec<Case<Origin>> {
    let urls = ["https://example.com/", "http://localhost:5053/api/v1?x=1", "https://ünïcode.example/päth"];
    let mut out = vec![];
    for (ni, n) in NAMES.iter().enumerate() {
        for (ui, u) in urls.iter().enumerate() {
            out.push(Case { label: format!("name{}_url{}", ni, ui), value: Origin::new(n.to_string(), u.parse().unwrap()), seed: ni == 1 && ui == 1 });
        }
    }
    out
}

pub fn log_types() -> Vec<Case<EventLogType>> {
    vec![
        c("identity", EventLogType::Identity),
        c("account", EventLogType::Account),
        c("device", EventLogType::Device),
        s("files", EventLogType::Files),
        s("folder", EventLogType::Folder(uid(33))),
    ]
}

pub fn sync_status(files: bool, folders: usize, k: usize) -> SyncStatus {
    let mut f = IndexMap::new();
    for i in 0..folders {
        // descending ids, different states
        f.insert(uid(90 - i as u8), state(1 + (i + k) % 5));
    }
    SyncStatus {
        root: hash(k as u8),
        identity: state(1 + k % 5),
        account: state(1 + (k + 1) % 5),
        device: state(1 + (k + 2) % 5),
        files: if files { Some(state(1 + (k + 3) % 5)) } else { None },
        folders: f,
    }
}

pub fn sync_statuses() -> Vec<Case<SyncStatus>> {
    let mut out = vec![c("default", SyncStatus::default())];
    for files in [false, true] {
        for folders in 0..=2usize {
            for k in 0..2usize {
                out.push(Case { label: format!("files{}_folders{}_k{}", files, folders, k), value: sync_status(files, folders, k), seed: files && folders == 2 && k == 1 });
            }
        }
    }
    out
}

pub fn patch<T>(n: usize, salt: u8) -> Patch<T> {
    Patch::new((0..n).map(|i| record(salt.wrapping_add(i as u8), [5usize, 0, 40][i % 3])).collect())
}

pub fn diff<T>(n: usize, salt: u8) -> Diff<T> {
    Diff::new(patch(n, salt), proof(1 + (salt as usize % 5), 0), if salt % 2 == 0 { None } else { Some(hash(salt)) })
}

pub fn diffs() -> Vec<Case<Diff<WriteEvent>>> {
    let mut out = vec![];
    for n in 0..=2usize {
        for salt in 0..2u8 {
            out.push(Case { label: format!("records{}_salt{}", n, salt), value: diff(n, salt), seed: n == 2 && salt == 1 });
        }
    }
    out
}

pub fn patches() -> Vec<Case<Patch<WriteEvent>>> {
    (0..=2usize).map(|n| Case { label: format!("records{}", n), value: patch(n, 3), seed: n == 2 }).collect()
}

pub fn maybe_diff<T>(k: usize) -> Option<MaybeDiff<Diff<T>>> {
    match k % 5 {
        0 => None,
        1 => Some(MaybeDiff::Diff(diff(2, 1))),
        2 => Some(MaybeDiff::Compare(None)),
        3 => Some(MaybeDiff::Compare(Some(state(3)))),
        _ => Some(MaybeDiff::Diff(diff(0, 2))),
    }
}

pub fn maybe_diffs() -> Vec<Case<MaybeDiff<Diff<WriteEvent>>>> {
    (1..5usize).map(|k| Case { label: format!("variant{}", k), value: maybe_diff(k).unwrap(), seed: k == 1 || k == 3 }).collect()
}

pub fn sync_diffs() -> Vec<Case<SyncDiff>> {
    let mut out = vec![];
    for a in 0..4usize {
        for b in 0..4usize {
            for cc in 0..4usize {
                for d in 0..4usize {
                    for folders in 0..=2usize {
                        let mut f = IndexMap::new();
                        for i in 0..folders {
                            f.insert(uid(80 - i as u8), maybe_diff(1 + (i + a) % 4).unwrap());
                        }
                        out.push(Case {
                            label: format!("identity{}_account{}_device{}_files{}_folders{}", a, b, cc, d, folders),
                            value: SyncDiff { identity: maybe_diff(a), account: maybe_diff(b), device: maybe_diff(cc), files: maybe_diff(d), folders: f },
                            seed: a == 1 && b == 3 && cc == 0 && d == 2 && folders == 2,
                        });
                    }
                }
            }
        }
    }
    out
}

fn cmp_of(k: usize) -> Option<Comparison> {
    match k % 4 {
        0 => None,
        1 => Some(Comparison::Equal),
        2 => Some(Comparison::Contains(vec![0, 1, 9])),
        _ => Some(Comparison::Unknown),
    }
}

pub fn sync_compares() -> Vec<Case<SyncCompare>> {
    let mut out = vec![];
    for a in 0..4usize {
        for b in 0..4usize {
            for cc in 0..4usize {
                for d in 0..4usize {
                    for folders in 0..=2usize {
                        let mut f = IndexMap::new();
                        for i in 0..folders {
                            f.insert(uid(70 - i as u8), cmp_of(1 + (i + b) % 3).unwrap());
                        }
                        out.push(Case {
                            label: format!("identity{}_account{}_device{}_files{}_folders{}", a, b, cc, d, folders),
                            value: SyncCompare { identity: cmp_of(a), account: cmp_of(b), device: cmp_of(cc), files: cmp_of(d), folders: f },
                            seed: a == 2 && b == 1 && cc == 3 && d == 0 && folders == 2,
                        });
                    }
                }
            }
        }
    }
    out
}

pub fn sync_packets() -> Vec<Case<SyncPacket>> {
    let mut out = vec![c("default", SyncPacket::default())];
    let sd = sync_diffs();
    let sc = sync_compares();
    for (si, status) in [sync_status(false, 0, 0), sync_status(true, 2, 1)].into_iter().enumerate() {
        for di in [0usize, 77, 400, 767] {
            for cmp in [None, Some(500usize)] {
                out.push(Case {
                    label: format!("status{}_diff[{}]_compare{:?}", si, sd[di].label, cmp.map(|i| sc[i].label.clone())),
                    value: SyncPacket { status: status.clone(), diff: sd[di].value.clone(), compare: cmp.map(|i| sc[i].value.clone()) },
                    seed: si == 1 && di == 77 && cmp.is_some(),
                });
            }
        }
    }
    out
}

pub fn create_sets() -> Vec<Case<CreateSet>> {
    let mut out = vec![];
    for a in 0..3usize {
        for b in 0..3usize {
            for cc in 0..3usize {
                for d in 0..3usize {
                    for folders in 0..=2usize {
                        let mut f = HashMap::new();
                        for i in 0..folders {
                            f.insert(uid(60 - i as u8), patch((i + a + 1) % 3, 20 + i as u8));
                        }
                        out.push(Case {
                            label: format!("identity{}_account{}_device{}_files{}_folders{}", a, b, cc, d, folders),
                            value: CreateSet { identity: patch(a, 1), account: patch(b, 2), device: patch(cc, 3), files: patch(d, 4), folders: f },
                            seed: a == 1 && b == 2 && cc == 0 && d == 1 && folders == 1,
                        });
                    }
                }
            }
        }
    }
    out
}

fn opt_diff<T>(k: usize) -> Option<Diff<T>> {
    match k % 3 {
        0 => None,
        1 => Some(diff(2, 1)),
        _ => Some(diff(0, 4)),
    }
}

pub fn update_sets() -> Vec<Case<UpdateSet>> {
    let mut out = vec![];
    for a in 0..3usize {
        for b in 0..3usize {
            for cc in 0..3usize {
                for d in 0..3usize {
                    for folders in 0..=2usize {
                        let mut f = HashMap::new();
                        for i in 0..folders {
                            f.insert(uid(50 - i as u8), diff((i + b) % 3, 30 + i as u8));
                        }
                        out.push(Case {
                            label: format!("identity{}_account{}_device{}_files{}_folders{}", a, b, cc, d, folders),
                            value: UpdateSet { identity: opt_diff(a), account: opt_diff(b), device: opt_diff(cc), files: opt_diff(d), folders: f },
                            seed: a == 1 && b == 0 && cc == 2 && d == 1 && folders == 1,
                        });
                    }
                }
            }
        }
    }
    out
}

pub fn tracked(bits: u8) -> TrackedChanges {
    let mut tc = TrackedChanges::default();
    if bits & 1 != 0 {
        tc.identity = IndexSet::from([TrackedFolderChange::Deleted(uid(3)), TrackedFolderChange::Created(uid(1)), TrackedFolderChange::Updated(uid(2))]);
    }
    if bits & 2 != 0 {
        tc.device = IndexSet::from([TrackedDeviceChange::Revoked(DevicePublicKey::from(bytes32(2))), TrackedDeviceChange::Trusted(DevicePublicKey::from(bytes32(1)))]);
    }
    if bits & 4 != 0 {
        tc.account = IndexSet::from([TrackedAccountChange::FolderUpdated(uid(5)), TrackedAccountChange::FolderCreated(uid(4)), TrackedAccountChange::FolderDeleted(uid(6))]);
    }
    if bits & 8 != 0 {
        tc.files = IndexSet::from([
            TrackedFileChange::Moved { name: file_name(1), from: SecretPath(uid(7), uid(8)), dest: SecretPath(uid(9), uid(10)) },
            TrackedFileChange::Created(SecretPath(uid(11), uid(12)), file_name(2)),
            TrackedFileChange::Deleted(SecretPath(uid(13), uid(14)), file_name(3)),
        ]);
    }
    if bits & 16 != 0 {
        tc.folders.insert(uid(20), IndexSet::from([TrackedFolderChange::Updated(uid(21)), TrackedFolderChange::Created(uid(22))]));
    }
    if bits & 32 != 0 {
        tc.folders.insert(uid(19), IndexSet::from([TrackedFolderChange::Deleted(uid(23))]));
        tc.folders.insert(uid(18), IndexSet::new());
    }
    tc
}

pub fn tracked_changes() -> Vec<Case<TrackedChanges>> {
    (0..64u8).map(|b| Case { label: format!("bits{:06b}", b), value: tracked(b), seed: b == 31 }).collect()
}

pub fn merge_outcomes() -> Vec<Case<MergeOutcome>> {
    let mut out = vec![];
    for (ci, changes) in [0u64, 1, u64::MAX].into_iter().enumerate() {
        for bits in 0..32u8 {
            out.push(Case {
                label: format!("changes{}_tracked{:05b}", ci, bits),
                value: MergeOutcome { changes, tracked: tracked(bits), external_files: IndexSet::new() },
                seed: ci == 1 && bits == 31,
            });
        }
    }
    out
}

pub fn network_changes() -> Vec<Case<NetworkChangeEvent>> {
    let mut out = vec![];
    for (ci, conn) in ["", "conn-1", "cönn ✓"].iter().enumerate() {
        for bits in [0u8, 5, 31] {
            out.push(Case {
                label: format!("conn{}_tracked{:05b}", ci, bits),
                value: NetworkChangeEvent::new(&account_id(ci as u8), conn.to_string(), hash(bits), MergeOutcome { changes: bits as u64, tracked: tracked(bits), external_files: IndexSet::new() }),
                seed: ci == 1 && bits == 31,
            });
        }
    }
    out
}

pub fn checked_patches() -> Vec<Case<CheckedPatch>> {
    vec![
        s("success", CheckedPatch::Success(proof(3, 1))),
        c("conflict_contains_none", CheckedPatch::Conflict { head: proof(4, 3), contains: None }),
        s("conflict_contains_some", CheckedPatch::Conflict { head: proof(5, 4), contains: Some(proof(2, 0)) }),
    ]
}

pub fn diff_requests() -> Vec<Case<DiffRequest>> {
    let mut out = vec![];
    for lt in log_types() {
        for h in [None, Some(hash(4))] {
            out.push(Case { label: format!("{}_from{}", lt.label, h.is_some()), value: DiffRequest { log_type: lt.value, from_hash: h }, seed: lt.label == "folder" && h.is_some() });
        }
    }
    out
}

pub fn recs(n: usize) -> Vec<EventRecord> {
    (0..n).map(|i| record(i as u8 + 1, [7usize, 0, 33][i % 3])).collect()
}

pub fn diff_responses() -> Vec<Case<DiffResponse>> {
    let mut out = vec![];
    for n in 0..=2usize {
        for (pi, p) in [proof(1, 0), proof(5, 2)].into_iter().enumerate() {
            out.push(Case { label: format!("records{}_proof{}", n, pi), value: DiffResponse { patch: recs(n), checkpoint: p }, seed: n == 2 && pi == 1 });
        }
    }
    out
}

pub fn patch_requests() -> Vec<Case<PatchRequest>> {
    let mut out = vec![];
    for lt in log_types() {
        for cm in [None, Some(hash(8))] {
            for (pi, p) in [proof(2, 1), proof(5, 0)].into_iter().enumerate() {
                for n in 0..=2usize {
                    out.push(Case {
                        label: format!("{}_commit{}_proof{}_records{}", lt.label, cm.is_some(), pi, n),
                        value: PatchRequest { log_type: lt.value, commit: cm, proof: p.clone(), patch: recs(n) },
                        seed: lt.label == "folder" && cm.is_some() && pi == 0 && n == 2,
                    });
                }
            }
        }
    }
    out
}

pub fn patch_responses() -> Vec<Case<PatchResponse>> {
    checked_patches().into_iter().map(|c| Case { label: c.label, value: PatchResponse { checked_patch: c.value }, seed: c.seed }).collect()
}

pub fn scan_requests() -> Vec<Case<ScanRequest>> {
    let mut out = vec![];
    for lt in log_types() {
        for limit in [0u16, 1, u16::MAX] {
            for offset in [0u64, 1, u64::MAX] {
                out.push(Case { label: format!("{}_limit{}_offset{}", lt.label, limit, offset), value: ScanRequest { log_type: lt.value, limit, offset }, seed: lt.label == "account" && limit == 1 && offset == 1 });
            }
        }
    }
    out
}

pub fn scan_responses() -> Vec<Case<ScanResponse>> {
    let mut out = vec![];
    for first in [false, true] {
        for n in 0..=2usize {
            for offset in [0u64, 1, u64::MAX] {
                out.push(Case {
                    label: format!("first{}_proofs{}_offset{}", first, n, offset),
                    value: ScanResponse { first_proof: if first { Some(proof(3, 0)) } else { None }, proofs: (0..n).map(|i| proof(4 + i, i + 1)).collect(), offset },
                    seed: first && n == 2 && offset == 1,
                });
            }
        }
    }
    out
}

pub fn external_file(n: u8) -> ExternalFile {
    ExternalFile::new(SecretPath(uid(n), uid(n + 100)), file_name(n))
}

pub fn external_files() -> Vec<Case<ExternalFile>> {
    vec![s("file1", external_file(1)), c("file2", external_file(2))]
}

pub fn file_set(n: usize, salt: u8) -> FileSet {
    // descending, so that insertion order differs from any sorted order
    FileSet((0..n).map(|i| external_file(salt + 10 - i as u8)).collect())
}

pub fn file_sets() -> Vec<Case<FileSet>> {
    (0..=3usize).map(|n| Case { label: format!("files{}", n), value: file_set(n, 0), seed: n == 2 }).collect()
}

pub fn file_transfers() -> Vec<Case<FileTransfersSet>> {
    let mut out = vec![];
    for u in 0..=2usize {
        for d in 0..=2usize {
            out.push(Case { label: format!("uploads{}_downloads{}", u, d), value: FileTransfersSet { uploads: file_set(u, 0), downloads: file_set(d, 40) }, seed: u == 1 && d == 2 });
        }
    }
    out
}
