//! C06 / C07 — explicit-state exploration of the real event-log
//! implementations (file system and SQLite in lock-step).
//!
//! State   = contents of three co-resident folder logs (two of account A,
//!           one of account B; same SQLite table, same directory tree),
//!           canonicalised as the per-log sequence of event letters.
//! Actions = EventLog trait operations (append, records with an old time,
//!           checked/unchecked patch against every kind of checkpoint,
//!           rewind to every index / an absent commit, clear, replace-all
//!           with right / wrong checkpoint).
//! Search  = breadth-first, level-synchronous over worker processes; a
//!           state is represented by the shortest history reaching it and
//!           re-created by replaying that history on fresh storage.
//! Oracles = LogModel (vectors) after every transition, on every log.
use serde::{Deserialize, Serialize};
use serde_json::{json, Map, Value};
use sos_backend::{BackendEventLog, BackendTarget};
use sos_core::{
    commit::{CommitHash, CommitProof, CommitTree},
    events::{
        patch::{CheckedPatch, Diff, Patch},
        AccountEvent, DeviceEvent, EventLog, EventRecord, FileEvent,
        WriteEvent,
    },
    AccountId, Paths, SecretId, UtcDateTime, VaultId,
};
use sos_database::entity::{
    AccountEntity, AccountRow, FolderEntity, FolderRow,
};
use sos_vault::Vault;
use std::collections::{BTreeMap, HashSet};
use std::path::{Path, PathBuf};
use vkit::pool::{self, PoolOpts};
use vkit::run::{push_sample, Args, Run, Tier};
use vkit::{clock, fsutil};

use futures::StreamExt;

const NLOGS: usize = 3;

/// Which kind of event log an exploration drives (a configuration
/// dimension): folder logs (three co-resident logs, two accounts) or one
/// of the account-owned logs (one per account, two accounts).
#[derive(Clone, Copy, Debug, Serialize, Deserialize, PartialEq, Eq, Hash)]
enum Kind {
    Folder,
    Account,
    Device,
    Files,
}

impl Kind {
    fn name(&self) -> &'static str {
        match self {
            Kind::Folder => "folder",
            Kind::Account => "account",
            Kind::Device => "device",
            Kind::Files => "files",
        }
    }
    fn nlogs(&self) -> usize {
        if *self == Kind::Folder {
            NLOGS
        } else {
            2
        }
    }
}

enum AnyLog {
    Folder(BackendEventLog<WriteEvent>),
    Account(BackendEventLog<AccountEvent>),
    Device(BackendEventLog<DeviceEvent>),
    Files(BackendEventLog<FileEvent>),
}

macro_rules! each {
    ($s:expr, $l:ident => $e:expr) => {
        match $s {
            AnyLog::Folder($l) => $e,
            AnyLog::Account($l) => $e,
            AnyLog::Device($l) => $e,
            AnyLog::Files($l) => $e,
        }
    };
}

impl AnyLog {
    fn leaves(&self) -> Vec<[u8; 32]> {
        each!(self, l => l.tree().leaves().unwrap_or_default())
    }
    fn root(&self) -> Option<CommitHash> {
        each!(self, l => l.tree().root())
    }
    /// `compare` of this log's live tree with a head proof of another log.
    fn compare(&self, proof: &sos_core::commit::CommitProof) -> String {
        each!(self, l => match l.tree().compare(proof) {
            Ok(sos_core::commit::Comparison::Equal) => "Equal".to_string(),
            Ok(sos_core::commit::Comparison::Contains(i)) => format!("Contains{:?}", i),
            Ok(sos_core::commit::Comparison::Unknown) => "Unknown".to_string(),
            Err(e) => format!("Err({})", e),
        })
    }
}

trait LogT:
    Default
    + binary_stream::futures::Encodable
    + binary_stream::futures::Decodable
    + Send
    + Sync
    + 'static
{
}
impl LogT for WriteEvent {}
impl LogT for AccountEvent {}
impl LogT for DeviceEvent {}
impl LogT for FileEvent {}

#[derive(Clone, Debug, Serialize, Deserialize, PartialEq, Eq, Hash)]
enum Cp {
    Head,
    Prefix(usize),
    Diverged,
    ForgedRoot,
}

#[derive(Clone, Debug, Serialize, Deserialize, PartialEq, Eq, Hash)]
enum Op {
    Apply { log: usize, evs: Vec<u8> },
    ApplyOld { log: usize, ev: u8 },
    PatchUnchecked { log: usize, ev: u8 },
    PatchChecked { log: usize, cp: Cp, ev: u8 },
    Rewind { log: usize, idx: usize },
    RewindAbsent { log: usize },
    Clear { log: usize },
    ReplaceAll { log: usize, good: bool },
}

impl Op {
    fn kind(&self) -> &'static str {
        match self {
            Op::Apply { .. } => "apply",
            Op::ApplyOld { .. } => "apply_records_old_time",
            Op::PatchUnchecked { .. } => "patch_unchecked",
            Op::PatchChecked { cp, .. } => match cp {
                Cp::Head => "patch_checked_head",
                Cp::Prefix(_) => "patch_checked_stale",
                Cp::Diverged => "patch_checked_diverged",
                Cp::ForgedRoot => "patch_checked_forged",
            },
            Op::Rewind { .. } => "rewind",
            Op::RewindAbsent { .. } => "rewind_absent",
            Op::Clear { .. } => "clear",
            Op::ReplaceAll { good: true, .. } => "replace_all",
            Op::ReplaceAll { good: false, .. } => {
                "replace_all_wrong_checkpoint"
            }
        }
    }
    fn log(&self) -> usize {
        match self {
            Op::Apply { log, .. }
            | Op::ApplyOld { log, .. }
            | Op::PatchUnchecked { log, .. }
            | Op::PatchChecked { log, .. }
            | Op::Rewind { log, .. }
            | Op::RewindAbsent { log }
            | Op::Clear { log }
            | Op::ReplaceAll { log, .. } => *log,
        }
    }
}

/// One model record.
#[derive(Clone, Debug, PartialEq, Eq)]
struct MRec {
    letter: u8,
    old: bool,
    time: UtcDateTime,
    hash: [u8; 32],
    bytes: Vec<u8>,
}

#[derive(Clone, Default)]
struct Model {
    logs: Vec<Vec<MRec>>,
}

impl Model {
    fn canon(&self) -> String {
        self.logs
            .iter()
            .map(|l| {
                l.iter()
                    .map(|r| {
                        let c = (b'a' + r.letter) as char;
                        if r.old {
                            c.to_ascii_uppercase().to_string()
                        } else {
                            c.to_string()
                        }
                    })
                    .collect::<String>()
            })
            .collect::<Vec<_>>()
            .join("|")
    }
}

fn tree_of(hashes: &[[u8; 32]]) -> CommitTree {
    let mut t = CommitTree::new();
    let mut v = hashes.to_vec();
    t.append(&mut v);
    t.commit();
    t
}

struct Ids {
    acc_a: AccountId,
    acc_b: AccountId,
    folders: [VaultId; NLOGS],
    secret0: SecretId,
}

fn ids() -> Ids {
    let acc = |b: u8| {
        let v: [u8; 20] = [b; 20];
        AccountId::from(v)
    };
    Ids {
        acc_a: acc(0xA1),
        acc_b: acc(0xB2),
        folders: [
            VaultId::from_bytes([1; 16]),
            VaultId::from_bytes([2; 16]),
            VaultId::from_bytes([3; 16]),
        ],
        secret0: SecretId::from_bytes([9; 16]),
    }
}

async fn encode_event(kind: Kind, letter: u8) -> EventRecord {
    let i = ids();
    match kind {
        Kind::Folder => {
            let e = match letter {
                0 => WriteEvent::DeleteSecret(i.secret0),
                1 => WriteEvent::SetVaultName("x".to_string()),
                _ => WriteEvent::SetVaultName("y".to_string()),
            };
            EventRecord::encode_event(&e).await.unwrap()
        }
        Kind::Account => {
            let e = match letter {
                0 => AccountEvent::DeleteFolder(i.folders[0]),
                1 => AccountEvent::RenameAccount("x".to_string()),
                _ => AccountEvent::RenameFolder(i.folders[1], "y".to_string()),
            };
            EventRecord::encode_event(&e).await.unwrap()
        }
        Kind::Device => {
            let k = |b: u8| -> sos_core::device::DevicePublicKey { [b; 32].into() };
            let e = match letter {
                0 => DeviceEvent::Revoke(k(1)),
                1 => DeviceEvent::Revoke(k(2)),
                _ => DeviceEvent::Revoke(k(3)),
            };
            EventRecord::encode_event(&e).await.unwrap()
        }
        Kind::Files => {
            let path = sos_core::SecretPath(i.folders[0], i.secret0);
            let n = |b: u8| -> sos_core::ExternalFileName { [b; 32].into() };
            let e = match letter {
                0 => FileEvent::DeleteFile(path, n(1)),
                1 => FileEvent::CreateFile(path, n(1)),
                _ => FileEvent::CreateFile(path, n(2)),
            };
            EventRecord::encode_event(&e).await.unwrap()
        }
    }
}

fn owner_of(kind: Kind, log: usize) -> AccountId {
    let i = ids();
    if kind == Kind::Folder {
        if log < 2 {
            i.acc_a
        } else {
            i.acc_b
        }
    } else if log == 0 {
        i.acc_a
    } else {
        i.acc_b
    }
}

/// Template storage: scaffolded fs tree + migrated database with the two
/// accounts and three folders, all logs empty.
async fn make_template(dir: &Path) -> anyhow::Result<()> {
    let i = ids();
    let fs_dir = dir.join("fs");
    let db_dir = dir.join("db");
    std::fs::create_dir_all(&fs_dir)?;
    std::fs::create_dir_all(&db_dir)?;
    Paths::scaffold(&fs_dir).await?;
    let paths = Paths::new_client(&fs_dir);
    for a in [&i.acc_a, &i.acc_b] {
        paths.with_account_id(a).ensure().await?;
    }
    let dbp = Paths::new_client(&db_dir);
    let mut client = sos_database::open_file_with_journal_mode(
        dbp.database_file(),
        async_sqlite::JournalMode::Delete,
    )
    .await?;
    sos_database::migrations::migrate_client(&mut client).await?;
    let mut rows = vec![];
    for (k, fid) in i.folders.iter().enumerate() {
        let mut vault = Vault::default();
        *vault.header_mut().id_mut() = *fid;
        rows.push((k, FolderRow::new_insert(&vault).await?));
    }
    let ra = AccountRow::new_insert(&i.acc_a, "a".to_owned())?;
    let rb = AccountRow::new_insert(&i.acc_b, "b".to_owned())?;
    client
        .conn_mut(move |conn| {
            let account = AccountEntity::new(&conn);
            let ida = account.insert(&ra)?;
            let idb = account.insert(&rb)?;
            let folder = FolderEntity::new(&conn);
            for (k, row) in &rows {
                let owner = if *k < 2 { ida } else { idb };
                folder.insert_folder(owner, row)?;
            }
            Ok(())
        })
        .await?;
    client.close().await?;
    Ok(())
}

struct World {
    dir: PathBuf,
    fs: Vec<AnyLog>,
    db: Vec<AnyLog>,
    client: async_sqlite::Client,
    model: Model,
    kind: Kind,
}

async fn open_one(
    kind: Kind,
    target: BackendTarget,
    owner: &AccountId,
    folder: &VaultId,
) -> anyhow::Result<AnyLog> {
    Ok(match kind {
        Kind::Folder => {
            let mut l = BackendEventLog::<WriteEvent>::new_folder(target, owner, folder).await?;
            l.load_tree().await?;
            AnyLog::Folder(l)
        }
        Kind::Account => {
            let mut l = BackendEventLog::<AccountEvent>::new_account(target, owner).await?;
            l.load_tree().await?;
            AnyLog::Account(l)
        }
        Kind::Device => {
            let mut l = BackendEventLog::<DeviceEvent>::new_device(target, owner).await?;
            l.load_tree().await?;
            AnyLog::Device(l)
        }
        Kind::Files => {
            let mut l = BackendEventLog::<FileEvent>::new_file(target, owner).await?;
            l.load_tree().await?;
            AnyLog::Files(l)
        }
    })
}

async fn open_logs(
    dir: &Path,
    kind: Kind,
) -> anyhow::Result<(Vec<AnyLog>, Vec<AnyLog>, async_sqlite::Client)> {
    let i = ids();
    let paths = Paths::new_client(dir.join("fs"));
    let dbp = Paths::new_client(dir.join("db"));
    let client = sos_database::open_file_with_journal_mode(
        dbp.database_file(),
        async_sqlite::JournalMode::Delete,
    )
    .await?;
    let mut fs = vec![];
    let mut db = vec![];
    for k in 0..kind.nlogs() {
        let owner = owner_of(kind, k);
        fs.push(open_one(kind, BackendTarget::FileSystem(paths.clone()), &owner, &i.folders[k]).await?);
        db.push(open_one(kind, BackendTarget::Database(dbp.clone(), client.clone()), &owner, &i.folders[k]).await?);
    }
    Ok((fs, db, client))
}

impl World {
    async fn new(template: &Path, work: &Path, kind: Kind) -> anyhow::Result<World> {
        let _ = std::fs::remove_dir_all(work);
        fsutil::copy_dir(template, work)?;
        let (fs, db, client) = open_logs(work, kind).await?;
        clock::install();
        Ok(World {
            dir: work.to_path_buf(),
            fs,
            db,
            client,
            model: Model {
                logs: vec![vec![]; kind.nlogs()],
            },
            kind,
        })
    }

    async fn close(self) {
        let _ = self.client.close().await;
    }
}

#[derive(Debug, Clone, PartialEq, Eq)]
enum Class {
    Ok,
    Success,
    Conflict,
    Err(String),
}

impl Class {
    fn short(&self) -> &'static str {
        match self {
            Class::Ok => "Ok",
            Class::Success => "Success",
            Class::Conflict => "Conflict",
            Class::Err(_) => "Err",
        }
    }
}

async fn mk_record(kind: Kind, letter: u8, old: bool) -> (EventRecord, MRec) {
    let mut rec = encode_event(kind, letter).await;
    if old {
        // a time well before every logical clock value (and with
        // sub-second digits)
        let t = UtcDateTime::parse_rfc3339("2001-02-03T04:05:06.789012345Z")
            .unwrap();
        rec.set_time(t);
    }
    let m = MRec {
        letter,
        old,
        time: rec.time().clone(),
        hash: rec.commit().0,
        bytes: rec.event_bytes().to_vec(),
    };
    (rec, m)
}

fn forged(mut p: CommitProof) -> CommitProof {
    p.root.0[0] ^= 0x55;
    p
}

/// Enabled operations in a model state, simplest first.
fn enabled(model: &Model, primary_only_full: bool) -> Vec<Op> {
    let mut ops = vec![];
    for log in 0..model.logs.len() {
        let len = model.logs[log].len();
        let full = log == 0 || !primary_only_full;
        if full {
            for e in 0..3u8 {
                ops.push(Op::Apply {
                    log,
                    evs: vec![e],
                });
            }
            ops.push(Op::Apply {
                log,
                evs: vec![0, 0],
            });
            ops.push(Op::ApplyOld { log, ev: 1 });
            ops.push(Op::PatchUnchecked { log, ev: 2 });
            if len > 0 {
                ops.push(Op::PatchChecked {
                    log,
                    cp: Cp::Head,
                    ev: 1,
                });
                for n in 1..len {
                    ops.push(Op::PatchChecked {
                        log,
                        cp: Cp::Prefix(n),
                        ev: 1,
                    });
                }
                ops.push(Op::PatchChecked {
                    log,
                    cp: Cp::Diverged,
                    ev: 1,
                });
                ops.push(Op::PatchChecked {
                    log,
                    cp: Cp::ForgedRoot,
                    ev: 1,
                });
            }
            for idx in 0..len {
                ops.push(Op::Rewind { log, idx });
            }
            ops.push(Op::RewindAbsent { log });
            ops.push(Op::Clear { log });
            ops.push(Op::ReplaceAll { log, good: true });
            ops.push(Op::ReplaceAll { log, good: false });
        } else {
            ops.push(Op::Apply {
                log,
                evs: vec![0],
            });
            ops.push(Op::Apply {
                log,
                evs: vec![1],
            });
            if len > 1 {
                ops.push(Op::Rewind { log, idx: len - 2 });
            }
            if len > 0 {
                ops.push(Op::Clear { log });
            }
        }
    }
    ops
}

/// Apply one op to one implementation log.
async fn apply_impl(
    l: &mut AnyLog,
    op: &Op,
    model_log: &[MRec],
    recs: &[EventRecord],
) -> Class {
    each!(l, x => apply_impl_t(x, op, model_log, recs).await)
}

async fn apply_impl_t<T: LogT>(
    l: &mut BackendEventLog<T>,
    op: &Op,
    model_log: &[MRec],
    recs: &[EventRecord],
) -> Class {
    let res: Result<Class, String> = async {
        Ok(match op {
            Op::Apply { .. } | Op::ApplyOld { .. } => {
                l.apply_records(recs.to_vec())
                    .await
                    .map_err(|e| e.to_string())?;
                Class::Ok
            }
            Op::PatchUnchecked { .. } => {
                let p = Patch::<T>::new(recs.to_vec());
                l.patch_unchecked(&p).await.map_err(|e| e.to_string())?;
                Class::Ok
            }
            Op::PatchChecked { cp, .. } => {
                let hashes: Vec<[u8; 32]> =
                    model_log.iter().map(|r| r.hash).collect();
                let proof = match cp {
                    Cp::Head => tree_of(&hashes).head().unwrap(),
                    Cp::Prefix(n) => tree_of(&hashes[..*n]).head().unwrap(),
                    Cp::Diverged => {
                        let mut h = hashes.clone();
                        let last = h.len() - 1;
                        h[last] = CommitTree::hash(b"diverged");
                        tree_of(&h).head().unwrap()
                    }
                    Cp::ForgedRoot => {
                        forged(tree_of(&hashes).head().unwrap())
                    }
                };
                let p = Patch::<T>::new(recs.to_vec());
                match l
                    .patch_checked(&proof, &p)
                    .await
                    .map_err(|e| e.to_string())?
                {
                    CheckedPatch::Success(_) => Class::Success,
                    CheckedPatch::Conflict { .. } => Class::Conflict,
                }
            }
            Op::Rewind { idx, .. } => {
                let c = CommitHash(model_log[*idx].hash);
                l.rewind(&c).await.map_err(|e| e.to_string())?;
                Class::Ok
            }
            Op::RewindAbsent { .. } => {
                let c = CommitHash(CommitTree::hash(b"absent"));
                l.rewind(&c).await.map_err(|e| e.to_string())?;
                Class::Ok
            }
            Op::Clear { .. } => {
                l.clear().await.map_err(|e| e.to_string())?;
                Class::Ok
            }
            Op::ReplaceAll { good, .. } => {
                let hashes: Vec<[u8; 32]> =
                    recs.iter().map(|r| r.commit().0).collect();
                let checkpoint = if *good {
                    tree_of(&hashes).head().unwrap()
                } else {
                    let mut h = hashes.clone();
                    h[0] = CommitTree::hash(b"wrong");
                    tree_of(&h).head().unwrap()
                };
                let diff = Diff::<T> {
                    patch: Patch::new(recs.to_vec()),
                    checkpoint,
                    last_commit: None,
                };
                l.replace_all_events(&diff)
                    .await
                    .map_err(|e| e.to_string())?;
                Class::Ok
            }
        })
    }
    .await;
    match res {
        Ok(c) => c,
        Err(e) => Class::Err(e),
    }
}

/// Model transition: returns expected class; mutates the model.
fn apply_model(model: &mut Vec<MRec>, op: &Op, new: &[MRec]) -> Class {
    match op {
        Op::Apply { .. }
        | Op::ApplyOld { .. }
        | Op::PatchUnchecked { .. } => {
            model.extend(new.iter().cloned());
            Class::Ok
        }
        Op::PatchChecked { cp, .. } => match cp {
            Cp::Head => {
                model.extend(new.iter().cloned());
                Class::Success
            }
            Cp::Prefix(n) => {
                // a stale head whose *content* equals the current head
                // cannot happen: prefix is strictly shorter
                let _ = n;
                Class::Conflict
            }
            _ => Class::Conflict,
        },
        Op::Rewind { idx, .. } => {
            // the commit hash names the LAST record with that hash
            let h = model[*idx].hash;
            let last = model.iter().rposition(|r| r.hash == h).unwrap();
            model.truncate(last + 1);
            Class::Ok
        }
        Op::RewindAbsent { .. } => Class::Err(String::new()),
        Op::Clear { .. } => {
            model.clear();
            Class::Ok
        }
        Op::ReplaceAll { good, .. } => {
            if *good {
                *model = new.to_vec();
                Class::Ok
            } else {
                Class::Err(String::new())
            }
        }
    }
}

#[derive(Default)]
struct Fails(Vec<(String, String, String, Value)>); // (prop, sig, what, detail)

impl Fails {
    fn push(&mut self, prop: &str, sig: String, what: String, detail: Value) {
        self.0.push((prop.to_string(), sig, what, detail));
    }
}

async fn stream_of(l: &AnyLog, reverse: bool) -> Result<Vec<EventRecord>, String> {
    each!(l, x => stream_of_t(x, reverse).await)
}

async fn diff_records_of(l: &AnyLog, c: &CommitHash) -> Result<Vec<EventRecord>, String> {
    each!(l, x => x.diff_records(Some(c)).await.map_err(|e| e.to_string()))
}

async fn stream_of_t<T: LogT>(
    l: &BackendEventLog<T>,
    reverse: bool,
) -> Result<Vec<EventRecord>, String> {
    let mut out = vec![];
    let s = l.record_stream(reverse).await;
    futures::pin_mut!(s);
    while let Some(r) = s.next().await {
        out.push(r.map_err(|e| e.to_string())?);
    }
    Ok(out)
}

/// Oracle for one backend after one transition.
async fn check_backend(
    backend: &str,
    w_logs: &[AnyLog],
    fresh: &[AnyLog],
    model: &Model,
    op: &Op,
    fails: &mut Fails,
) {
    let k = op.kind();
    for log in 0..model.logs.len() {
        let m = &model.logs[log];
        let role = if log == op.log() { "target" } else { "other_log" };
        let want_hashes: Vec<[u8; 32]> = m.iter().map(|r| r.hash).collect();
        let live = w_logs[log].leaves();
        let reloaded = fresh[log].leaves();
        if live != want_hashes {
            fails.push(
                "C06",
                format!("{}:live_tree_differs_from_model:{}:{}", k, role, backend),
                "in-memory commit tree differs from the model sequence".into(),
                json!({"log": log, "live_len": live.len(), "want_len": want_hashes.len()}),
            );
        }
        if reloaded != live
            || fresh[log].root() != w_logs[log].root()
        {
            fails.push(
                "C06",
                format!("{}:reloaded_tree_differs_from_live:{}:{}", k, role, backend),
                "fresh log instance + load_tree() does not reproduce the live commit tree".into(),
                json!({"log": log, "live_len": live.len(), "reloaded_len": reloaded.len()}),
            );
        }
        // C08 at the level of logs: the live log compared with the head
        // proof of a log holding the model sequence answers Equal, with the
        // head proof of the sequence minus its last event Contains, with
        // the head proof of the sequence plus one more event Unknown
        if !want_hashes.is_empty() {
            let wt = tree_of(&want_hashes);
            let n = want_hashes.len();
            let mut cases: Vec<(&str, CommitTree, String)> = vec![("same_sequence", wt, "Equal".to_string())];
            if n >= 2 {
                cases.push(("proper_prefix", tree_of(&want_hashes[..n - 1]), format!("Contains{:?}", vec![n - 2])));
            }
            let mut longer = want_hashes.clone();
            longer.push(CommitTree::hash(b"one more event"));
            cases.push(("longer_sequence", tree_of(&longer), "Unknown".to_string()));
            for (what, other, want) in cases {
                if let Ok(proof) = other.head() {
                    let got = w_logs[log].compare(&proof);
                    if got != want {
                        fails.push(
                            "C08",
                            format!("{}:log_compare:{}:got={},want={}:{}:{}", k, what, got.split(|c| c == '[' || c == '(').next().unwrap_or(""), want.split('[').next().unwrap_or(""), role, backend),
                            "comparing a log with the head proof of another log gives the wrong relation".into(),
                            json!({"log": log, "other": what, "got": got, "want": want}),
                        );
                    }
                }
            }
        }
        if live == want_hashes && !want_hashes.is_empty() {
            let wt = tree_of(&want_hashes);
            if wt.root() != w_logs[log].root() {
                fails.push(
                    "C06",
                    format!("{}:root_mismatch:{}:{}", k, role, backend),
                    "root differs from a tree rebuilt from the same leaves".into(),
                    json!({"log": log}),
                );
            }
        }
        match stream_of(&fresh[log], false).await {
            Ok(recs) => {
                let got: Vec<(Vec<u8>, [u8; 32], UtcDateTime)> = recs
                    .iter()
                    .map(|r| {
                        (
                            r.event_bytes().to_vec(),
                            r.commit().0,
                            r.time().clone(),
                        )
                    })
                    .collect();
                let want: Vec<(Vec<u8>, [u8; 32], UtcDateTime)> = m
                    .iter()
                    .map(|r| (r.bytes.clone(), r.hash, r.time.clone()))
                    .collect();
                if got != want {
                    let why = if got.len() != want.len() {
                        "length"
                    } else if got
                        .iter()
                        .zip(want.iter())
                        .all(|(g, w)| g.0 == w.0 && g.1 == w.1)
                    {
                        "timestamps"
                    } else {
                        "content_or_order"
                    };
                    fails.push(
                        "C06",
                        format!("{}:stored_records_differ_from_model({}):{}:{}", k, why, role, backend),
                        "record_stream(false) of a fresh instance differs from the model (events, order or original timestamps)".into(),
                        json!({"log": log, "got_len": got.len(), "want_len": want.len()}),
                    );
                }
                for r in &recs {
                    if CommitTree::hash(r.event_bytes()) != r.commit().0 {
                        fails.push(
                            "C06",
                            format!("{}:commit_is_not_sha256_of_event:{}:{}", k, role, backend),
                            "stored commit hash is not the SHA-256 of the stored event bytes".into(),
                            json!({"log": log}),
                        );
                    }
                }
                match stream_of(&fresh[log], true).await {
                    Ok(mut rev) => {
                        rev.reverse();
                        if rev != recs {
                            fails.push(
                                "C06",
                                format!("{}:reverse_stream_not_mirror:{}:{}", k, role, backend),
                                "record_stream(true) is not the exact reverse of record_stream(false)".into(),
                                json!({"log": log}),
                            );
                        }
                    }
                    Err(e) => fails.push(
                        "C06",
                        format!("{}:reverse_stream_error:{}:{}", k, role, backend),
                        format!("reverse iteration failed: {}", e),
                        json!({"log": log}),
                    ),
                }
            }
            Err(e) => fails.push(
                "C06",
                format!("{}:stream_error:{}:{}", k, role, backend),
                format!("forward iteration failed: {}", e),
                json!({"log": log}),
            ),
        }
        // diff_records from every commit = model suffix after the last
        // record carrying that hash
        for j in 0..m.len() {
            let c = CommitHash(m[j].hash);
            let last = m.iter().rposition(|r| r.hash == m[j].hash).unwrap();
            let want: Vec<[u8; 32]> =
                m[last + 1..].iter().map(|r| r.hash).collect();
            match diff_records_of(&w_logs[log], &c).await {
                Ok(d) => {
                    let got: Vec<[u8; 32]> =
                        d.iter().map(|r| r.commit().0).collect();
                    if got != want {
                        fails.push(
                            "C06",
                            format!("{}:diff_records_mismatch:{}:{}", k, role, backend),
                            "diff_records(commit) is not the suffix after that commit".into(),
                            json!({"log": log, "from_index": j}),
                        );
                    }
                }
                Err(e) => fails.push(
                    "C06",
                    format!("{}:diff_records_error:{}:{}", k, role, backend),
                    format!("diff_records failed: {}", e),
                    json!({"log": log, "from_index": j}),
                ),
            }
        }
    }
}

/// Execute one transition with all oracles. Returns failures.
async fn step(w: &mut World, op: &Op, check: bool) -> Fails {
    let mut fails = Fails::default();
    let log = op.log();
    // records the op carries (created once, given to both backends and
    // the model so that all three see byte-identical input)
    let mut recs = vec![];
    let mut mrecs = vec![];
    match op {
        Op::Apply { evs, .. } => {
            for e in evs {
                let (r, m) = mk_record(w.kind, *e, false).await;
                recs.push(r);
                mrecs.push(m);
            }
        }
        Op::ApplyOld { ev, .. } => {
            let (r, m) = mk_record(w.kind, *ev, true).await;
            recs.push(r);
            mrecs.push(m);
        }
        Op::PatchUnchecked { ev, .. } | Op::PatchChecked { ev, .. } => {
            let (r, m) = mk_record(w.kind, *ev, false).await;
            recs.push(r);
            mrecs.push(m);
        }
        Op::ReplaceAll { .. } => {
            for e in [2u8, 0u8] {
                let (r, m) = mk_record(w.kind, e, false).await;
                recs.push(r);
                mrecs.push(m);
            }
        }
        _ => {}
    }
    let before = w.model.clone();
    let c_fs = apply_impl(&mut w.fs[log], op, &before.logs[log], &recs).await;
    let c_db = apply_impl(&mut w.db[log], op, &before.logs[log], &recs).await;
    let c_model = apply_model(&mut w.model.logs[log], op, &mrecs);
    if !check {
        return fails;
    }
    let k = op.kind();
    for (backend, c) in [("fs", &c_fs), ("sqlite", &c_db)] {
        if c.short() != c_model.short() {
            // classify for C07 / C06
            let (prop, clause) = match (op, c_model.short(), c.short()) {
                (Op::PatchChecked { .. }, "Conflict", "Success") => {
                    ("C07", "accepted_on_wrong_base")
                }
                (Op::PatchChecked { .. }, "Success", _) => {
                    ("C07", "refused_on_agreed_base")
                }
                (Op::ReplaceAll { good: false, .. }, "Err", _) => {
                    ("C07", "wrong_checkpoint_accepted")
                }
                (Op::RewindAbsent { .. }, "Err", _) => {
                    ("C07", "rewind_to_absent_commit_accepted")
                }
                _ => ("C06", "unexpected_result"),
            };
            fails.push(
                prop,
                format!("{}:{}(got={},want={}):{}", k, clause, c.short(), c_model.short(), backend),
                format!("operation returned {:?}, the model says {}", c, c_model.short()),
                json!({}),
            );
        }
    }
    if c_fs.short() != c_db.short() {
        fails.push(
            "C06",
            format!("{}:backends_disagree(fs={},sqlite={})", k, c_fs.short(), c_db.short()),
            "file-system and database backends answered differently for the same sequence".into(),
            json!({"fs": format!("{:?}", c_fs), "sqlite": format!("{:?}", c_db)}),
        );
    }
    // C07: refused => nothing changed (checked against the pre-state
    // model, on every log)
    let refused_model = matches!(c_model, Class::Conflict | Class::Err(_));
    // fresh instances
    let (ffs, fdb, fclient) = match open_logs(&w.dir, w.kind).await {
        Ok(x) => x,
        Err(e) => {
            fails.push(
                "C06",
                format!("{}:reopen_failed", k),
                format!("re-opening the logs from storage failed: {}", e),
                json!({}),
            );
            return fails;
        }
    };
    let mut sub = Fails::default();
    check_backend("fs", &w.fs, &ffs, &w.model, op, &mut sub).await;
    check_backend("sqlite", &w.db, &fdb, &w.model, op, &mut sub).await;
    for (prop, sig, what, detail) in sub.0 {
        // a mismatch after an operation the model refuses is a C07
        // failure ("a refused request changes nothing"); when the live
        // tree, the reloaded tree and the stored records no longer agree
        // it is a C06 failure as well (C08 oracles keep their property)
        if refused_model && prop == "C06" {
            fails.0.push(("C07".to_string(), format!("refused_but_changed:{}", sig), what.clone(), detail.clone()));
            fails.0.push((prop, format!("after_refused_operation:{}", sig), what, detail));
        } else {
            fails.0.push((prop, sig, what, detail));
        }
    }
    // for fs: no snapshot file left behind after a refused replace-all
    if let Op::ReplaceAll { good: false, .. } = op {
        let mut leftovers = vec![];
        for e in walk(&w.dir.join("fs")) {
            if e.to_string_lossy().contains("snapshot") {
                leftovers.push(e.to_string_lossy().to_string());
            }
        }
        if !leftovers.is_empty() {
            fails.push(
                "C07",
                format!("{}:snapshot_left_behind:fs", k),
                "a snapshot file remains after a refused replace-all".into(),
                json!({"files": leftovers.len()}),
            );
        }
    }
    let _ = fclient.close().await;
    fails
}

fn walk(p: &Path) -> Vec<PathBuf> {
    let mut out = vec![];
    if let Ok(rd) = std::fs::read_dir(p) {
        for e in rd.flatten() {
            let p = e.path();
            if p.is_dir() {
                out.extend(walk(&p));
            } else {
                out.push(p);
            }
        }
    }
    out
}

/// Worker: expand one frontier state (= history): for every enabled op,
/// rebuild the world by replaying the history, apply the op, judge.
async fn expand(
    template: &Path,
    work: &Path,
    hist: &[Op],
    reduced: bool,
    kind: Kind,
) -> Value {
    // model-only replay to find enabled ops
    let mut w = World::new(template, work, kind).await.expect("world");
    for op in hist {
        let _ = step(&mut w, op, false).await;
    }
    let ops = enabled(&w.model, reduced);
    let base_canon = w.model.canon();
    w.close().await;
    let mut out = vec![];
    for op in ops {
        let mut w = World::new(template, work, kind).await.expect("world");
        for h in hist {
            let _ = step(&mut w, h, false).await;
        }
        if w.model.canon() != base_canon {
            return json!({"machinery": "replay of a prefix diverged"});
        }
        let fails = step(&mut w, &op, true).await;
        let canon = w.model.canon();
        w.close().await;
        out.push(json!({
            "op": op,
            "canon": canon,
            "fails": fails.0.iter().map(|(p,s,wh,d)| json!({"prop":p,"sig":s,"what":wh,"detail":d})).collect::<Vec<_>>(),
        }));
    }
    json!({"succ": out})
}

fn rt() -> tokio::runtime::Runtime {
    tokio::runtime::Builder::new_multi_thread()
        .worker_threads(2)
        .enable_all()
        .build()
        .unwrap()
}

fn main() {
    let args = Args::parse();
    let prop = args.props.first().cloned().unwrap_or("C06".to_string());
    let depth = match args.tier {
        Tier::Quick => 4,
        Tier::Thorough => 5,
    };
    let depth: usize = std::env::var("LOGX_DEPTH")
        .ok()
        .and_then(|s| s.parse().ok())
        .unwrap_or(depth);
    let reduced = true;

    if let Some(_stage) = pool::worker_stage() {
        let input = std::env::var("VKIT_INPUT").expect("VKIT_INPUT");
        let frontier: Vec<Vec<Op>> =
            serde_json::from_slice(&std::fs::read(&input).unwrap()).unwrap();
        let wd = fsutil::WorkDir::new("logx-w");
        let template = wd.path().join("template");
        let rt = rt();
        rt.block_on(make_template(&template)).expect("template");
        let work = wd.path().join("w");
        let kind: Kind = serde_json::from_str(&std::env::var("VKIT_KIND").expect("VKIT_KIND")).unwrap();
        pool::worker_loop(|idx| {
            rt.block_on(expand(&template, &work, &frontier[idx], reduced, kind))
        });
    }

    if let Some(path) = &args.replay {
        std::process::exit(replay(path, &prop));
    }

    let level = "model_checking";
    let mut run = Run::new(&prop, level, &args);
    let wd = fsutil::WorkDir::new("logx");
    let mut transitions = 0u64;
    let mut samples = vec![];
    let mut per_level = vec![];
    let mut accepted = 0u64;
    let mut refused = 0u64;
    let mut op_kinds: BTreeMap<String, u64> = BTreeMap::new();
    let mut states_total = 0usize;
    let mut unexpanded_total = 0usize;
    // folder logs at the full depth; the account-owned logs (one per
    // account, two accounts sharing each table) one level less
    let kinds: Vec<(Kind, usize)> = vec![
        (Kind::Folder, depth),
        (Kind::Account, depth.saturating_sub(1).max(2)),
        (Kind::Device, depth.saturating_sub(1).max(2)),
        (Kind::Files, depth.saturating_sub(1).max(2)),
    ];
    for (kind, depth) in kinds {
    let mut seen: HashSet<String> = HashSet::new();
    let mut frontier: Vec<Vec<Op>> = vec![vec![]];
    seen.insert(vec![""; kind.nlogs()].join("|"));
    for d in 0..depth {
        let input = wd.path().join(format!("frontier-{}-{}.json", kind.name(), d));
        std::fs::write(&input, serde_json::to_vec(&frontier).unwrap())
            .unwrap();
        let mut opts = PoolOpts::default();
        opts.env.push((
            "VKIT_INPUT".to_string(),
            input.to_string_lossy().to_string(),
        ));
        opts.env.push(("VKIT_KIND".to_string(), serde_json::to_string(&kind).unwrap()));
        let res = pool::run_stage("expand", frontier.len(), &opts);
        let mut next = vec![];
        for (i, r) in res.into_iter().enumerate() {
            match r {
                pool::ItemResult::Crashed(why) => run.machinery(format!(
                    "worker failed expanding {:?}: {}",
                    frontier[i], why
                )),
                pool::ItemResult::Done(v) => {
                    if let Some(m) = v.get("machinery") {
                        run.machinery(format!("{}", m));
                        continue;
                    }
                    for s in v["succ"].as_array().unwrap() {
                        transitions += 1;
                        let op: Op =
                            serde_json::from_value(s["op"].clone()).unwrap();
                        *op_kinds.entry(op.kind().to_string()).or_default() +=
                            1;
                        match &op {
                            Op::PatchChecked { cp: Cp::Head, .. } => {
                                accepted += 1
                            }
                            Op::PatchChecked { .. }
                            | Op::ReplaceAll { good: false, .. }
                            | Op::RewindAbsent { .. } => refused += 1,
                            _ => {}
                        }
                        let mut h = frontier[i].clone();
                        h.push(op);
                        for f in s["fails"].as_array().unwrap() {
                            if f["prop"].as_str() == Some(prop.as_str()) {
                                let sig0 = f["sig"].as_str().unwrap();
                                let sig_k = if kind == Kind::Folder { sig0.to_string() } else { format!("{}:{}_log", sig0, kind.name()) };
                                run.fail(
                                    &sig_k,
                                    f["what"].as_str().unwrap(),
                                    json!({"engine":"logx","log_kind": kind, "history": h, "detail": f["detail"]}),
                                );
                            }
                        }
                        let canon =
                            s["canon"].as_str().unwrap().to_string();
                        if h.len() >= 3 {
                            push_sample(
                                &mut samples,
                                json!({"log_kind": kind.name(), "history": h, "state": canon}),
                                4,
                            );
                        }
                        if seen.insert(canon) {
                            next.push(h);
                        }
                    }
                }
            }
        }
        per_level.push(json!({"log_kind": kind.name(), "depth": d + 1, "new_states": next.len(), "expanded": frontier.len()}));
        frontier = next;
    }
    states_total += seen.len();
    unexpanded_total += frontier.len();
    }
    if accepted == 0 || refused == 0 {
        run.machinery("vacuous: no accepted or no refused checked request was explored");
    }
    // C07 also at the server level: real signed HTTP requests against a
    // real in-process server (srvx engine), merged into this evidence
    let mut server_level = Value::Null;
    if prop == "C07" {
        let frag = wd.path().join("srvx-fragment.json");
        let srvx = std::env::current_exe().unwrap().with_file_name("srvx");
        let st = std::process::Command::new(&srvx)
            .args(["--prop", "C07", "--tier", args.tier.as_str()])
            .env("VKIT_FRAGMENT", &frag)
            .env_remove("VKIT_WORKER")
            .env_remove("VKIT_INPUT")
            .stdout(std::process::Stdio::null())
            .status();
        match st {
            Ok(s) if s.success() => {
                let v: Value = serde_json::from_slice(&std::fs::read(&frag).unwrap_or_default()).unwrap_or(json!({}));
                if let Some(fs) = v["failures"].as_array() {
                    for f in fs {
                        run.fail_n(f["sig"].as_str().unwrap(), f["what"].as_str().unwrap(), f["witness"].clone(), f["count"].as_u64().unwrap_or(1));
                    }
                }
                let c = &v["evidence"]["coverage"];
                transitions += c["transitions"].as_u64().unwrap_or(0);
                server_level = json!({"requests": c["transitions"], "expected_accepted": c["requests_expected_to_be_accepted"], "expected_refused": c["requests_expected_to_be_refused"], "rule": c["rule"], "samples": c["samples"]});
                if c["transitions"].as_u64().unwrap_or(0) == 0 {
                    run.machinery("vacuous: srvx explored no request");
                }
            }
            other => run.machinery(format!("srvx fragment failed: {:?}", other)),
        }
    }
    run.assume("state abstraction: a state is the per-log sequence of event letters (old-time records distinguished); storage-internal identifiers (SQLite row ids, file offsets) are assumed not to influence future behaviour beyond what the oracles observe after every transition");
    run.assume("SQLite itself and the OS file system are trusted base");
    let mut cov = Map::new();
    cov.insert("states".into(), json!(states_total));
    cov.insert("transitions".into(), json!(transitions));
    cov.insert("traces_validated_against_impl".into(), json!(transitions));
    cov.insert("samples".into(), json!(samples));
    cov.insert("exhaustive".into(), json!(true));
    cov.insert("depth".into(), json!(depth));
    cov.insert("levels".into(), json!(per_level));
    cov.insert("unexpanded_frontier_at_bound".into(), json!(unexpanded_total));
    cov.insert("operations_by_kind".into(), json!(op_kinds));
    cov.insert("server_level_requests".into(), server_level);
    cov.insert("checked_requests_on_agreed_base".into(), json!(accepted));
    cov.insert("requests_the_model_refuses".into(), json!(refused));
    cov.insert("explanation".into(), json!("breadth-first search over the real FileSystemEventLog and DatabaseEventLog in lock-step; three co-resident folder logs (two accounts); every transition re-executed on fresh storage by replaying the history; all oracles evaluated after every transition on every log; every transition is an execution of the implementation, so traces_validated_against_impl = transitions"));
    std::process::exit(run.finish(cov));
}

fn replay(path: &Path, prop: &str) -> i32 {
    let v: Value =
        serde_json::from_slice(&std::fs::read(path).expect("read")).unwrap();
    if v["witness"]["engine"].as_str() == Some("srvx") {
        let srvx = std::env::current_exe().unwrap().with_file_name("srvx");
        let st = std::process::Command::new(&srvx)
            .args(["--prop", "C07", "--replay"])
            .arg(path)
            .status()
            .expect("run srvx");
        return st.code().unwrap_or(2);
    }
    let hist: Vec<Op> =
        serde_json::from_value(v["witness"]["history"].clone()).unwrap();
    let kind: Kind = serde_json::from_value(v["witness"]["log_kind"].clone()).unwrap_or(Kind::Folder);
    let want_sig = v["signature"].as_str().unwrap_or("").to_string();
    let want_sig = want_sig.trim_end_matches(&format!(":{}_log", kind.name())).to_string();
    let wd = fsutil::WorkDir::new("logx-r");
    let template = wd.path().join("template");
    let rt = rt();
    rt.block_on(make_template(&template)).unwrap();
    let mut obs = vec![];
    for round in 0..2 {
        let work = wd.path().join(format!("w{}", round));
        let sigs = rt.block_on(async {
            let mut w = World::new(&template, &work, kind).await.unwrap();
            let mut sigs = vec![];
            for (i, op) in hist.iter().enumerate() {
                let f = step(&mut w, op, i + 1 == hist.len()).await;
                for (p, s, what, _) in f.0 {
                    if p == prop {
                        sigs.push((s, what));
                    }
                }
            }
            w.close().await;
            sigs
        });
        obs.push(sigs);
    }
    if obs[0] != obs[1] {
        eprintln!("MACHINERY-ERROR replay is not deterministic");
        return 2;
    }
    for (s, w) in &obs[0] {
        println!("observed {}: {}", s, w);
    }
    if obs[0].iter().any(|(s, _)| *s == want_sig) || (!obs[0].is_empty() && want_sig.is_empty()) {
        println!("VIOLATION property={} replay={}", prop, path.display());
        1
    } else {
        0
    }
}
