#!/usr/bin/env bash
# usage: confirm_queue.sh <worktree> <seeded-id> <cargo test args...>; waits until no other confirmation runs
sleep $((RANDOM % 7))
while pgrep -f "tools/confirm_mut.sh" >/dev/null; do sleep 15; done
exec bash /verif/tools/confirm_mut.sh "$@"
