//! C15 over HTTP — malformed request bodies, correctly signed by a trusted
//! device, sent to every body-carrying route of a live in-process server:
//! every mutant must get a response (no hang, no dropped connection that
//! takes the server down) and the server must keep serving valid requests.
//! Run as a fragment of the fuzzx engine (or stand-alone).
use anyhow::{anyhow, Result};
use serde_json::{json, Map, Value};
use sos_account::Account;
use sos_core::{
    commit::{CommitProof, CommitTree},
    encode,
    events::EventLogType,
};
use sos_login::device::DeviceSigner;
use sos_protocol::{DiffRequest, PatchRequest, ScanRequest, WireEncodeDecode};
use sos_signer::ed25519::BinaryEd25519Signature;
use sos_sync::{SyncPacket, SyncStorage};
use std::collections::BTreeMap;
use vkit::acct::{Backend, Dev};
use vkit::run::{Args, Run, Tier};
use vkit::world::{start_server, Device, SyncResult};
use vkit::{clock, fsutil};

async fn token(signer: &[u8; 32], msg: &[u8]) -> String {
    let s: DeviceSigner = (*signer).try_into().unwrap();
    let sig = s.signing_key().sign(msg).await.unwrap();
    let b: BinaryEd25519Signature = sig.into();
    bs58::encode(encode(&b).await.unwrap()).into_string()
}

fn mutants(seed: &[u8], tier: Tier) -> Vec<Vec<u8>> {
    let n = seed.len();
    let mut out: Vec<Vec<u8>> = vec![];
    // truncation at every offset
    for l in 0..n {
        out.push(seed[..l].to_vec());
    }
    let stride = if tier == Tier::Quick { 3 } else { 1 };
    // bit flips
    for i in (0..n * 8).step_by(stride) {
        let mut m = seed.to_vec();
        m[i / 8] ^= 1 << (i % 8);
        out.push(m);
    }
    // byte values
    for i in 0..n {
        for v in [0x00u8, 0x7f, 0x80, 0xff] {
            if seed[i] != v {
                let mut m = seed.to_vec();
                m[i] = v;
                out.push(m);
            }
        }
    }
    // varint / length style edits: insert a huge varint at every offset
    for i in (0..n).step_by(if tier == Tier::Quick { 4 } else { 1 }) {
        let mut m = seed[..i].to_vec();
        m.extend_from_slice(&[0xff, 0xff, 0xff, 0xff, 0x0f]);
        m.extend_from_slice(&seed[i..]);
        out.push(m);
    }
    // extension
    let mut m = seed.to_vec();
    m.extend(std::iter::repeat(0xaa).take(64));
    out.push(m);
    out
}

fn main() {
    let args = Args::parse();
    let rt = tokio::runtime::Builder::new_multi_thread().worker_threads(4).enable_all().build().unwrap();
    let mut run = Run::new("C15", "exploration", &args);
    let wd = fsutil::WorkDir::new("httpx");
    let res: Result<Value> = rt.block_on(async {
        clock::install();
        let server = start_server(&wd.path().join("server"), false, None, None).await?;
        let mut a = Dev::create(&wd.path().join("a"), Backend::Fs, "http-account", false).await?;
        let (m, s) = vkit::gen::secret("note", 0, "h0");
        a.account.create_secret(m, s, Default::default()).await?;
        let d1 = a.account.device_signer().await?.to_bytes();
        let account_id = a.account_id;
        let dev = Device::connect(a, 0, &server.origin).await?;
        if dev.sync().await != SyncResult::Ok {
            return Err(anyhow!("initial sync failed"));
        }
        let mut seeds: Vec<(&str, &str, Vec<u8>)> = vec![];
        {
            let acc = dev.account.lock().await;
            let status = acc.sync_status().await?;
            seeds.push(("PATCH", "/api/v1/sync/account", SyncPacket { status, diff: Default::default(), compare: None }.encode().await?));
            seeds.push(("PUT", "/api/v1/sync/account", acc.create_set().await?.encode().await?));
            seeds.push(("POST", "/api/v1/sync/account", sos_sync::UpdateSet::default().encode().await?));
        }
        seeds.push(("GET", "/api/v1/sync/account/events", ScanRequest { log_type: EventLogType::Account, limit: 8, offset: 0 }.encode().await?));
        seeds.push(("POST", "/api/v1/sync/account/events", DiffRequest { log_type: EventLogType::Account, from_hash: None }.encode().await?));
        {
            let mut t = CommitTree::new();
            t.insert(CommitTree::hash(b"made up"));
            t.commit();
            let proof: CommitProof = t.head()?;
            seeds.push(("PATCH", "/api/v1/sync/account/events", PatchRequest { log_type: EventLogType::Account, commit: None, proof, patch: vec![] }.encode().await?));
        }
        seeds.push(("POST", "/api/v1/sync/files", sos_protocol::transfer::FileSet(Default::default()).encode().await?));
        let base = format!("http://{}", server.addr);
        let client = reqwest::Client::builder().build()?;
        let mut total = 0u64;
        let mut by_status: BTreeMap<String, u64> = BTreeMap::new();
        let mut per_route: BTreeMap<String, u64> = BTreeMap::new();
        let mut fails: Vec<(String, String, Value)> = vec![];
        let status_path = "/api/v1/sync/account/status";
        for (method, path, seed) in &seeds {
            // PUT create_set bodies are large: restrict the mutation window
            let window: Vec<u8> = seed.clone();
            let mut ms = mutants(&window[..window.len().min(if args.tier == Tier::Quick { 160 } else { 600 })], args.tier);
            if window.len() > 600 || (args.tier == Tier::Quick && window.len() > 160) {
                // re-attach the untouched tail so that the body stays long
                let cut = window.len().min(if args.tier == Tier::Quick { 160 } else { 600 });
                for m in ms.iter_mut() {
                    if m.len() >= cut.saturating_sub(1) {
                        m.extend_from_slice(&window[cut..]);
                    }
                }
            }
            let route = format!("{} {}", method, path.trim_start_matches("/api/v1"));
            for (k, body) in ms.iter().enumerate() {
                let url = format!("{}{}?connection_id=httpx", base, path);
                let req = client
                    .request(reqwest::Method::from_bytes(method.as_bytes()).unwrap(), &url)
                    .header("content-type", "application/x-protobuf")
                    .header("x-sos-account-id", account_id.to_string())
                    .header("authorization", format!("Bearer {}", token(&d1, body).await))
                    .body(body.clone());
                total += 1;
                *per_route.entry(route.clone()).or_default() += 1;
                match tokio::time::timeout(std::time::Duration::from_secs(90), req.send()).await {
                    Ok(Ok(r)) => {
                        *by_status.entry(r.status().as_u16().to_string()).or_default() += 1;
                    }
                    Ok(Err(e)) => {
                        // connection error: acceptable only if the server still serves
                        *by_status.entry("connection_error".into()).or_default() += 1;
                        let _ = e;
                    }
                    Err(_) => {
                        fails.push((format!("http:{}:no_response", route.replace(' ', "_")), "a malformed signed request got no response within 90 s".into(), json!({"route": route, "mutant": k, "body_hex": hex::encode(&body[..body.len().min(96)])})));
                    }
                }
                if k % 40 == 39 || k + 1 == ms.len() {
                    let req = client
                        .get(format!("{}{}?connection_id=httpx", base, status_path))
                        .header("x-sos-account-id", account_id.to_string())
                        .header("authorization", format!("Bearer {}", token(&d1, status_path.as_bytes()).await));
                    let ok = matches!(tokio::time::timeout(std::time::Duration::from_secs(90), req.send()).await, Ok(Ok(r)) if r.status().is_success());
                    if !ok {
                        fails.push((format!("http:{}:server_stopped_serving", route.replace(' ', "_")), "after malformed requests the server no longer answers a valid status request".into(), json!({"route": route, "around_mutant": k})));
                        break;
                    }
                }
            }
        }
        dev.close().await;
        server.stop().await;
        Ok(json!({"total": total, "by_status": by_status, "per_route": per_route, "fails": fails.iter().map(|(s, w, d)| json!({"sig": s, "what": w, "detail": d})).collect::<Vec<_>>()}))
    });
    let mut cov = Map::new();
    match res {
        Ok(v) => {
            for f in v["fails"].as_array().unwrap() {
                run.fail(f["sig"].as_str().unwrap(), f["what"].as_str().unwrap(), json!({"engine": "httpx", "detail": f["detail"]}));
            }
            let total = v["total"].as_u64().unwrap_or(0);
            if total == 0 {
                run.machinery("vacuous: no request sent");
            }
            cov.insert("evaluations".into(), json!(total));
            cov.insert("distinct_nontrivial".into(), json!(total));
            cov.insert("responses_by_status".into(), v["by_status"].clone());
            cov.insert("requests_per_route".into(), v["per_route"].clone());
        }
        Err(e) => run.machinery(format!("httpx: {}", e)),
    }
    cov.insert("rule".into(), json!("7 body-carrying routes x single-point mutants of a valid body (every truncation, bit flips, byte values, inserted oversized varints, extension), each signed by the trusted device over the mutated bytes; every mutant must be answered within 90 s and a valid status request must succeed after every 40 mutants"));
    cov.insert("samples".into(), json!([{"route": "PATCH /sync/account/events", "mutation": "truncate PatchRequest body to 7 bytes, signed by the trusted device", "expected": "an HTTP error response; the next valid GET /sync/account/status answers 200"}]));
    std::process::exit(run.finish(cov));
}
