//! C07 (server level) — every checkpoint kind x every rewind target x
//! every log type, as real signed HTTP requests (PATCH /sync/account/events
//! and PATCH /sync/account) against a real in-process server.
//!
//! Oracle (LogModel): Success iff the checkpoint is the log's head (for a
//! rewind request: the head of the log cut at the rewind target); after
//! every refused request the server's log is record-for-record what it
//! was (same order, same timestamps) and every other log is untouched.
use anyhow::{anyhow, Result};
use serde::{Deserialize, Serialize};
use serde_json::{json, Map, Value};
use sos_core::{
    commit::{CommitHash, CommitProof, CommitTree},
    device::DevicePublicKey,
    events::{
        patch::{CheckedPatch, FolderDiff, Patch},
        AccountEvent, DeviceEvent, EventLogType, EventRecord, FileEvent,
        WriteEvent,
    },
    AccountId, ExternalFileName, SecretId, SecretPath, VaultId,
};
use sos_protocol::{PatchRequest, SyncClient};
use sos_remote_sync::RemoteSyncHandler;
use sos_sync::{MaybeDiff, SyncDiff, SyncPacket};
use std::collections::BTreeMap;
use std::path::Path;
use vkit::acct::{Backend, Dev};
use vkit::pool::{self, PoolOpts};
use vkit::run::{push_sample, Args, Run, Tier};
use vkit::world::{
    all_logs, make_template, start_server, status_view, Device, ServerProc, Template,
};
use vkit::{clock, fsutil};

#[derive(Clone, Copy, Debug, Serialize, Deserialize, PartialEq, Eq)]
enum LogT {
    Folder,
    Account,
    Device,
    Files,
    Identity,
}
const LOGS: [LogT; 5] = [
    LogT::Folder,
    LogT::Account,
    LogT::Device,
    LogT::Files,
    LogT::Identity,
];

#[derive(Clone, Debug, Serialize, Deserialize, PartialEq, Eq)]
enum Cp {
    Head,
    Stale,
    Diverged,
    Default,
    ForgedRoot,
}

#[derive(Clone, Debug, Serialize, Deserialize, PartialEq, Eq)]
enum Case {
    /// PATCH events, no rewind
    Patch { cp: Cp },
    /// PATCH events with rewind to index j; proof ok / wrong. With a good
    /// proof the patch is the merged patch (removed records ++ new event)
    Rewind { j: usize, good: bool },
    /// good proof but the patch omits the records the rewind removes:
    /// the server may accept (log = prefix ++ patch) or refuse (unchanged)
    RewindDropping { j: usize },
    RewindAbsent,
    /// PATCH /sync/account with a Diff for the log
    SyncDiff { cp: Cp },
    /// PUT /sync/account (forced update) replacing the log by its first
    /// n-drop records: afterwards the agreed base is the replaced log - a
    /// patch on the old head is refused, a patch on the new head applies
    Forced { drop: usize },
}

#[derive(Clone, Debug, Serialize, Deserialize)]
struct Item {
    log: LogT,
    case: Case,
    server_db: bool,
}

const HIST_LEN: usize = 4;
const MAX_J: usize = 8;
/// The harness events appended to every log: the first and the third are
/// byte-identical (same commit hash at two positions of the log).
const DUP: [usize; HIST_LEN] = [0, 1, 0, 2];

fn items(tier: Tier) -> Vec<Item> {
    let mut v = vec![];
    // quick: the sqlite server only for the rewind requests
    for db in [false, true] {
        for l in LOGS {
            for cp in [Cp::Head, Cp::Stale, Cp::Diverged, Cp::Default, Cp::ForgedRoot] {
                if db && tier == Tier::Quick {
                    continue;
                }
                v.push(Item { log: l, case: Case::Patch { cp: cp.clone() }, server_db: db });
                v.push(Item { log: l, case: Case::SyncDiff { cp }, server_db: db });
            }
            // j counts from the end of the log: the rewind target is index
            // n-1-j (items beyond the log's length are skipped and counted)
            for j in 0..MAX_J {
                v.push(Item { log: l, case: Case::Rewind { j, good: true }, server_db: db });
                v.push(Item { log: l, case: Case::Rewind { j, good: false }, server_db: db });
                if j >= 1 {
                    v.push(Item { log: l, case: Case::RewindDropping { j }, server_db: db });
                }
            }
            v.push(Item { log: l, case: Case::RewindAbsent, server_db: db });
            if matches!(l, LogT::Folder | LogT::Identity | LogT::Device) {
                for drop in [1usize, 2] {
                    v.push(Item { log: l, case: Case::Forced { drop }, server_db: db });
                }
            }
        }
    }
    v
}

fn log_type(l: LogT, t: &Template) -> EventLogType {
    match l {
        LogT::Folder => EventLogType::Folder(t.default_folder.parse().unwrap()),
        LogT::Account => EventLogType::Account,
        LogT::Device => EventLogType::Device,
        LogT::Files => EventLogType::Files,
        LogT::Identity => EventLogType::Identity,
    }
}

fn log_name(l: LogT, t: &Template) -> String {
    match l {
        LogT::Folder => format!("folder:{}", t.default_folder),
        LogT::Account => "account".into(),
        LogT::Device => "device".into(),
        LogT::Files => "files".into(),
        LogT::Identity => "identity".into(),
    }
}

/// k-th harmless, distinct event for a log type.
async fn mk_event(l: LogT, t: &Template, k: usize) -> EventRecord {
    let k = if k < HIST_LEN { DUP[k] } else { k };
    let folder: VaultId = t.default_folder.parse().unwrap();
    match l {
        LogT::Folder | LogT::Identity => EventRecord::encode_event(
            &WriteEvent::SetVaultName(format!("name-{}", k)),
        )
        .await
        .unwrap(),
        LogT::Account => EventRecord::encode_event(
            &AccountEvent::RenameFolder(folder, format!("acct-name-{}", k)),
        )
        .await
        .unwrap(),
        LogT::Device => {
            let key: DevicePublicKey = [k as u8 + 1; 32].into();
            EventRecord::encode_event(&DeviceEvent::Revoke(key))
                .await
                .unwrap()
        }
        LogT::Files => {
            let name: ExternalFileName = [k as u8 + 1; 32].into();
            let sid: SecretId = t.s0.parse().unwrap();
            EventRecord::encode_event(&FileEvent::CreateFile(
                SecretPath(folder, sid),
                name,
            ))
            .await
            .unwrap()
        }
    }
}

fn tree_of(recs: &[EventRecord]) -> CommitTree {
    let mut t = CommitTree::new();
    let mut h: Vec<[u8; 32]> = recs.iter().map(|r| r.commit().0).collect();
    t.append(&mut h);
    t.commit();
    t
}

async fn server_logs(
    server: &ServerProc,
    account_id: &AccountId,
) -> Result<BTreeMap<String, Vec<EventRecord>>> {
    let sa = server
        .account(account_id)
        .await
        .ok_or_else(|| anyhow!("no account"))?;
    let sa = sa.read().await;
    use sos_sync::SyncStorage;
    let st = sa.sync_status().await?;
    let folders: Vec<VaultId> = st.folders.keys().copied().collect();
    Ok(all_logs(&*sa, &folders).await?.into_iter().collect())
}

/// Prepared world: the template plus HIST_LEN harness events appended to
/// every log type through legitimate checked patches.
async fn prepare(dir: &Path, server_db: bool) -> Result<Template> {
    let t = make_template(&dir.join("tpl"), Backend::Fs, server_db, 1).await?;
    let server = start_server(&Path::new(&t.dir).join("server"), server_db, None, None).await?;
    let account_id: AccountId = t.account_id.parse().unwrap();
    let dev = Dev::open(&Path::new(&t.dir).join("d0"), Backend::Fs, account_id, vkit::acct::password()).await?;
    let device = Device::connect(dev, 0, &server.origin).await?;
    let client = device.bridge.client().clone();
    for l in LOGS {
        for k in 0..HIST_LEN {
            let logs = server_logs(&server, &account_id).await?;
            let cur = logs.get(&log_name(l, &t)).cloned().unwrap_or_default();
            let proof = if cur.is_empty() {
                CommitProof::default()
            } else {
                tree_of(&cur).head()?
            };
            let rec = mk_event(l, &t, k).await;
            let r = client
                .patch(PatchRequest {
                    log_type: log_type(l, &t),
                    commit: None,
                    proof,
                    patch: vec![rec],
                })
                .await
                .map_err(|e| anyhow!("prepare patch {:?} #{}: {}", l, k, e))?;
            if !matches!(r.checked_patch, CheckedPatch::Success(_)) {
                return Err(anyhow!("prepare patch {:?} #{} refused", l, k));
            }
        }
    }
    device.close().await;
    server.stop().await;
    Ok(t)
}

async fn run_item(t: &Template, it: &Item, work: &Path) -> Value {
    let mut fails: Vec<Value> = vec![];
    let res: Result<Value> = async {
        let _ = std::fs::remove_dir_all(work);
        fsutil::copy_dir(Path::new(&t.dir), work)?;
        clock::install();
        clock::set_tick(0, 500_000);
        let server = start_server(&work.join("server"), it.server_db, None, None).await?;
        let account_id: AccountId = t.account_id.parse().unwrap();
        let dev = Dev::open(&work.join("d0"), Backend::Fs, account_id, vkit::acct::password()).await?;
        let device = Device::connect(dev, 0, &server.origin).await?;
        let client = device.bridge.client().clone();
        let name = log_name(it.log, t);
        let before = server_logs(&server, &account_id).await?;
        let status_before = status_view(&server.sync_status(&account_id).await?);
        let s = before.get(&name).cloned().unwrap_or_default();
        let n = s.len();
        if n < HIST_LEN {
            return Err(anyhow!("prepared log too short: {}", n));
        }
        let x = mk_event(it.log, t, 100).await;
        let mk_proof = |cp: &Cp, base: &[EventRecord]| -> CommitProof {
            match cp {
                Cp::Head => tree_of(base).head().unwrap(),
                Cp::Stale => tree_of(&base[..base.len() - 1]).head().unwrap(),
                Cp::Diverged => {
                    let mut t = CommitTree::new();
                    let mut h: Vec<[u8; 32]> = base.iter().map(|r| r.commit().0).collect();
                    let last = h.len() - 1;
                    h[last] = CommitTree::hash(b"diverged");
                    t.append(&mut h);
                    t.commit();
                    t.head().unwrap()
                }
                Cp::Default => CommitProof::default(),
                Cp::ForgedRoot => {
                    let mut p = tree_of(base).head().unwrap();
                    p.root.0[3] ^= 0x40;
                    p
                }
            }
        };
        // expected outcome and log
        let (request_desc, expect_success, expected_log): (String, bool, Vec<EventRecord>);
        let response: std::result::Result<String, String>;
        match &it.case {
            Case::Patch { cp } => {
                let proof = mk_proof(cp, &s);
                expect_success = *cp == Cp::Head;
                request_desc = format!("patch(no rewind, checkpoint={:?})", cp);
                let r = client.patch(PatchRequest { log_type: log_type(it.log, t), commit: None, proof, patch: vec![x.clone()] }).await;
                response = match r {
                    Ok(r) => Ok(match r.checked_patch { CheckedPatch::Success(_) => "Success".into(), CheckedPatch::Conflict { .. } => "Conflict".into() }),
                    Err(e) => Err(e.to_string()),
                };
                let mut e = s.clone();
                if expect_success {
                    e.push(x.clone());
                }
                expected_log = e;
            }
            Case::Rewind { j, good } => {
                if *j >= n {
                    device.close().await;
                    server.stop().await;
                    return Ok(json!({"skipped": true}));
                }
                let idx = n - 1 - *j;
                let base = &s[..=idx];
                // the commit hash names the last position that carries it:
                // a target whose hash occurs again later is ambiguous
                let ambiguous = s[idx + 1..].iter().any(|r| r.commit() == s[idx].commit());
                let proof = if *good { tree_of(base).head().unwrap() } else { mk_proof(&Cp::ForgedRoot, base) };
                request_desc = format!("patch(rewind to index {} of {}{}, removing {} records, proof {}, patch = removed records + one new event)", idx, n, if ambiguous { " (a commit that occurs again later)" } else { "" }, n - 1 - idx, if *good { "matching" } else { "wrong" });
                let mut patch: Vec<EventRecord> = s[idx + 1..].to_vec();
                patch.push(x.clone());
                let r = client.patch(PatchRequest { log_type: log_type(it.log, t), commit: Some(CommitHash(s[idx].commit().0)), proof, patch: patch.clone() }).await;
                let ok = matches!(&r, Ok(r) if matches!(r.checked_patch, CheckedPatch::Success(_)));
                response = match r {
                    Ok(r) => Ok(match r.checked_patch { CheckedPatch::Success(_) => "Success".into(), CheckedPatch::Conflict { .. } => "Conflict".into() }),
                    Err(e) => Err(e.to_string()),
                };
                // ambiguous target with a matching proof: either answer,
                // the log must be consistent with it
                expect_success = if *good && ambiguous { ok } else { *good };
                expected_log = if expect_success {
                    let mut e = base.to_vec();
                    e.extend(patch);
                    e
                } else {
                    s.clone()
                };
            }
            Case::RewindDropping { j } => {
                if *j >= n {
                    device.close().await;
                    server.stop().await;
                    return Ok(json!({"skipped": true}));
                }
                let idx = n - 1 - *j;
                let base = &s[..=idx];
                let proof = tree_of(base).head().unwrap();
                request_desc = format!("patch(rewind to index {} of {}, removing {} records that the patch does not carry)", idx, n, n - 1 - idx);
                let r = client.patch(PatchRequest { log_type: log_type(it.log, t), commit: Some(CommitHash(s[idx].commit().0)), proof, patch: vec![x.clone()] }).await;
                let ok = matches!(&r, Ok(r) if matches!(r.checked_patch, CheckedPatch::Success(_)));
                response = match r {
                    Ok(r) => Ok(match r.checked_patch { CheckedPatch::Success(_) => "Success".into(), CheckedPatch::Conflict { .. } => "Conflict".into() }),
                    Err(e) => Err(e.to_string()),
                };
                // either answer is allowed by C07; the log must be consistent with it
                expect_success = ok;
                expected_log = if ok {
                    let mut e = base.to_vec();
                    e.push(x.clone());
                    e
                } else {
                    s.clone()
                };
            }
            Case::RewindAbsent => {
                expect_success = false;
                request_desc = "patch(rewind to an absent commit)".into();
                let r = client.patch(PatchRequest { log_type: log_type(it.log, t), commit: Some(CommitHash(CommitTree::hash(b"absent"))), proof: tree_of(&s).head().unwrap(), patch: vec![x.clone()] }).await;
                response = match r {
                    Ok(r) => Ok(match r.checked_patch { CheckedPatch::Success(_) => "Success".into(), CheckedPatch::Conflict { .. } => "Conflict".into() }),
                    Err(e) => Err(e.to_string()),
                };
                expected_log = s.clone();
            }
            Case::Forced { drop } => {
                let base: Vec<EventRecord> = s[..n - *drop].to_vec();
                let proof = tree_of(&base).head().unwrap();
                let last_commit = Some(CommitHash(base[base.len() - 1].commit().0));
                expect_success = true;
                request_desc = format!("forced update replacing the log by its first n-{} records", drop);
                let mut us = sos_sync::UpdateSet::default();
                match it.log {
                    LogT::Folder => {
                        us.folders.insert(t.default_folder.parse().unwrap(), FolderDiff { patch: Patch::new(base.clone()), checkpoint: proof, last_commit });
                    }
                    LogT::Identity => {
                        us.identity = Some(FolderDiff { patch: Patch::new(base.clone()), checkpoint: proof, last_commit });
                    }
                    LogT::Device => {
                        us.device = Some(sos_core::events::patch::DeviceDiff { patch: Patch::new(base.clone()), checkpoint: proof, last_commit });
                    }
                    _ => return Err(anyhow!("forced update is not driven for this log")),
                }
                response = match client.update_account(us).await {
                    Ok(_) => Ok("Success".into()),
                    Err(e) => Err(e.to_string()),
                };
                expected_log = base;
            }
            Case::SyncDiff { cp } => {
                let proof = mk_proof(cp, &s);
                expect_success = *cp == Cp::Head;
                request_desc = format!("sync(diff with checkpoint={:?})", cp);
                let status = device.status().await?;
                let last_commit = if *cp == Cp::Default { None } else { Some(CommitHash(s[n - 1].commit().0)) };
                let mut diff = SyncDiff::default();
                match it.log {
                    LogT::Folder => {
                        diff.folders.insert(t.default_folder.parse().unwrap(), MaybeDiff::Diff(FolderDiff { patch: Patch::new(vec![x.clone()]), checkpoint: proof, last_commit }));
                    }
                    LogT::Identity => {
                        diff.identity = Some(MaybeDiff::Diff(FolderDiff { patch: Patch::new(vec![x.clone()]), checkpoint: proof, last_commit }));
                    }
                    LogT::Account => {
                        diff.account = Some(MaybeDiff::Diff(sos_core::events::patch::AccountDiff { patch: Patch::new(vec![x.clone()]), checkpoint: proof, last_commit }));
                    }
                    LogT::Device => {
                        diff.device = Some(MaybeDiff::Diff(sos_core::events::patch::DeviceDiff { patch: Patch::new(vec![x.clone()]), checkpoint: proof, last_commit }));
                    }
                    LogT::Files => {
                        diff.files = Some(MaybeDiff::Diff(sos_core::events::patch::FileDiff { patch: Patch::new(vec![x.clone()]), checkpoint: proof, last_commit }));
                    }
                }
                let r = client.sync(SyncPacket { status, diff, compare: None }).await;
                response = match r {
                    Ok(_) => Ok("Answered".into()),
                    Err(e) => Err(e.to_string()),
                };
                let mut e = s.clone();
                if expect_success {
                    e.push(x.clone());
                }
                expected_log = e;
            }
        }
        let after = server_logs(&server, &account_id).await?;
        let got = after.get(&name).cloned().unwrap_or_default();
        let lname = format!("{:?}", it.log).to_lowercase();
        let casek = match &it.case {
            Case::Patch { cp } => format!("patch_{:?}", cp).to_lowercase(),
            Case::Rewind { j, good } => {
                let removed = *j;
                format!("rewind_removing_{}_{}", if removed >= 2 { "several" } else if removed == 1 { "one" } else { "none" }, if *good { "good_proof" } else { "wrong_proof" })
            }
            Case::RewindAbsent => "rewind_absent".into(),
            Case::RewindDropping { .. } => "rewind_dropping_unmerged".into(),
            Case::SyncDiff { cp } => format!("sync_diff_{:?}", cp).to_lowercase(),
            Case::Forced { drop } => format!("forced_update_dropping_{}", drop),
        };
        let same = |a: &[EventRecord], b: &[EventRecord]| -> bool {
            a.len() == b.len() && a.iter().zip(b.iter()).all(|(x, y)| x.commit() == y.commit() && x.time() == y.time() && x.event_bytes() == y.event_bytes())
        };
        let accepted = match &response {
            Ok(r) if r == "Success" => Some(true),
            Ok(r) if r == "Conflict" => Some(false),
            Ok(_) => None, // sync: judged by the log
            Err(_) => Some(false),
        };
        if let Some(acc) = accepted {
            if acc && !expect_success {
                fails.push(json!({"sig": format!("server:{}:accepted_on_wrong_base:{}", casek, lname), "what": format!("the server answered Success to {} although the checkpoint is not the log's head", request_desc)}));
            }
            if !acc && expect_success {
                fails.push(json!({"sig": format!("server:{}:refused_on_agreed_base:{}", casek, lname), "what": format!("the server refused {} although the checkpoint is the log's head ({:?})", request_desc, response)}));
            }
        }
        if !same(&got, &expected_log) {
            let kind = if expect_success {
                "accepted_but_log_wrong"
            } else if got.len() == s.len() && {
                let mut a: Vec<[u8; 32]> = got.iter().map(|r| r.commit().0).collect();
                let mut b: Vec<[u8; 32]> = s.iter().map(|r| r.commit().0).collect();
                a.sort();
                b.sort();
                a == b
            } {
                "refused_but_log_reordered"
            } else {
                "refused_but_log_changed"
            };
            fails.push(json!({"sig": format!("server:{}:{}:{}", casek, kind, lname), "what": format!("after {} the server log has {} records (before: {}), expected {}", request_desc, got.len(), s.len(), expected_log.len())}));
        }
        // every other log untouched by a refused request (an accepted
        // account-log patch is interpreted by the server and may
        // legitimately touch the folders it describes)
        for (k, v) in &before {
            if k != &name && !expect_success {
                let g = after.get(k).cloned().unwrap_or_default();
                if !same(&g, v) {
                    fails.push(json!({"sig": format!("server:{}:other_log_changed:{}", casek, lname), "what": format!("{} changed log {}", request_desc, k)}));
                }
            }
        }
        // a refused request changes nothing - also not the commit trees the
        // server holds in memory: the status it reports is the one before,
        // and an honest patch on the true head is accepted afterwards
        if !expect_success && fails.is_empty() {
            let status_after = status_view(&server.sync_status(&account_id).await?);
            if status_after != status_before {
                fails.push(json!({"sig": format!("server:{}:refused_but_status_changed:{}", casek, lname), "what": format!("after the refused {} the server reports a different sync status (in-memory commit trees changed) although the stored records are the same", request_desc)}));
            }
            let y = mk_event(it.log, t, 101).await;
            let r = client.patch(PatchRequest { log_type: log_type(it.log, t), commit: None, proof: tree_of(&s).head().unwrap(), patch: vec![y.clone()] }).await;
            let ok = matches!(&r, Ok(r) if matches!(r.checked_patch, CheckedPatch::Success(_)));
            let after2 = server_logs(&server, &account_id).await?;
            let got2 = after2.get(&name).cloned().unwrap_or_default();
            let mut want2 = s.clone();
            want2.push(y);
            if !ok || !same(&got2, &want2) {
                fails.push(json!({"sig": format!("server:{}:honest_patch_refused_after_refusal:{}", casek, lname), "what": format!("after the refused {} a patch on the true head of the log is not accepted ({}) or not appended", request_desc, match &r { Ok(_) => "Conflict".to_string(), Err(e) => e.to_string() })}));
            }
        }
        // after an accepted forced update the agreed base is the replaced
        // log, in storage and in the commit tree the server holds in memory
        if matches!(it.case, Case::Forced { .. }) && fails.is_empty() {
            let y = mk_event(it.log, t, 101).await;
            let r = client.patch(PatchRequest { log_type: log_type(it.log, t), commit: None, proof: tree_of(&s).head().unwrap(), patch: vec![y.clone()] }).await;
            if matches!(&r, Ok(r) if matches!(r.checked_patch, CheckedPatch::Success(_))) {
                fails.push(json!({"sig": format!("server:{}:patch_on_replaced_head_accepted:{}", casek, lname), "what": format!("after {} a patch whose checkpoint is the head of the log as it was BEFORE the forced update is accepted", request_desc)}));
            } else {
                let r = client.patch(PatchRequest { log_type: log_type(it.log, t), commit: None, proof: tree_of(&expected_log).head().unwrap(), patch: vec![y.clone()] }).await;
                let ok = matches!(&r, Ok(r) if matches!(r.checked_patch, CheckedPatch::Success(_)));
                let after2 = server_logs(&server, &account_id).await?;
                let got2 = after2.get(&name).cloned().unwrap_or_default();
                let mut want2 = expected_log.clone();
                want2.push(y);
                if !ok || !same(&got2, &want2) {
                    fails.push(json!({"sig": format!("server:{}:honest_patch_refused_after_forced_update:{}", casek, lname), "what": format!("after {} a patch on the head of the replaced log is not accepted ({}) or not appended", request_desc, match &r { Ok(_) => "Conflict".to_string(), Err(e) => e.to_string() })}));
                }
            }
        }
        device.close().await;
        server.stop().await;
        Ok(json!({"request": request_desc, "response": format!("{:?}", response), "expect_success": expect_success, "log_len_before": n, "log_len_after": got.len()}))
    }
    .await;
    let mut v = match res {
        Ok(v) => v,
        Err(e) => json!({"error": e.to_string()}),
    };
    v["fails"] = json!(fails);
    v
}

fn rt() -> tokio::runtime::Runtime {
    tokio::runtime::Builder::new_multi_thread()
        .worker_threads(3)
        .enable_all()
        .build()
        .unwrap()
}

fn main() {
    let args = Args::parse();
    let its = items(args.tier);
    if pool::worker_stage().is_some() {
        let wd = fsutil::WorkDir::new("srvx-w");
        let rt = rt();
        let mut tpl: std::collections::HashMap<bool, std::result::Result<Template, String>> = Default::default();
        pool::worker_loop(|idx| {
            let it = &its[idx];
            let t = tpl.entry(it.server_db).or_insert_with(|| {
                rt.block_on(prepare(&wd.path().join(format!("p{}", it.server_db)), it.server_db)).map_err(|e| e.to_string())
            });
            match t {
                Ok(t) => rt.block_on(run_item(t, it, &wd.path().join("w"))),
                Err(e) => json!({"error": format!("prepare: {}", e), "fails": []}),
            }
        });
    }
    if let Some(path) = &args.replay {
        let v: Value = serde_json::from_slice(&std::fs::read(path).expect("read")).unwrap();
        let it: Item = serde_json::from_value(v["witness"]["item"].clone()).expect("item");
        let want = v["signature"].as_str().unwrap_or("").to_string();
        let rt = rt();
        let mut obs = vec![];
        for round in 0..2 {
            let wd = fsutil::WorkDir::new(&format!("srvx-r{}", round));
            let t = rt.block_on(prepare(&wd.path().join("p"), it.server_db)).expect("prepare");
            let r = rt.block_on(run_item(&t, &it, &wd.path().join("w")));
            let mut sigs: Vec<String> = r["fails"].as_array().unwrap().iter().map(|f| f["sig"].as_str().unwrap().to_string()).collect();
            sigs.sort();
            println!("run {}: {}", round, r);
            obs.push(sigs);
        }
        if obs[0] != obs[1] {
            eprintln!("MACHINERY-ERROR replay is not deterministic");
            std::process::exit(2);
        }
        if obs[0].contains(&want) {
            println!("VIOLATION property=C07 replay={}", path.display());
            std::process::exit(1);
        }
        std::process::exit(0);
    }
    let mut run = Run::new("C07", "model_checking", &args);
    let mut opts = PoolOpts::default();
    opts.item_timeout = std::time::Duration::from_secs(120);
    opts.workers = opts.workers.min(8);
    let res = pool::run_stage("requests", its.len(), &opts);
    let mut samples = vec![];
    let mut accepted = 0u64;
    let mut refused = 0u64;
    let mut skipped = 0u64;
    let mut errors: BTreeMap<String, u64> = BTreeMap::new();
    for (i, r) in res.into_iter().enumerate() {
        match r {
            pool::ItemResult::Crashed(w) => run.machinery(format!("item {:?}: {}", its[i], w)),
            pool::ItemResult::Done(v) => {
                if let Some(e) = v.get("error").and_then(|e| e.as_str()) {
                    *errors.entry(e.chars().take(100).collect()).or_default() += 1;
                    run.machinery(format!("item {:?}: {}", its[i], e));
                    continue;
                }
                if v["skipped"].as_bool() == Some(true) {
                    skipped += 1;
                    continue;
                }
                if v["expect_success"].as_bool() == Some(true) {
                    accepted += 1;
                } else {
                    refused += 1;
                }
                for f in v["fails"].as_array().unwrap() {
                    run.fail(f["sig"].as_str().unwrap(), f["what"].as_str().unwrap(), json!({"engine":"srvx","item": its[i], "observed": v}));
                }
                if i % 13 == 0 {
                    push_sample(&mut samples, json!({"item": its[i], "observed": v}), 6);
                }
            }
        }
    }
    if accepted == 0 || refused == 0 {
        run.machinery("vacuous: no accepted or no refused request");
    }
    let mut cov = Map::new();
    let ran = its.len() as u64 - skipped;
    cov.insert("states".into(), json!(ran));
    cov.insert("transitions".into(), json!(ran));
    cov.insert("traces_validated_against_impl".into(), json!(ran));
    cov.insert("rewind_targets_beyond_the_log_skipped".into(), json!(skipped));
    cov.insert("samples".into(), json!(samples));
    cov.insert("requests_expected_to_be_accepted".into(), json!(accepted));
    cov.insert("requests_expected_to_be_refused".into(), json!(refused));
    cov.insert("exhaustive".into(), json!(true));
    cov.insert("rule".into(), json!(format!("log type in {{folder, account, device, files, identity}} x checkpoint in {{head, stale, diverged, default(init), forged root}} x {{PATCH events, PATCH account sync diff}} + rewind to every index of the log (template records + {} harness events of which the first and the third are byte-identical, so that one commit hash occurs twice) with matching / wrong proof and with a patch that drops the removed records + rewind to an absent commit; each as one signed HTTP request to a fresh copy of the prepared server; after every refused request the status the server reports (its in-memory commit trees) must be unchanged and an honest patch on the true head must be accepted", HIST_LEN)));
    std::process::exit(run.finish(cov));
}
