#!/usr/bin/env bash
# usage: mkwt.sh <name>   -> creates /tmp/wt/<name> (detached worktree of /repo HEAD) with a warm target dir
set -e
N="$1"
git -C /repo worktree add --detach /tmp/wt/$N HEAD >/dev/null 2>&1
mkdir -p /tmp/wt/$N/target
echo /tmp/wt/$N
