#!/usr/bin/env python3
"""K3 crash-image enumerator (file-system backend).

Reads an `strace -f -y -xx` log of the crash driver, extracts the file-system
effects between the BEGIN and END marker syscalls, replays them on an
in-memory copy of the pre-state and materialises one crash image after every
effect, plus torn images for every write (byte prefixes of its payload).

Crash model: process death. Completed syscalls persist in order; a write may
be cut at any byte.

Self-validation: replaying the whole log must reproduce the real after-state
byte for byte, otherwise exit code 3 (machinery error, never a verdict).

usage: crashimg.py TRACE PRE_DIR OUT_DIR LIVE_DIR [--stride N]
  PRE_DIR   pristine copy of the data directory before the driver ran
  LIVE_DIR  the directory the driver operated on (paths in the trace)
"""
import json, os, re, sys, shutil

def unhex(s):
    # strace -xx string: "\x41\x42..." possibly followed by "..."
    out = bytearray()
    i = 0
    while i < len(s):
        if s[i] == '\\' and i + 3 < len(s) + 1 and s[i+1] == 'x':
            out.append(int(s[i+2:i+4], 16)); i += 4
        else:
            out.append(ord(s[i])); i += 1
    return bytes(out)

LINE = re.compile(r'^(?:\[pid\s+(\d+)\]\s+|(\d+)\s+)?(.*)$')
CALL = re.compile(r'^(\w+)\((.*)\)\s+=\s+(-?\d+|\?)(.*)$', re.S)
FD = re.compile(r'^(-?\d+|AT_FDCWD)(?:<(.*?)>)?$')

def split_args(s):
    """split top-level comma separated args, honouring quotes, <> of -y and {}"""
    args, cur, depth, inq, esc, ang = [], '', 0, False, False, 0
    for ch in s:
        if inq:
            cur += ch
            if esc: esc = False
            elif ch == '\\': esc = True
            elif ch == '"': inq = False
            continue
        if ch == '"': inq = True; cur += ch; continue
        if ch in '{[(': depth += 1
        if ch in '}])': depth -= 1
        if ch == '<': ang += 1
        if ch == '>': ang = max(0, ang - 1)
        if ch == ',' and depth == 0 and ang == 0:
            args.append(cur.strip()); cur = ''
        else:
            cur += ch
    if cur.strip(): args.append(cur.strip())
    return args

def qstr(a):
    m = re.match(r'^"(.*)"(\.\.\.)?$', a, re.S)
    return unhex(m.group(1)) if m else None

def parse(trace):
    pending = {}
    calls = []
    for raw in open(trace, errors='replace'):
        raw = raw.rstrip('\n')
        m = LINE.match(raw)
        pid = m.group(1) or m.group(2) or '0'
        rest = m.group(3)
        if rest.endswith('<unfinished ...>'):
            pending[pid] = rest[:-len('<unfinished ...>')].rstrip()
            continue
        r = re.match(r'^<\.\.\. (\w+) resumed>\s*(.*)$', rest)
        if r:
            rest = pending.pop(pid, r.group(1) + '(') + r.group(2)
        c = CALL.match(rest)
        if not c:
            continue
        name, argstr, ret = c.group(1), c.group(2), c.group(3)
        calls.append((name, split_args(argstr), ret))
    return calls

class FS:
    def __init__(self, root):
        self.files = {}
        self.dirs = set()
        for d, ds, fs in os.walk(root):
            rel = os.path.relpath(d, root)
            if rel != '.': self.dirs.add(rel)
            for f in fs:
                p = os.path.normpath(os.path.join(rel, f))
                self.files[p] = bytearray(open(os.path.join(d, f), 'rb').read())
    def dump(self, out):
        os.makedirs(out, exist_ok=True)
        for d in sorted(self.dirs):
            os.makedirs(os.path.join(out, d), exist_ok=True)
        for p, b in self.files.items():
            fp = os.path.join(out, p)
            os.makedirs(os.path.dirname(fp), exist_ok=True)
            with open(fp, 'wb') as f: f.write(b)

def main():
    trace, pre, out, live = sys.argv[1:5]
    stride = 16
    if '--stride' in sys.argv:
        stride = int(sys.argv[sys.argv.index('--stride') + 1])
    live = os.path.realpath(live)
    calls = parse(trace)
    fs = FS(pre)
    ofd = {}     # fd number -> open file description dict (shared on dup)
    def rel(path):
        if path is None: return None
        if isinstance(path, bytes): path = path.decode('utf8', 'replace')
        path = os.path.normpath(path)
        if path == live: return '.'
        if path.startswith(live + os.sep): return path[len(live) + 1:]
        return None
    def fdarg(a):
        m = FD.match(a)
        if not m: return None, None
        n = m.group(1)
        return (None if n == 'AT_FDCWD' else int(n)), m.group(2)
    effects = []   # (label, fn, payload_len or None, torn_fn)
    begun = ended = False
    def eff(label, fn, torn=None):
        effects.append((label, fn, torn))
    for name, a, ret in calls:
        if name == 'access' and a and qstr(a[0]) in (b'/VERIF/BEGIN', b'/VERIF/END'):
            if qstr(a[0]) == b'/VERIF/BEGIN': begun = True
            else: ended = True
            continue
        if ret == '?' or (ret.startswith('-') and name not in ()):
            # failed calls have no effect (but still track nothing)
            if name not in ('openat', 'creat'): continue
            else: continue
        r = int(ret)
        active = begun and not ended
        if name in ('openat', 'creat'):
            if name == 'openat':
                path = qstr(a[1]); flags = a[2] if len(a) > 2 else ''
            else:
                path = qstr(a[0]); flags = 'O_CREAT|O_WRONLY|O_TRUNC'
            rp = rel(path)
            d = {'path': rp, 'pos': 0, 'append': 'O_APPEND' in flags}
            ofd[r] = d
            if rp is None or 'O_DIRECTORY' in flags: continue
            creat, trunc = 'O_CREAT' in flags, 'O_TRUNC' in flags
            def f(fs, rp=rp, creat=creat, trunc=trunc):
                if creat and rp not in fs.files: fs.files[rp] = bytearray()
                if trunc and rp in fs.files: fs.files[rp] = bytearray()
            if creat or trunc:
                if active: eff(f'open({rp},{"creat" if creat else ""}{"|trunc" if trunc else ""})', f)
                else: f(fs)
        elif name in ('dup', 'dup2', 'dup3', 'fcntl'):
            fd, _ = fdarg(a[0])
            if name == 'fcntl' and not (len(a) > 1 and a[1].startswith('F_DUPFD')): continue
            if fd in ofd: ofd[r] = ofd[fd]
        elif name == 'close':
            fd, _ = fdarg(a[0]); ofd.pop(fd, None)
        elif name == 'lseek':
            fd, _ = fdarg(a[0])
            if fd in ofd: ofd[fd]['pos'] = r
        elif name in ('write', 'pwrite64', 'writev', 'pwritev'):
            fd, _ = fdarg(a[0])
            d = ofd.get(fd)
            if d is None or d['path'] is None: continue
            if name in ('writev', 'pwritev'):
                bufs = re.findall(r'iov_base="((?:[^"\\]|\\.)*)"', a[1])
                data = b''.join(unhex(b) for b in bufs)[:r]
            else:
                data = qstr(a[1])[:r]
            rp = d['path']
            off = int(a[3]) if name == 'pwrite64' else None
            def f(fs, d=d, rp=rp, data=data, off=off, n=None, final=True):
                b = fs.files.setdefault(rp, bytearray())
                pos = len(b) if (d['append'] and off is None) else (off if off is not None else d['pos'])
                chunk = data if n is None else data[:n]
                if pos > len(b): b.extend(b'\0' * (pos - len(b)))
                b[pos:pos + len(chunk)] = chunk
                if final and off is None: d['pos'] = pos + len(chunk)
            if active:
                eff(f'write({rp},{len(data)} bytes)', f, (len(data), f))
            else: f(fs)
        elif name in ('ftruncate', 'truncate'):
            if name == 'ftruncate':
                fd, _ = fdarg(a[0]); d = ofd.get(fd); rp = d['path'] if d else None
            else:
                rp = rel(qstr(a[0]))
            if rp is None: continue
            ln = int(a[1])
            def f(fs, rp=rp, ln=ln):
                b = fs.files.setdefault(rp, bytearray())
                if ln < len(b): del b[ln:]
                else: b.extend(b'\0' * (ln - len(b)))
            if active: eff(f'truncate({rp},{ln})', f)
            else: f(fs)
        elif name in ('rename', 'renameat', 'renameat2'):
            if name == 'rename': o, n = qstr(a[0]), qstr(a[1])
            else: o, n = qstr(a[1]), qstr(a[3])
            ro, rn = rel(o), rel(n)
            if ro is None or rn is None: continue
            def f(fs, ro=ro, rn=rn):
                if ro in fs.files: fs.files[rn] = fs.files.pop(ro)
                elif ro in fs.dirs:
                    fs.dirs.discard(ro); fs.dirs.add(rn)
                    for p in list(fs.files):
                        if p.startswith(ro + os.sep): fs.files[rn + p[len(ro):]] = fs.files.pop(p)
                    for p in list(fs.dirs):
                        if p.startswith(ro + os.sep): fs.dirs.discard(p); fs.dirs.add(rn + p[len(ro):])
            if active: eff(f'rename({ro}->{rn})', f)
            else: f(fs)
        elif name in ('unlink', 'unlinkat', 'rmdir'):
            p = qstr(a[0]) if name != 'unlinkat' else qstr(a[1])
            rp = rel(p)
            if rp is None: continue
            def f(fs, rp=rp):
                fs.files.pop(rp, None); fs.dirs.discard(rp)
            if active: eff(f'unlink({rp})', f)
            else: f(fs)
        elif name in ('mkdir', 'mkdirat'):
            p = qstr(a[0]) if name == 'mkdir' else qstr(a[1])
            rp = rel(p)
            if rp is None: continue
            def f(fs, rp=rp): fs.dirs.add(rp)
            if active: eff(f'mkdir({rp})', f)
            else: f(fs)
        elif name in ('copy_file_range', 'sendfile'):
            if name == 'copy_file_range':
                fi, _ = fdarg(a[0]); fo, _ = fdarg(a[2])
            else:
                fo, _ = fdarg(a[0]); fi, _ = fdarg(a[1])
            di, do = ofd.get(fi), ofd.get(fo)
            if not di or not do or do['path'] is None: continue
            n = r
            def f(fs, di=di, do=do, n=n, part=None, final=True):
                src = fs.files.get(di['path'], bytearray()) if di['path'] else bytearray()
                data = bytes(src[di['pos']:di['pos'] + n])
                if part is not None: data = data[:part]
                b = fs.files.setdefault(do['path'], bytearray())
                pos = len(b) if do['append'] else do['pos']
                b[pos:pos + len(data)] = data
                if final: di['pos'] += n; do['pos'] = pos + len(data)
            if active: eff(f'copy({di["path"]}->{do["path"]},{n} bytes)', f, (n, f) if name == 'copy_file_range' else None)
            else: f(fs)
    if not begun or not ended:
        print('markers not found', file=sys.stderr); sys.exit(3)
    # materialise images
    import copy
    manifest = []
    os.makedirs(out, exist_ok=True)
    def snapshot(tag, label, k, torn):
        d = os.path.join(out, tag)
        fs.dump(d)
        manifest.append({'dir': d, 'effect_index': k, 'effect': label, 'torn_bytes': torn})
    snapshot('img-000', 'before the operation', 0, None)
    for k, (label, fn, torn) in enumerate(effects, 1):
        if torn is not None:
            n, tfn = torn
            cuts = set()
            if n <= 4096:
                cuts.update(range(1, n, stride))
            else:
                cuts.update(range(1, 64)); cuts.update(range(n - 64, n)); cuts.update(range(64, n - 64, 512))
            for c in (1, 4, 8, 16, 48, 80, 84, n - 1, n - 4):
                if 0 < c < n: cuts.add(c)
            for c in sorted(cuts):
                saved = {p: bytearray(b) for p, b in fs.files.items()}
                if 'copy(' in label: tfn(fs, part=c, final=False)
                else: tfn(fs, n=c, final=False)
                snapshot(f'img-{k:03d}-t{c:05d}', label, k, c)
                fs.files = saved
        fn(fs)
        snapshot(f'img-{k:03d}', label, k, None)
    # self validation against the real after state
    real = FS(live)
    ok = True
    for p in set(real.files) | set(fs.files):
        if real.files.get(p) != fs.files.get(p):
            print('REPLAY MISMATCH', p, len(real.files.get(p, b'')), len(fs.files.get(p, b'')), file=sys.stderr)
            ok = False
    json.dump({'images': manifest, 'effects': [e[0] for e in effects], 'replay_matches_real_after_state': ok}, open(os.path.join(out, 'manifest.json'), 'w'))
    sys.exit(0 if ok else 3)

main()
