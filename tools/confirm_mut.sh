#!/usr/bin/env bash
# usage: confirm_mut.sh <worktree> <seeded-id> <cargo test args for the demo...>
# Confirms a seeded change in its scratch worktree: demo passes without the change, fails with it,
# and the full suite with the change gives the baseline result. Writes /verif/seeded/<id>/confirm.log
WT="$1"; ID="$2"; shift 2
OUT=/verif/seeded/$ID/confirm.log
export CARGO_PROFILE_DEV_DEBUG=0 CARGO_PROFILE_TEST_DEBUG=0 CARGO_NET_OFFLINE=true
. /w/out/rust_env.sh 2>/dev/null
cd "$WT" || exit 2
{
git checkout -- . ; git clean -fdq -e MUTATION -e target
echo "== demo WITHOUT the change (expect pass)"
git apply MUTATION/demo.diff || echo "demo.diff does not apply"
cargo test -j 8 --offline "$@" 2>&1 | grep -E "^test |test result|panicked|error" | head -20
echo "== demo WITH the change (expect fail)"
git apply MUTATION/patch.diff || echo "patch.diff does not apply"
cargo test -j 8 --offline "$@" 2>&1 | grep -E "^test |test result|panicked|error" | head -20
echo "== full suite WITH the change, without the demo (expect 283 passed, 3 failed)"
git apply -R MUTATION/demo.diff
cargo nextest run --workspace --no-fail-fast --tool-config-file pb:/w/lib/nextest.toml --profile pb --test-threads 8 --offline 2>&1 | grep -E "Summary|FAIL|TIMEOUT" | sort -u | tee /tmp/confirm-$ID.fails | head -20
# tests other than the 3 baseline failures that failed or timed out (machine load): re-run each alone
for t in $(grep -E "FAIL|TIMEOUT" /tmp/confirm-$ID.fails | grep -v -E "command_line|not_authenticated_" | awk '{print $NF}' | sort -u); do
  echo "== re-run alone: $t"
  cargo nextest run --workspace --no-fail-fast --tool-config-file pb:/w/lib/nextest.toml --profile pb --offline -E "test(=$t)" 2>&1 | grep -E "Summary|FAIL|TIMEOUT" | sort -u | head -5
done
rm -f /tmp/confirm-$ID.fails
git checkout -- . ; git clean -fdq -e MUTATION -e target
echo "== done"
} > "$OUT" 2>&1
