//! Account helpers: create / re-open a real `LocalAccount` on a data
//! directory with either backend, and take deep observable snapshots
//! (AccountView) through the public API only.
use crate::gen::{meta_view, secret_view};
use anyhow::{anyhow, Result};
use secrecy::SecretString;
use serde::{Deserialize, Serialize};
use serde_json::{json, Value};
use sos_account::{Account, LocalAccount};
use sos_backend::BackendTarget;
use sos_core::{crypto::AccessKey, AccountId, Paths, SecretId, VaultId};
use sos_login::DelegatedAccess;
use sos_vault::{SecretAccess, Summary, Vault};
use std::path::{Path, PathBuf};

#[derive(Clone, Copy, Debug, PartialEq, Eq, Serialize, Deserialize, Hash)]
pub enum Backend {
    Fs,
    Db,
}

impl Backend {
    pub fn name(&self) -> &'static str {
        match self {
            Backend::Fs => "fs",
            Backend::Db => "sqlite",
        }
    }
}

pub const PASSWORD: &str = "verif-harness-password-1-correct-horse";
pub const PASSWORD2: &str = "verif-harness-password-2-battery-staple";

pub fn password() -> SecretString {
    SecretString::new(PASSWORD.to_string().into())
}

pub async fn target_for(dir: &Path, backend: Backend) -> Result<BackendTarget> {
    std::fs::create_dir_all(dir)?;
    let paths = Paths::new_client(dir);
    Ok(match backend {
        Backend::Fs => {
            Paths::scaffold(paths.documents_dir()).await?;
            BackendTarget::FileSystem(paths)
        }
        Backend::Db => {
            let mut client =
                sos_database::open_file(paths.database_file()).await?;
            sos_database::migrations::migrate_client(&mut client).await?;
            BackendTarget::Database(paths, client)
        }
    })
}

/// Close the database client of a target (checkpointing the WAL) so the
/// data directory can be copied at rest.
pub async fn close_target(target: &BackendTarget) {
    if let BackendTarget::Database(_, client) = target {
        let _ = client
            .conn(|c| {
                let _ = c.pragma_update(None, "wal_checkpoint", "TRUNCATE");
                Ok(())
            })
            .await;
        let _ = client.clone().close().await;
    }
}

pub struct Dev {
    pub dir: PathBuf,
    pub backend: Backend,
    pub account: LocalAccount,
    pub account_id: AccountId,
    pub password: SecretString,
    pub target: BackendTarget,
}

impl Dev {
    pub fn key(&self) -> AccessKey {
        self.password.clone().into()
    }

    /// Create a fresh account (default + archive folders) and sign in.
    pub async fn create(
        dir: &Path,
        backend: Backend,
        name: &str,
        with_archive: bool,
    ) -> Result<Dev> {
        let target = target_for(dir, backend).await?;
        let pw = password();
        let mut account = LocalAccount::new_account_with_builder(
            name.to_string(),
            pw.clone(),
            target.clone(),
            move |b| {
                b.create_file_password(true).create_archive(with_archive)
            },
        )
        .await?;
        let key: AccessKey = pw.clone().into();
        account.sign_in(&key).await?;
        let account_id = *account.account_id();
        let target = target.with_account_id(&account_id);
        Ok(Dev {
            dir: dir.to_path_buf(),
            backend,
            account,
            account_id,
            password: pw,
            target,
        })
    }

    /// Fresh `new_unauthenticated + sign_in` on an existing data dir.
    pub async fn open(
        dir: &Path,
        backend: Backend,
        account_id: AccountId,
        password: SecretString,
    ) -> Result<Dev> {
        let target =
            target_for(dir, backend).await?.with_account_id(&account_id);
        let mut account =
            LocalAccount::new_unauthenticated(account_id, target.clone())
                .await?;
        let key: AccessKey = password.clone().into();
        account.sign_in(&key).await?;
        Ok(Dev {
            dir: dir.to_path_buf(),
            backend,
            account,
            account_id,
            password,
            target,
        })
    }

    /// Sign out and release storage handles so the dir can be copied.
    pub async fn close(mut self) {
        let _ = self.account.sign_out().await;
        close_target(&self.target).await;
    }

    pub async fn folder_key(&self, id: &VaultId) -> Result<AccessKey> {
        self.account
            .find_folder_password(id)
            .await?
            .ok_or_else(|| anyhow!("no folder password for {}", id))
    }
}

/// Observable snapshot of one folder.
#[derive(Clone, Debug, Serialize, Deserialize, PartialEq)]
pub struct FolderView {
    pub id: String,
    pub name: String,
    pub flags: u64,
    pub description: Option<String>,
    /// (secret id, meta projection, secret projection) in listing order
    pub secrets: Vec<(String, Value, Value)>,
}

#[derive(Clone, Debug, Serialize, Deserialize, PartialEq)]
pub struct AccountView {
    pub folders: Vec<FolderView>,
}

impl AccountView {
    pub fn folder(&self, id: &str) -> Option<&FolderView> {
        self.folders.iter().find(|f| f.id == id)
    }
}

/// Take the view through the Account API (list_folders, list_secret_ids,
/// read_secret, folder_description).
pub async fn account_view(
    account: &mut LocalAccount,
    with_description: bool,
) -> Result<AccountView> {
    let mut folders = vec![];
    let summaries: Vec<Summary> = account.list_folders().await?;
    for s in summaries {
        let ids = account.list_secret_ids(s.id()).await?;
        let mut secrets = vec![];
        for id in ids {
            let (row, _) = account.read_secret(&id, Some(s.id())).await?;
            if row.id() != &id {
                return Err(anyhow!(
                    "read_secret returned a row with another id"
                ));
            }
            secrets.push((
                id.to_string(),
                meta_view(row.meta()),
                secret_view(row.secret()),
            ));
        }
        let description = if with_description {
            Some(account.folder_description(s.id()).await?)
        } else {
            None
        };
        folders.push(FolderView {
            id: s.id().to_string(),
            name: s.name().to_string(),
            flags: s.flags().bits(),
            description,
            secrets,
        });
    }
    folders.sort_by(|a, b| a.id.cmp(&b.id));
    Ok(AccountView { folders })
}

/// Cache of derived private keys: one key derivation per
/// (password, salt, seed, kdf) instead of one per projection.
#[derive(Default)]
pub struct KeyCache(std::collections::HashMap<String, sos_core::crypto::PrivateKey>);

impl KeyCache {
    fn derive(
        &mut self,
        vault: &Vault,
        key: &AccessKey,
    ) -> Result<&sos_core::crypto::PrivateKey> {
        use secrecy::ExposeSecret;
        use sos_core::crypto::{KeyDerivation, PrivateKey};
        let salt = vault
            .salt()
            .ok_or_else(|| anyhow!("vault not initialised"))?
            .clone();
        let id = match key {
            AccessKey::Password(p) => format!(
                "{}|{}|{:?}|{:?}",
                crate::fsutil::sha256_hex(p.expose_secret().as_bytes()),
                salt,
                vault.seed().map(|s| s.as_ref().to_vec()),
                vault.kdf()
            ),
            AccessKey::Identity(_) => {
                return Err(anyhow!("identity keys not supported"))
            }
        };
        if !self.0.contains_key(&id) {
            let AccessKey::Password(p) = key else { unreachable!() };
            let parsed = KeyDerivation::parse_salt(&salt)?;
            let pk = PrivateKey::Symmetric(vault.deriver().derive(
                p,
                &parsed,
                vault.seed(),
            )?);
            self.0.insert(id.clone(), pk);
        }
        Ok(self.0.get(&id).unwrap())
    }
}

/// Decrypt every secret of a vault with the given key:
/// (name, flags, description, id -> (meta, secret)).
pub async fn vault_view_cached(
    vault: &Vault,
    key: &AccessKey,
    cache: &mut KeyCache,
) -> Result<FolderView> {
    use sos_vault::{secret::{Secret, SecretMeta}, VaultMeta};
    let pk = cache.derive(vault, key)?;
    let meta_aead = vault
        .header()
        .meta()
        .ok_or_else(|| anyhow!("vault has no meta"))?;
    let meta_blob = vault
        .decrypt(pk, meta_aead)
        .await
        .map_err(|e| anyhow!("vault meta does not decrypt: {}", e))?;
    let meta: VaultMeta = sos_core::decode(&meta_blob).await?;
    let mut secrets = vec![];
    for (sid, commit) in vault.iter() {
        let sos_core::VaultCommit(_, sos_core::VaultEntry(m, s)) = commit;
        let mb = vault
            .decrypt(pk, m)
            .await
            .map_err(|e| anyhow!("secret meta of {} does not decrypt: {}", sid, e))?;
        let sb = vault
            .decrypt(pk, s)
            .await
            .map_err(|e| anyhow!("secret value of {} does not decrypt: {}", sid, e))?;
        let sm: SecretMeta = sos_core::decode(&mb).await?;
        let sv: Secret = sos_core::decode(&sb).await?;
        secrets.push((sid.to_string(), meta_view(&sm), secret_view(&sv)));
    }
    Ok(FolderView {
        id: vault.id().to_string(),
        name: vault.name().to_string(),
        flags: vault.flags().bits(),
        description: Some(meta.description().to_string()),
        secrets,
    })
}

/// Same through a real in-memory access point (unlock + read_secret).
pub async fn vault_view(vault: Vault, key: &AccessKey) -> Result<FolderView> {
    let id = vault.id().to_string();
    let name = vault.name().to_string();
    let flags = vault.flags().bits();
    let ids: Vec<SecretId> = vault.keys().copied().collect();
    let mut ap = sos_vault::AccessPoint::<sos_vault::Error>::new(vault);
    let meta = ap.unlock(key).await?;
    let mut secrets = vec![];
    for sid in ids {
        let (m, s, _) = ap
            .read_secret(&sid)
            .await?
            .ok_or_else(|| anyhow!("vault lists {} but cannot read it", sid))?;
        secrets.push((sid.to_string(), meta_view(&m), secret_view(&s)));
    }
    Ok(FolderView {
        id,
        name,
        flags,
        description: Some(meta.description().to_string()),
        secrets,
    })
}

/// Order-insensitive comparison key of a folder view.
pub fn folder_key_sorted(f: &FolderView) -> Value {
    let mut s = f.secrets.clone();
    s.sort_by(|a, b| a.0.cmp(&b.0));
    json!({"id": f.id, "name": f.name, "flags": f.flags, "description": f.description, "secrets": s})
}

/// Independent reference reducer over decoded folder events
/// (specification: the creation event fixes the header; last name /
/// flags / meta wins; create and update insert, delete removes).
pub async fn reference_reduce(
    events: &[sos_core::events::WriteEvent],
) -> Result<Vault> {
    use sos_core::events::WriteEvent;
    let mut it = events.iter();
    let mut vault: Vault = match it.next() {
        Some(WriteEvent::CreateVault(b)) => sos_core::decode(b).await?,
        _ => return Err(anyhow!("log does not start with CreateVault")),
    };
    let mut entries: Vec<(SecretId, sos_core::VaultCommit)> = vec![];
    for e in it {
        match e {
            WriteEvent::SetVaultName(n) => vault.set_name(n.clone()),
            WriteEvent::SetVaultFlags(f) => *vault.flags_mut() = f.clone(),
            WriteEvent::SetVaultMeta(m) => {
                vault.header_mut().set_meta(Some(m.clone()))
            }
            WriteEvent::CreateSecret(id, c)
            | WriteEvent::UpdateSecret(id, c) => {
                if let Some(x) = entries.iter_mut().find(|x| x.0 == *id) {
                    x.1 = c.clone();
                } else {
                    entries.push((*id, c.clone()));
                }
            }
            WriteEvent::DeleteSecret(id) => entries.retain(|x| x.0 != *id),
            _ => {}
        }
    }
    for (id, c) in entries {
        vault.insert_entry(id, c);
    }
    Ok(vault)
}
