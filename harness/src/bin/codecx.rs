//! C14 — every stored and transmitted type survives encode/decode.
//!
//! Structure enumerator (vkit::vals) over the binary format
//! (sos_core::encode / decode), the protobuf wire format
//! (sos_protocol::WireEncodeDecode) and the database row conversions.
//! Oracle per value x:
//!   * encode(x) succeeds and encode(x) twice is byte-identical
//!   * decode(encode(x)) succeeds and deep-equals x under the harness'
//!     own projection (vals::Proj: every field; sets/maps sorted)
//!   * for types whose bytes are hashed into commits
//!     encode(decode(encode(x))) == encode(x)
//! One pool item per type.
use binary_stream::futures::{Decodable, Encodable};
use futures::FutureExt;
use serde_json::{json, Map, Value};
use sha2::{Digest, Sha256};
use sos_core::{decode, encode};
use sos_protocol::WireEncodeDecode;
use std::collections::{BTreeMap, HashSet};
use std::panic::AssertUnwindSafe;
use vkit::pool::{self, PoolOpts};
use vkit::run::{push_sample, Args, Run, Tier};
use vkit::vals::{self, Case, Proj};

struct Acc {
    ty: String,
    format: &'static str,
    cases: u64,
    evals: u64,
    distinct: HashSet<[u8; 32]>,
    fails: BTreeMap<String, (u64, String, Value)>,
    samples: Vec<Value>,
    only: Option<String>,
}

impl Acc {
    fn new(ty: &str, format: &'static str, only: Option<String>) -> Acc {
        Acc {
            ty: ty.to_string(),
            format,
            cases: 0,
            evals: 0,
            distinct: HashSet::new(),
            fails: BTreeMap::new(),
            samples: vec![],
            only,
        }
    }
    fn fail(&mut self, clause: &str, what: String, witness: Value) {
        let sig = format!("{}:{}", self.ty, clause);
        let e = self.fails.entry(sig).or_insert((0, what, witness));
        e.0 += 1;
    }
    fn skip(&self, label: &str) -> bool {
        matches!(&self.only, Some(o) if o != label)
    }
    fn to_json(&self) -> Value {
        json!({
            "type": self.ty, "format": self.format, "cases": self.cases, "evals": self.evals,
            "distinct": self.distinct.len(),
            "fails": self.fails.iter().map(|(k, v)| json!({"sig": k, "count": v.0, "what": v.1, "witness": v.2})).collect::<Vec<_>>(),
            "samples": self.samples,
        })
    }
}

fn short_hex(b: &[u8]) -> Value {
    if b.len() <= 512 {
        json!(hex::encode(b))
    } else {
        json!(format!("{}... ({} bytes)", hex::encode(&b[..64]), b.len()))
    }
}

fn clip(v: &Value) -> Value {
    let s = v.to_string();
    if s.len() <= 3000 {
        v.clone()
    } else {
        let mut end = 3000;
        while !s.is_char_boundary(end) {
            end -= 1;
        }
        json!(format!("{}... ({} chars)", &s[..end], s.len()))
    }
}

/// First differing path between two JSON values (array indices removed
/// for the signature, kept for the witness).
fn first_diff(a: &Value, b: &Value, path: &mut Vec<String>) -> Option<(String, String, Value, Value)> {
    match (a, b) {
        (Value::Object(x), Value::Object(y)) => {
            let mut keys: Vec<&String> = x.keys().chain(y.keys()).collect();
            keys.sort();
            keys.dedup();
            for k in keys {
                path.push(k.clone());
                let r = first_diff(x.get(k).unwrap_or(&Value::Null), y.get(k).unwrap_or(&Value::Null), path);
                path.pop();
                if r.is_some() {
                    return r;
                }
            }
            None
        }
        (Value::Array(x), Value::Array(y)) => {
            if x.len() != y.len() {
                let p = path.join(".");
                return Some((norm_path(&p), format!("{}(len)", p), json!(x.len()), json!(y.len())));
            }
            for (i, (p, q)) in x.iter().zip(y.iter()).enumerate() {
                path.push(format!("[{}]", i));
                let r = first_diff(p, q, path);
                path.pop();
                if r.is_some() {
                    return r;
                }
            }
            None
        }
        (x, y) if x == y => None,
        (x, y) => {
            let p = path.join(".");
            Some((norm_path(&p), p, x.clone(), y.clone()))
        }
    }
}

fn norm_path(p: &str) -> String {
    let mut out = String::new();
    let mut skip = false;
    for ch in p.chars() {
        match ch {
            '[' => skip = true,
            ']' => skip = false,
            _ if skip => {}
            c => out.push(c),
        }
    }
    let out = out.replace("..", ".").trim_matches('.').to_string();
    // uuid keyed maps: replace keys that look like uuids
    out.split('.')
        .map(|seg| if seg.len() == 36 && seg.matches('-').count() == 4 { "<id>" } else { seg })
        .collect::<Vec<_>>()
        .join(".")
        .replace("Some.", "")
        .replace(".Some", "")
        .replace(".unix_nanos", "")
}

fn panic_msg(p: Box<dyn std::any::Any + Send>) -> String {
    if let Some(s) = p.downcast_ref::<&str>() {
        s.to_string()
    } else if let Some(s) = p.downcast_ref::<String>() {
        s.clone()
    } else {
        "panic".to_string()
    }
}

fn norm_msg(m: &str) -> String {
    let mut out = String::new();
    let mut last_digit = false;
    for ch in m.chars().take(90) {
        if ch.is_ascii_digit() {
            if !last_digit {
                out.push('N');
            }
            last_digit = true;
        } else {
            last_digit = false;
            out.push(if ch.is_ascii_alphanumeric() || ch == '_' { ch } else { '_' });
        }
    }
    out
}

/// Binary format.
async fn bin<T>(acc: &mut Acc, hashed: bool, cases: Vec<Case<T>>)
where
    T: Encodable + Decodable + Default + Proj,
{
    for case in cases {
        if acc.skip(&case.label) {
            continue;
        }
        acc.cases += 1;
        let x = &case.value;
        let want = x.proj();
        let ty = acc.ty.clone();
        let wit = |extra: Value| json!({"engine": "codecx", "format": "binary", "type": ty, "case": case.label, "value": clip(&want), "detail": extra});
        acc.evals += 1;
        let e1 = match AssertUnwindSafe(encode(x)).catch_unwind().await {
            Ok(Ok(b)) => b,
            Ok(Err(e)) => {
                acc.fail("encode_error", format!("encode fails: {}", e), wit(json!({"error": e.to_string()})));
                continue;
            }
            Err(p) => {
                let m = panic_msg(p);
                acc.fail(&format!("encode_panic:{}", norm_msg(&m)), format!("encode panics: {}", m), wit(json!({"panic": m})));
                continue;
            }
        };
        acc.distinct.insert(Sha256::digest(&e1).into());
        if acc.samples.len() < 2 && e1.len() > 8 {
            acc.samples.push(json!({"type": acc.ty, "case": case.label, "encoding": short_hex(&e1), "value": clip(&want)}));
        }
        acc.evals += 1;
        match encode(x).await {
            Ok(e2) if e2 == e1 => {}
            Ok(e2) => acc.fail("encode_nondeterministic", "encoding the same value twice gives different bytes".into(), wit(json!({"first": short_hex(&e1), "second": short_hex(&e2)}))),
            Err(e) => acc.fail("encode_error", format!("second encode fails: {}", e), wit(json!({}))),
        }
        acc.evals += 1;
        let y: T = match AssertUnwindSafe(decode::<T>(&e1)).catch_unwind().await {
            Ok(Ok(y)) => y,
            Ok(Err(e)) => {
                acc.fail(&format!("decode_error:{}", norm_msg(&e.to_string())), format!("decode(encode(x)) fails: {}", e), wit(json!({"error": e.to_string(), "encoding": short_hex(&e1)})));
                continue;
            }
            Err(p) => {
                let m = panic_msg(p);
                acc.fail(&format!("decode_panic:{}", norm_msg(&m)), format!("decode(encode(x)) panics: {}", m), wit(json!({"panic": m, "encoding": short_hex(&e1)})));
                continue;
            }
        };
        let got = y.proj();
        if let Some((np, p, a, b)) = first_diff(&want, &got, &mut vec![]) {
            acc.fail(
                &format!("roundtrip_mismatch:{}", np),
                format!("decode(encode(x)) differs from x at {}", np),
                wit(json!({"path": p, "expected": clip(&a), "decoded": clip(&b), "encoding": short_hex(&e1)})),
            );
        }
        if hashed {
            acc.evals += 1;
            match encode(&y).await {
                Ok(e3) if e3 == e1 => {}
                Ok(e3) => acc.fail("reencode_differs", "encode(decode(encode(x))) != encode(x) for a type whose bytes are hashed".into(), wit(json!({"first": short_hex(&e1), "reencoded": short_hex(&e3)}))),
                Err(e) => acc.fail("reencode_error", format!("re-encoding the decoded value fails: {}", e), wit(json!({}))),
            }
        }
    }
}

/// Wire format: the encoder consumes its value, so the generator is
/// called three times (reference, first encoding, second encoding).
async fn wire<T>(acc: &mut Acc, unordered_maps: bool, gen: impl Fn() -> Vec<Case<T>>)
where
    T: WireEncodeDecode + Proj + Send + 'static,
{
    let refs = gen();
    let firsts = gen();
    let seconds = gen();
    for ((r, a), b) in refs.into_iter().zip(firsts).zip(seconds) {
        if acc.skip(&r.label) {
            continue;
        }
        acc.cases += 1;
        let want = r.value.proj();
        let ty = acc.ty.clone();
        let label = r.label.clone();
        let wv = want.clone();
        let wit = move |extra: Value| json!({"engine": "codecx", "format": "wire", "type": ty, "case": label, "value": clip(&wv), "detail": extra});
        if a.value.proj() != want || b.value.proj() != want {
            acc.fail("harness_generator_nondeterministic", "generator is not deterministic".into(), wit(json!({})));
            continue;
        }
        acc.evals += 1;
        let e1 = match a.value.encode().await {
            Ok(b) => b,
            Err(e) => {
                acc.fail(&format!("encode_error:{}", norm_msg(&e.to_string())), format!("wire encode fails: {}", e), wit(json!({"error": e.to_string()})));
                continue;
            }
        };
        acc.distinct.insert(Sha256::digest(&e1).into());
        if acc.samples.len() < 2 && e1.len() > 8 {
            acc.samples.push(json!({"type": acc.ty, "case": r.label, "encoding": short_hex(&e1), "value": clip(&want)}));
        }
        acc.evals += 1;
        match b.value.encode().await {
            Ok(e2) if e2 == e1 || unordered_maps => {
                let _ = e2;
            }
            Ok(e2) => acc.fail("encode_nondeterministic", "encoding equal values gives different bytes".into(), wit(json!({"first": short_hex(&e1), "second": short_hex(&e2)}))),
            Err(e) => acc.fail("encode_error", format!("second encode fails: {}", e), wit(json!({}))),
        }
        acc.evals += 1;
        let buf = prost::bytes::Bytes::from(e1.clone());
        let y = match T::decode(buf).await {
            Ok(y) => y,
            Err(e) => {
                acc.fail(&format!("decode_error:{}", norm_msg(&e.to_string())), format!("wire decode(encode(x)) fails: {}", e), wit(json!({"error": e.to_string(), "encoding": short_hex(&e1)})));
                continue;
            }
        };
        let got = y.proj();
        if let Some((np, p, a, b)) = first_diff(&want, &got, &mut vec![]) {
            acc.fail(
                &format!("roundtrip_mismatch:{}", np),
                format!("wire decode(encode(x)) differs from x at {}", np),
                wit(json!({"path": p, "expected": clip(&a), "decoded": clip(&b), "encoding": short_hex(&e1)})),
            );
        }
    }
}

/// Database row conversions.
async fn db_event_rows(acc: &mut Acc) {
    use sos_database::entity::EventRecordRow;
    let mut cases = vec![];
    for tc in vals::times_rfc3339() {
        for len in [0usize, 1, 300] {
            for commit in [vals::hash(1), sos_core::commit::CommitHash([0; 32])] {
                cases.push((
                    format!("{}_len{}_commit{}", tc.label, len, commit.0[0]),
                    sos_core::events::EventRecord::new(tc.value.clone(), vals::hash(9), commit, vals::blob(len, 5)),
                ));
            }
        }
    }
    for (label, rec) in cases {
        if acc.skip(&label) {
            continue;
        }
        acc.cases += 1;
        acc.evals += 1;
        let want = rec.proj();
        let wit = |extra: Value| json!({"engine": "codecx", "format": "database_row", "type": "EventRecordRow", "case": label, "value": want, "detail": extra});
        let row = match EventRecordRow::new(&rec) {
            Ok(r) => r,
            Err(e) => {
                acc.fail("to_row_error", format!("EventRecordRow::new fails: {}", e), wit(json!({"error": e.to_string()})));
                continue;
            }
        };
        let dbg = format!("{:?}", row);
        acc.distinct.insert(Sha256::digest(dbg.as_bytes()).into());
        if acc.samples.len() < 2 {
            acc.samples.push(json!({"type": "EventRecordRow", "case": label, "row": dbg, "value": want}));
        }
        let back: sos_core::events::EventRecord = match row.try_into() {
            Ok(b) => b,
            Err(e) => {
                let e: sos_database::Error = e;
                acc.fail("from_row_error", format!("EventRecord::try_from(row) fails: {}", e), wit(json!({"error": e.to_string(), "row": dbg})));
                continue;
            }
        };
        // the row does not carry last_commit (the database keeps order
        // by row id): time, commit and bytes must survive
        let mut w = want.clone();
        let mut g = back.proj();
        w.as_object_mut().unwrap().remove("last_commit");
        g.as_object_mut().unwrap().remove("last_commit");
        if let Some((np, p, a, b)) = first_diff(&w, &g, &mut vec![]) {
            acc.fail(&format!("roundtrip_mismatch:{}", np), format!("EventRecord -> row -> EventRecord differs at {}", np), wit(json!({"path": p, "expected": a, "got": b, "row": dbg})));
        }
    }
}

async fn db_folder_rows(acc: &mut Acc) {
    use sos_database::entity::{FolderRecord, FolderRow};
    for case in vals::vaults() {
        if acc.skip(&case.label) {
            continue;
        }
        acc.cases += 1;
        acc.evals += 1;
        let v = &case.value;
        let want = vals::header_proj(v.header(), v.shared_access());
        let wit = |extra: Value| json!({"engine": "codecx", "format": "database_row", "type": "FolderRow", "case": case.label, "value": clip(&want), "detail": extra});
        let row = match FolderRow::new_insert(v).await {
            Ok(r) => r,
            Err(e) => {
                acc.fail("to_row_error", format!("FolderRow::new_insert fails: {}", e), wit(json!({"error": e.to_string()})));
                continue;
            }
        };
        acc.distinct.insert(Sha256::digest(format!("{:?}", row).as_bytes()).into());
        let rec = match FolderRecord::from_row(row).await {
            Ok(r) => r,
            Err(e) => {
                acc.fail(&format!("from_row_error:{}", norm_msg(&e.to_string())), format!("FolderRecord::from_row fails: {}", e), wit(json!({"error": e.to_string()})));
                continue;
            }
        };
        let back = match rec.into_vault() {
            Ok(b) => b,
            Err(e) => {
                acc.fail("into_vault_error", format!("FolderRecord::into_vault fails: {}", e), wit(json!({"error": e.to_string()})));
                continue;
            }
        };
        let mut got = vals::header_proj(back.header(), back.shared_access());
        // The folders table has no column for the shared-access list (an
        // unused feature of the vault header): the property speaks about
        // the binary and wire formats, so that field is not compared for
        // database rows (said in DESIGN.md).
        let mut want = want.clone();
        if let (Some(w), Some(g)) = (want.as_object_mut(), got.as_object_mut()) {
            w.remove("shared_access");
            g.remove("shared_access");
        }
        if let Some((np, p, a, b)) = first_diff(&want, &got, &mut vec![]) {
            let np = np.split('.').next().unwrap_or("").to_string();
            acc.fail(&format!("roundtrip_mismatch:{}", np), format!("Vault header -> FolderRow -> FolderRecord -> Vault differs at {}", np), wit(json!({"path": p, "expected": clip(&a), "got": clip(&b)})));
        }
    }
}

/// Vault header through the real `folders` table (in-memory SQLite with the
/// repository's migrations): the insert path (`new_insert` +
/// `insert_folder`) and the update path (`new_update` + `update_folder` over
/// a row that was inserted from a plain vault with the same identifier),
/// each read back with `find_one` and converted to a vault again.
async fn db_folder_sql(acc: &mut Acc) {
    use sos_database::entity::{AccountEntity, AccountRow, FolderEntity, FolderRecord, FolderRow};
    let client = match sos_database::open_memory().await {
        Ok(c) => c,
        Err(e) => {
            acc.fail("open_memory_error", format!("open_memory fails: {}", e), json!({"error": e.to_string()}));
            return;
        }
    };
    let account_row = AccountRow::new_insert(&sos_core::AccountId::random(), "codecx".to_owned()).unwrap();
    let account_id: i64 = client
        .conn_mut(move |conn| {
            let account = AccountEntity::new(&conn);
            Ok(account.insert(&account_row)?)
        })
        .await
        .unwrap();
    for (i, case) in vals::vaults().into_iter().enumerate() {
        for path in ["insert", "update"] {
            let label = format!("{}:{}", path, case.label);
            if acc.skip(&label) {
                continue;
            }
            acc.cases += 1;
            acc.evals += 1;
            // every case gets its own folder identifier (the table has a
            // unique index on it)
            let mut v = case.value.clone();
            let fid = sos_core::VaultId::from_u128(0x5eed_0000_0000_0000_0000_0000_0000_0000 + (i as u128) * 2 + if path == "insert" { 1 } else { 2 });
            *v.header_mut().id_mut() = fid;
            let want = vals::header_proj(v.header(), v.shared_access());
            let wit = |extra: Value| json!({"engine": "codecx", "format": "database_sql", "type": "FolderRow(sql)", "case": label, "value": clip(&want), "detail": extra});
            let row = if path == "insert" { FolderRow::new_insert(&v).await } else { FolderRow::new_update(&v).await };
            let row = match row {
                Ok(r) => r,
                Err(e) => {
                    acc.fail("to_row_error", format!("FolderRow::new_{} fails: {}", path, e), wit(json!({"error": e.to_string()})));
                    continue;
                }
            };
            acc.distinct.insert(Sha256::digest(format!("{}{:?}", path, row).as_bytes()).into());
            let plain = if path == "update" {
                let mut p = sos_vault::Vault::default();
                *p.header_mut().id_mut() = fid;
                Some(FolderRow::new_insert(&p).await.unwrap())
            } else {
                None
            };
            let res: Result<FolderRow, sos_database::Error> = client
                .conn_mut(move |conn| {
                    let folder = FolderEntity::new(&conn);
                    if let Some(plain) = plain {
                        folder.insert_folder(account_id, &plain)?;
                        folder.update_folder(&fid, &row)?;
                    } else {
                        folder.insert_folder(account_id, &row)?;
                    }
                    Ok(folder.find_one(&fid)?)
                })
                .await
                .map_err(Into::into);
            let stored = match res {
                Ok(r) => r,
                Err(e) => {
                    acc.fail(&format!("sql_error:{}", path), format!("folders table {} fails: {}", path, e), wit(json!({"error": e.to_string()})));
                    continue;
                }
            };
            let back = match FolderRecord::from_row(stored).await.and_then(|r| r.into_vault()) {
                Ok(b) => b,
                Err(e) => {
                    acc.fail(&format!("from_row_error:{}", norm_msg(&e.to_string())), format!("reading the stored folder row back fails: {}", e), wit(json!({"error": e.to_string()})));
                    continue;
                }
            };
            let mut got = vals::header_proj(back.header(), back.shared_access());
            let mut want = want.clone();
            if let (Some(w), Some(g)) = (want.as_object_mut(), got.as_object_mut()) {
                // no column for the shared-access list (see db_folder_rows)
                w.remove("shared_access");
                g.remove("shared_access");
            }
            if let Some((np, p, a, b)) = first_diff(&want, &got, &mut vec![]) {
                let np = np.split('.').next().unwrap_or("").to_string();
                acc.fail(&format!("roundtrip_mismatch:{}:{}", path, np), format!("Vault header -> folders table ({}) -> Vault differs at {}", path, np), wit(json!({"path": p, "expected": clip(&a), "got": clip(&b)})));
            }
        }
    }
}

async fn db_secret_rows(acc: &mut Acc) {
    use sos_database::entity::{SecretRecord, SecretRow};
    for (i, case) in vals::vault_commits().into_iter().enumerate() {
        if acc.skip(&case.label) {
            continue;
        }
        acc.cases += 1;
        acc.evals += 1;
        let id = vals::uid(i as u8 + 1);
        let sos_core::VaultCommit(commit, entry) = &case.value;
        let want = json!({"id": id.to_string(), "commit": case.value.proj()});
        let wit = |extra: Value| json!({"engine": "codecx", "format": "database_row", "type": "SecretRow(db)", "case": case.label, "value": want, "detail": extra});
        let row = match SecretRow::new(&id, commit, entry).await {
            Ok(r) => r,
            Err(e) => {
                acc.fail("to_row_error", format!("SecretRow::new fails: {}", e), wit(json!({"error": e.to_string()})));
                continue;
            }
        };
        acc.distinct.insert(Sha256::digest(format!("{:?}", row).as_bytes()).into());
        match SecretRecord::from_row(row).await {
            Ok(rec) => {
                let got = json!({"id": rec.secret_id.to_string(), "commit": rec.commit.proj()});
                if let Some((np, p, a, b)) = first_diff(&want, &got, &mut vec![]) {
                    acc.fail(&format!("roundtrip_mismatch:{}", np), format!("secret row conversion differs at {}", np), wit(json!({"path": p, "expected": a, "got": b})));
                }
            }
            Err(e) => acc.fail("from_row_error", format!("SecretRecord::from_row fails: {}", e), wit(json!({"error": e.to_string()}))),
        }
    }
}

const TYPES: &[&str] = &[
    // binary
    "UtcDateTime", "Cipher", "KeyDerivation", "AeadPack", "VaultEntry", "VaultCommit", "CommitHash", "CommitProof",
    "CommitState", "Comparison", "EventRecord", "WriteEvent", "AccountEvent", "DeviceEvent", "FileEvent", "Summary",
    "Header", "Vault", "VaultMeta", "SecretMeta", "Secret", "SecretRow", "AuditEvent",
    // wire
    "wire:UtcDateTime", "wire:CommitHash", "wire:CommitProof", "wire:CommitState", "wire:EventRecord", "wire:CheckedPatch",
    "wire:EventLogType", "wire:Origin", "wire:Comparison", "wire:SyncStatus", "wire:Patch", "wire:Diff", "wire:MaybeDiff",
    "wire:SyncDiff", "wire:SyncCompare", "wire:SyncPacket", "wire:CreateSet", "wire:UpdateSet", "wire:TrackedChanges",
    "wire:MergeOutcome", "wire:NetworkChangeEvent", "wire:DiffRequest", "wire:DiffResponse", "wire:PatchRequest",
    "wire:PatchResponse", "wire:ScanRequest", "wire:ScanResponse", "wire:ExternalFile", "wire:FileSet", "wire:FileTransfersSet",
    // database rows
    "db:EventRecordRow", "db:FolderRow", "db:SecretRow", "db:FolderRow(sql)",
];

async fn run_type(name: &str, only: Option<String>) -> Value {
    let (format, ty): (&'static str, &str) = if let Some(t) = name.strip_prefix("wire:") {
        ("wire", t)
    } else if let Some(t) = name.strip_prefix("db:") {
        ("database_row", t)
    } else {
        ("binary", name)
    };
    let mut acc = Acc::new(ty, format, only);
    let a = &mut acc;
    match name {
        "UtcDateTime" => bin(a, true, vals::times()).await,
        "Cipher" => bin(a, true, vals::ciphers()).await,
        "KeyDerivation" => bin(a, true, vals::kdfs()).await,
        "AeadPack" => bin(a, true, vals::packs()).await,
        "VaultEntry" => bin(a, true, vals::entries()).await,
        "VaultCommit" => bin(a, true, vals::vault_commits()).await,
        "CommitHash" => bin(a, true, vals::hashes()).await,
        "CommitProof" => bin(a, true, vals::proofs()).await,
        "CommitState" => bin(a, true, vals::states()).await,
        "Comparison" => bin(a, true, vals::comparisons()).await,
        "EventRecord" => bin(a, true, vals::records()).await,
        "WriteEvent" => bin(a, true, vals::write_events()).await,
        "AccountEvent" => bin(a, true, vals::account_events()).await,
        "DeviceEvent" => bin(a, true, vals::device_events()).await,
        "FileEvent" => bin(a, true, vals::file_events()).await,
        "Summary" => bin(a, true, vals::summaries()).await,
        "Header" => bin(a, true, vals::headers()).await,
        "Vault" => bin(a, true, vals::vaults()).await,
        // plaintext that is encrypted before it is stored: no byte
        // determinism across decode required (HashSet / HashMap members)
        "VaultMeta" => bin(a, false, vals::vault_metas()).await,
        "SecretMeta" => bin(a, false, vals::metas()).await,
        "Secret" => bin(a, false, vals::secrets()).await,
        "SecretRow" => bin(a, false, vals::secret_rows()).await,
        "AuditEvent" => bin(a, true, vals::audit_events()).await,
        "wire:UtcDateTime" => wire(a, false, vals::times).await,
        "wire:CommitHash" => wire(a, false, vals::hashes).await,
        "wire:CommitProof" => wire(a, false, vals::proofs).await,
        "wire:CommitState" => wire(a, false, vals::states).await,
        "wire:EventRecord" => wire(a, false, vals::records).await,
        "wire:CheckedPatch" => wire(a, false, vals::checked_patches).await,
        "wire:EventLogType" => wire(a, false, vals::log_types).await,
        "wire:Origin" => wire(a, false, vals::origins).await,
        "wire:Comparison" => wire(a, false, vals::comparisons).await,
        "wire:SyncStatus" => wire(a, false, vals::sync_statuses).await,
        "wire:Patch" => wire(a, false, vals::patches).await,
        "wire:Diff" => wire(a, false, vals::diffs).await,
        "wire:MaybeDiff" => wire(a, false, vals::maybe_diffs).await,
        "wire:SyncDiff" => wire(a, false, vals::sync_diffs).await,
        "wire:SyncCompare" => wire(a, false, vals::sync_compares).await,
        "wire:SyncPacket" => wire(a, false, vals::sync_packets).await,
        "wire:CreateSet" => wire(a, true, vals::create_sets).await,
        "wire:UpdateSet" => wire(a, true, vals::update_sets).await,
        "wire:TrackedChanges" => wire(a, true, vals::tracked_changes).await,
        "wire:MergeOutcome" => wire(a, true, vals::merge_outcomes).await,
        "wire:NetworkChangeEvent" => wire(a, true, vals::network_changes).await,
        "wire:DiffRequest" => wire(a, false, vals::diff_requests).await,
        "wire:DiffResponse" => wire(a, false, vals::diff_responses).await,
        "wire:PatchRequest" => wire(a, false, vals::patch_requests).await,
        "wire:PatchResponse" => wire(a, false, vals::patch_responses).await,
        "wire:ScanRequest" => wire(a, false, vals::scan_requests).await,
        "wire:ScanResponse" => wire(a, false, vals::scan_responses).await,
        "wire:ExternalFile" => wire(a, false, vals::external_files).await,
        "wire:FileSet" => wire(a, false, vals::file_sets).await,
        "wire:FileTransfersSet" => wire(a, false, vals::file_transfers).await,
        "db:EventRecordRow" => db_event_rows(a).await,
        "db:FolderRow" => db_folder_rows(a).await,
        "db:SecretRow" => db_secret_rows(a).await,
        "db:FolderRow(sql)" => db_folder_sql(a).await,
        other => panic!("unknown type {}", other),
    }
    acc.to_json()
}

fn rt() -> tokio::runtime::Runtime {
    tokio::runtime::Builder::new_current_thread().enable_all().build().unwrap()
}

fn main() {
    let args = Args::parse();
    vals::set_deep(args.tier == Tier::Thorough);
    if std::env::var("VKIT_SHOW_PANICS").is_err() { std::panic::set_hook(Box::new(|_| {})); }
    if pool::worker_stage().is_some() {
        let rt = rt();
        pool::worker_loop(|idx| rt.block_on(run_type(TYPES[idx], None)));
    }
    if let Some(path) = &args.replay {
        std::process::exit(replay(path));
    }
    let mut run = Run::new("C14", "exploration", &args);
    let mut opts = PoolOpts::default();
    opts.item_timeout = std::time::Duration::from_secs(args.tier.pick(120, 900));
    let res = pool::run_stage("types", TYPES.len(), &opts);
    let mut evals = 0u64;
    let mut distinct = 0u64;
    let mut cases = 0u64;
    let mut samples = vec![];
    let mut per_type = Map::new();
    for (i, r) in res.into_iter().enumerate() {
        match r {
            pool::ItemResult::Done(v) => {
                evals += v["evals"].as_u64().unwrap_or(0);
                cases += v["cases"].as_u64().unwrap_or(0);
                distinct += v["distinct"].as_u64().unwrap_or(0);
                per_type.insert(TYPES[i].to_string(), json!({"values": v["cases"], "distinct_encodings": v["distinct"], "evaluations": v["evals"],
                    "failure_signatures": v["fails"].as_array().map(|a| a.len()).unwrap_or(0)}));
                if v["cases"].as_u64().unwrap_or(0) == 0 {
                    run.machinery(format!("vacuous: no value enumerated for {}", TYPES[i]));
                }
                for f in v["fails"].as_array().unwrap() {
                    let sig = f["sig"].as_str().unwrap();
                    if sig.contains("harness_") {
                        run.machinery(format!("{}: {}", sig, f["what"]));
                        continue;
                    }
                    let sig = if TYPES[i].starts_with("wire:") { format!("wire:{}", sig) } else { sig.to_string() };
                    run.fail_n(&sig, f["what"].as_str().unwrap(), f["witness"].clone(), f["count"].as_u64().unwrap());
                }
                for s in v["samples"].as_array().unwrap() {
                    if i % 6 == 0 || TYPES[i] == "Secret" {
                        push_sample(&mut samples, s.clone(), 12);
                    }
                }
            }
            pool::ItemResult::Crashed(w) => run.machinery(format!("worker failed on type {}: {}", TYPES[i], w)),
        }
    }
    run.assume("the harness' projection (vals::Proj) is the definition of equality: every field the format is meant to carry; HashSet/HashMap members compared as sets/maps; FileContent::External.path and MergeOutcome.external_files are documented as never encoded and are excluded");
    run.assume("values are produced by deterministic generators; the set of values is a function of the tier only");
    run.assume("EventRecord -> database row does not carry last_commit by design (order is the row id)");
    let mut cov = Map::new();
    cov.insert("evaluations".into(), json!(evals));
    cov.insert("distinct_nontrivial".into(), json!(distinct));
    cov.insert("values".into(), json!(cases));
    cov.insert("rule".into(), json!("structure enumerator: per type every enum variant x optional present/absent x collection sizes 0/1/2 x boundary scalars, cartesian per type (sizes in per_type); per value: encode, encode again, decode, deep-compare, (hashed types) re-encode. distinct_nontrivial = number of distinct (type, encoding) pairs (sha256 of the encoding) that were encoded successfully and entered the decode/compare stage"));
    cov.insert("samples".into(), json!(samples));
    cov.insert("per_type".into(), Value::Object(per_type));
    cov.insert("types".into(), json!(TYPES.len()));
    cov.insert("exhaustive".into(), json!(true));
    std::process::exit(run.finish(cov));
}

/// Replay: re-run the one (type, case) of the witness twice.
fn replay(path: &std::path::Path) -> i32 {
    let v: Value = serde_json::from_slice(&std::fs::read(path).expect("read replay")).expect("json");
    let w = &v["witness"];
    let ty = w["type"].as_str().unwrap_or("");
    let name = match w["format"].as_str() {
        Some("wire") => format!("wire:{}", ty),
        Some("database_row") => format!("db:{}", ty.trim_end_matches("(db)")),
        _ => ty.to_string(),
    };
    let case = w["case"].as_str().map(|s| s.to_string());
    let rt = rt();
    let a = rt.block_on(run_type(&name, case.clone()));
    let b = rt.block_on(run_type(&name, case));
    let sigs = |x: &Value| -> Vec<String> { x["fails"].as_array().unwrap().iter().map(|f| f["sig"].as_str().unwrap().to_string()).collect() };
    if sigs(&a) != sigs(&b) {
        eprintln!("MACHINERY-ERROR non-deterministic replay");
        return 2;
    }
    println!("replay {} case {:?}: {:?}", name, w["case"], sigs(&a));
    if sigs(&a).is_empty() {
        0
    } else {
        println!("VIOLATION property=C14 replay={}", path.display());
        1
    }
}
